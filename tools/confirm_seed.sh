#!/bin/sh
# usage: tools/confirm_seed.sh <seed dir with patch.diff demo.diff demo_cmd.txt> <pool target dir> [extra test cmd ...]
# Confirms: demo passes without the change, fails with it; extra test commands (existing tests) pass with the change.
D=$(readlink -f "$1"); POOL=$2; shift 2
WT=/tmp/seed-cf
git -C /repo worktree remove --force "$WT" >/dev/null 2>&1; git -C /repo worktree add -q --detach "$WT" HEAD || exit 2
trap 'git -C /repo worktree remove --force "$WT" >/dev/null 2>&1 || true' EXIT
cd "$WT" || exit 2
export CARGO_TARGET_DIR=$POOL CARGO_NET_OFFLINE=true CARGO_INCREMENTAL=0
git apply "$D/demo.diff" || { echo "demo.diff does not apply"; exit 2; }
CMD=$(grep -v '^#' "$D/demo_cmd.txt" | grep cargo | head -1 | sed -E 's/cd <worktree> *&& *//; s/CARGO_TARGET_DIR=[^ ;]+//g')
echo "demo cmd: $CMD"
sh -c "$CMD" > /tmp/cf-$$.a 2>&1; A=$?
git apply "$D/patch.diff" || { echo "patch.diff does not apply"; exit 2; }
sh -c "$CMD" > /tmp/cf-$$.b 2>&1; B=$?
echo "demo without change: exit $A ($(grep -E '^test result' /tmp/cf-$$.a | tail -1))"
echo "demo with change:    exit $B ($(grep -E '^test result' /tmp/cf-$$.b | tail -1))"
git apply -R "$D/demo.diff"
for T in "$@"; do
  sh -c "$T" > /tmp/cf-$$.c 2>&1; C=$?
  echo "existing tests with change [$T]: exit $C ($(grep -E '^test result' /tmp/cf-$$.c | tr '\n' ' ' | cut -c1-300))"
  [ $C -ne 0 ] && grep -E "FAILED|panicked|^error" /tmp/cf-$$.c | head -5
done
rm -f /tmp/cf-$$.*
