#!/usr/bin/env python3
"""Print the DESIGN.md section-11 table from /verif/seeded/*/meta.json."""
import glob, json, os, re
rows = []
for f in sorted(glob.glob("/verif/seeded/*/meta.json")):
    m = json.load(open(f)); name = os.path.basename(os.path.dirname(f))
    s = (m.get("summary") or "").replace("|", "/").replace("\n", " ")
    s = re.sub(r"\s+", " ", s)[:150]
    c = m["check"]; sig = (c.get("first_signature_or_message") or "")
    sig = re.sub(r"^violation \[[^\]]*\]\s*", "", sig)
    sig = sig.split(": ")[0][:70].replace("|", "/")
    note = "yes" if "Initially missed" in (m.get("note") or "") else ""
    rows.append((m["property"], name, s, c["result"], sig, note))
print("| seed | property | change (author's summary, truncated) | quick check | first signature | check strengthened after a first miss |")
print("|---|---|---|---|---|---|")
for p, name, s, r, sig, note in rows:
    print(f"| {name} | {p} | {s} | {r} | `{sig}` | {note} |")
print()
print(f"{len(rows)} kept changes: {sum(1 for r in rows if r[3]=='caught')} caught, {sum(1 for r in rows if r[3]!='caught')} not caught.")
