#!/usr/bin/env python3
"""Copy confirmed seeded changes from the breakers' output into /verif/seeded/<ID>-<n>/
and write meta.json (what it breaks, what it needs, what was run, which check catches it).
Inputs: /root/brk/out/<group>/<ID>/<n>/{patch.diff,demo.diff,demo_cmd.txt,meta.json},
detection results (seed_results*.txt, seed_retry*.txt: '<group> <ID>/<n> exit=<rc> <sig…>', later lines win),
confirmation results (confirm*.txt)."""
import glob, json, os, re, shutil, sys
OUT = "/root/brk/out"; DST = "/verif/seeded"
det = {}
for f in sorted(glob.glob("/root/brk/seed_results*.txt")) + sorted(glob.glob("/root/brk/seed_retry*.txt")) + sorted(glob.glob("/root/brk/seed_manual*.txt")):
    for l in open(f):
        m = re.match(r"(\w+) (C\d+)/(\d+) exit=(\d+)\s*(.*)", l.strip())
        if m:
            g, i, n, rc, sig = m.groups()
            det[(g, i, n)] = (int(rc), sig.strip())
conf = {}
for f in sorted(glob.glob("/root/brk/confirm*.txt")):
    cur = None; blocks = []
    for l in open(f):
        m = re.match(r"=== (?:/root/brk/out/)?(\w+)[ /](C\d+)/(\d+)", l)
        if m:
            cur = (m.groups(), {}); blocks.append(cur)
        elif cur and l.startswith("demo cmd:"):
            cur[1]["demo_cmd"] = l.split(":", 1)[1].strip()
        elif cur and l.startswith("demo without change:"):
            cur[1]["demo_without_change"] = l.split(":", 1)[1].strip()
        elif cur and l.startswith("demo with change:"):
            cur[1]["demo_with_change"] = l.split(":", 1)[1].strip()
        elif cur and l.startswith("existing tests with change"):
            cur[1].setdefault("existing_tests_with_change", []).append(l[len("existing tests with change"):].strip()[:400])
    for k, v in blocks:
        if v.get("demo_without_change") and v.get("demo_with_change"):
            conf[k] = v
notes = json.load(open("/root/brk/seed_notes.json")) if os.path.exists("/root/brk/seed_notes.json") else {}
rows = []
for d in sorted(glob.glob(f"{OUT}/*/C*/*/")):
    g, i, n = d.rstrip("/").split("/")[-3:]
    if not os.path.exists(d + "patch.diff"):
        continue
    key = (g, i, n)
    c = conf.get(key)
    ok = c and c.get("demo_without_change", "").startswith("exit 0") and not c.get("demo_with_change", "exit 0").startswith("exit 0")
    name = f"{i}-{g}{n}"
    rc, sig = det.get(key, (None, ""))
    bm = {}
    try:
        bm = json.load(open(d + "meta.json"))
    except Exception:
        pass
    status = "caught" if rc == 1 else ("missed" if rc == 0 else ("machinery-failure" if rc == 2 else "not-run"))
    rows.append((i, name, status, sig[:90], "confirmed" if ok else "unconfirmed"))
    if not ok:
        continue
    dst = f"{DST}/{name}"
    os.makedirs(dst, exist_ok=True)
    for fn in ("patch.diff", "demo.diff", "demo_cmd.txt"):
        if os.path.exists(d + fn):
            shutil.copy(d + fn, dst + "/" + fn)
    meta = {
        "property": i,
        "origin": f"independent sub-agent '{g}', given only the property text and a scratch worktree (no access to /verif)",
        "summary": bm.get("summary"), "breaks": bm.get("breaks"), "needs": bm.get("needs"),
        "author_ran": {"existing_tests_run": bm.get("existing_tests_run"), "demo_with_change": bm.get("demo_with_change"), "demo_without_change": bm.get("demo_without_change")},
        "coordinator_confirmed_in_scratch_worktree": c,
        "check": {"command": f"tools/try_seed.sh seeded/{name}/patch.diff {i}   (= VERIF_REPO_OVERRIDE=<worktree with the patch> ./check {i} --tier quick)",
                  "result": status, "exit": rc, "first_signature_or_message": sig},
    }
    if name in notes:
        meta["note"] = notes[name]
    json.dump(meta, open(dst + "/meta.json", "w"), indent=1)
for r in rows:
    print(" | ".join(str(x) for x in r))
