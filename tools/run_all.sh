#!/bin/sh
# usage: tools/run_all.sh [tier] [ids...] — run every registered check, print a result table
cd /verif
TIER=${1:-quick}; shift 2>/dev/null
IDS="$@"
[ -z "$IDS" ] && IDS=$(python3 -c "import sys;sys.path.insert(0,'tools');from registry import CHECKS;print(' '.join(sorted(CHECKS)))")
for ID in $IDS; do
  S=$(date +%s)
  ./check $ID --tier $TIER > /tmp/runall-$ID.log 2>&1; RC=$?
  E=$(( $(date +%s) - S ))
  K=$(grep -c '^KNOWN-FINDING' /tmp/runall-$ID.log)
  echo "$ID rc=$RC wall=${E}s known=$K $(grep -E '^(OK|VIOLATION|MACHINERY)' /tmp/runall-$ID.log | head -2 | tr '\n' ' ' | cut -c1-160)"
done
