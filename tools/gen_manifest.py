#!/usr/bin/env python3
"""Regenerate /verif/MANIFEST.json from tools/registry.py."""
import json, os, subprocess, sys
ROOT = os.path.dirname(os.path.dirname(os.path.abspath(__file__)))
sys.path.insert(0, os.path.join(ROOT, "tools"))
from registry import CHECKS, NOT_APPLICABLE

props = [json.loads(l)["id"] for l in open(os.path.join(ROOT, "properties.jsonl"))]
baseline = json.load(open("/root/.vp/BASELINE.json"))["cmd"]
hooks = []
try:
    out = subprocess.check_output(["git", "-C", "/repo", "log", "--format=%h %s"], text=True)
    hooks = [l.split()[0] for l in out.splitlines() if l.split(" ", 1)[1].startswith("verif-hooks")]
except Exception:
    pass

checks = []
for pid in props:
    if pid not in CHECKS:
        continue
    c = CHECKS[pid]
    checks.append({
        "property_id": pid,
        "quick_cmd": f"./check {pid} --tier quick",
        "thorough_cmd": f"./check {pid} --tier thorough",
        "evidence_file": f"/verif/evidence/{pid}.json",
        "replay_cmd_template": f"./check {pid} --replay {{path}}",
        "engine": c["crate"],
        "level_claimed": {"category": c["level"], "text": c["text"], "design_ref": "DESIGN.md section " + c["design_ref"]},
        "level_note": c["note"],
        "technique": c["technique"],
    })
na = []
for pid in props:
    if pid in CHECKS:
        continue
    na.append({"property_id": pid, "reason": NOT_APPLICABLE.get(pid, "check not built yet in this round (planned, see DESIGN.md section 4); not claimed until its harness exists")})

engines = {}
for pid, c in CHECKS.items():
    engines.setdefault(c["crate"], []).append(pid)

m = {
    "version": 1,
    "setup_cmd": "./setup.sh",
    "hooks": {
        "guard": "cargo feature `verif-hooks` (declared in each hooked crate of /repo, off by default)",
        "enable": "harness crates under /verif/harness depend on the /repo crates by path with features=[\"verif-hooks\"]; ./check rebuilds them from /repo's working tree (no RUSTFLAGS, no lock-file change)",
        "baseline_off_cmd": baseline,
        "source_commits": hooks,
        "add_only": True,
    },
    "engines": [{"name": "mcx", "path": "/verif/harness/mcx", "serves_properties": sorted(CHECKS), "kind_free_text": "explicit-state BFS over operation histories executed on the real code (replay or clone), deviation bounding, canonical-state dedup, replay-digest determinism check; exhaustive finite-input sweeps"}]
    + [{"name": k, "path": f"/verif/harness/{k}", "serves_properties": sorted(v), "kind_free_text": "harness crate (subjects, reference models, oracles) linked against /repo by path"} for k, v in sorted(engines.items())],
    "checks": checks,
    "not_applicable": na,
    "notes": "All checks: cwd=/verif, `./check <ID> --tier quick|thorough`; exit 0/1 per contract, exit 2 = machinery failure (no verdict). Known findings: /verif/known_findings.json. Design: /verif/DESIGN.md.",
}
json.dump(m, open(os.path.join(ROOT, "MANIFEST.json"), "w"), indent=1)
print(f"MANIFEST.json: {len(checks)} checks, {len(na)} not claimed")
try:
    import jsonschema
    jsonschema.validate(m, json.load(open("/root/.vp/MANIFEST.schema.json")))
    print("schema: valid")
except ImportError:
    print("schema: jsonschema not importable, skipped")
