#!/bin/sh
# usage: tools/try_seed_wasm.sh <patch.diff>  — run C07 against a scratch worktree of /repo with the patch applied.
# cargo's `paths=` override cannot be used for the WASM package (see DESIGN 9), so a scratch copy of the
# vh-exec-wasm manifest (and the sources it shares with vh-exec / mcx) is built with its path
# dependencies pointed at the worktree.
set -e
PATCH=$(readlink -f "$1")
WT=/tmp/seed-wt-wasm; SC=/tmp/seed-wasm-harness
git -C /repo worktree remove --force $WT >/dev/null 2>&1 || true; git -C /repo worktree prune
git -C /repo worktree add -q --detach $WT HEAD
trap 'git -C /repo worktree remove --force $WT >/dev/null 2>&1 || true; rm -rf $SC /tmp/seed-wasm-root' EXIT
git -C $WT apply "$PATCH"
rm -rf $SC; mkdir -p $SC
cp -r /verif/harness/mcx /verif/harness/vh-exec /verif/harness/vh-exec-wasm $SC/
cp /verif/harness/rust-toolchain.toml $SC/ 2>/dev/null || true
sed -i "s|/repo/|$WT/|g" $SC/vh-exec-wasm/Cargo.toml
mkdir -p /tmp/seed-wasm-root/evidence
cp /verif/known_findings.json /tmp/seed-wasm-root/
cd $SC/vh-exec-wasm
set +e
CARGO_NET_OFFLINE=true VERIF_REPO=$WT CARGO_TARGET_DIR=/verif/harness/target-seed-wasm cargo build --release --offline > /tmp/seed-wasm-build.log 2>&1 || { tail -20 /tmp/seed-wasm-build.log; echo "exit=2 BUILD FAILED"; exit 0; }
cd /tmp/seed-wasm-root
VERIF_ROOT=/tmp/seed-wasm-root VERIF_REPO=$WT /verif/harness/target-seed-wasm/release/vh-exec-wasm C07 --tier quick > /tmp/seed-wasm-out.txt 2>&1
RC=$?
grep -E "^(VIOLATION|OK|KNOWN-FINDING|MACHINERY)|violation \[" /tmp/seed-wasm-out.txt | cut -c1-260 | head -6
echo "exit=$RC"
