#!/bin/sh
# usage: tools/try_seed.sh <patch.diff> <ID> [tier]  — run a check against a scratch worktree of /repo with the patch applied
set -e
PATCH=$(readlink -f "$1"); ID=$2; TIER=${3:-quick}
WT=/tmp/seed-wt-$$
git -C /repo worktree add -q --detach "$WT" HEAD
trap 'git -C /repo worktree remove --force "$WT" >/dev/null 2>&1 || true' EXIT
git -C "$WT" apply "$PATCH"
cd /verif
CRATE=$(python3 -c "import sys;sys.path.insert(0,'tools');from registry import CHECKS;print(CHECKS['$ID']['crate'])")
TD=/verif/harness/target-$CRATE; [ -d "$TD" ] || TD=/verif/harness/target
set +e
VERIF_REPO_OVERRIDE="$WT" VERIF_TARGET_DIR="$TD" VERIF_EVIDENCE_SUFFIX=.seed ./check "$ID" --tier "$TIER" > /tmp/seed-out-$$.txt 2>&1
RC=$?
grep -E "^(VIOLATION|OK|KNOWN-FINDING|MACHINERY)|violation \[" /tmp/seed-out-$$.txt | cut -c1-260 | head -8
echo "exit=$RC"
rm -f /tmp/seed-out-$$.txt
# restore evidence from git (seed runs must not leave evidence from a mutated tree)
git -C /verif checkout -- evidence/$ID.json 2>/dev/null || true
