"""Single source of truth: which harness crate serves which property.
One JSON file per harness crate under tools/registry.d/ :
  { "<ID>": {"crate": "...", "level": "...", "design_ref": "...",
             "technique": "...", "text": "...", "note": "..."} , ... }
`gen_manifest.py` turns these into /verif/MANIFEST.json; `check` uses them to
find the crate to (re)build and run."""
import glob, json, os

_D = os.path.join(os.path.dirname(os.path.abspath(__file__)), "registry.d")
CHECKS = {}
for _f in sorted(glob.glob(os.path.join(_D, "*.json"))):
    if os.path.basename(_f).startswith("_"):
        continue
    for _k, _v in json.load(open(_f)).items():
        if _k in CHECKS:
            raise SystemExit(f"registry: {_k} registered twice ({_f})")
        CHECKS[_k] = _v

# Properties not claimed, with the reason (kept current by hand).
NOT_APPLICABLE = {}
_na = os.path.join(_D, "_not_applicable.json")
if os.path.exists(_na):
    NOT_APPLICABLE = json.load(open(_na))
