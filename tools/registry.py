"""Single source of truth: which harness crate serves which property.
`gen_manifest.py` turns this into /verif/MANIFEST.json; `check` uses it to
find the crate to (re)build and run."""

CHECKS = {
    "C34": dict(
        crate="vh-gas", level="model_checking", design_ref="4/C34",
        technique="explicit-state BFS over update sequences on the real AlgorithmUpdaterV1, all small configurations enumerated",
        text="Breadth-first exploration of every sequence of L2-block / DA-record updates (depth 5 quick, 6 thorough; <=1/2 rejected updates) over 216+ updater configurations, executing the real AlgorithmUpdaterV1 and checking bounds, per-call rate limits and rejected-update atomicity in every reached state.",
        note="Bounded alphabets of usage/bytes/fee/cost values and configurations; rate bound read per update call on scaled prices; f64-free code so results are exact.",
    ),
    "C35": dict(
        crate="vh-gas", level="exploration", design_ref="4/C35",
        technique="exhaustive enumeration of a finite input grid (price x percentage x horizon) against an integer reference",
        text="Exhaustive grid: 22 edge prices x percentages 0..=40(64)+{100,1000,65535} x horizons 0..=40(64)+edges on cumulative_percentage_change, plus AlgorithmV1::worst_case via the real updater; oracle: no panic, monotone in horizon, >= integer-compounded price.",
        note="Reference is the integer compounding loop; values outside the grid are not covered. Two float-rounding witness classes are recorded as known findings.",
    ),
}

# Properties not (yet) claimed, with the reason.
NOT_APPLICABLE = {
}
