#!/bin/sh
# usage: tools/try_all_seeds.sh <out-root> [group ...]  — try every patch.diff under <out-root>/<group>/<ID>/<n>/
ROOT=$1; shift
GROUPS="$@"; [ -z "$GROUPS" ] && GROUPS=$(ls $ROOT)
for G in $GROUPS; do
  for P in $ROOT/$G/C*/*/patch.diff; do
    [ -f "$P" ] || continue
    ID=$(echo $P | sed -E 's|.*/(C[0-9]+)/[0-9]+/patch.diff|\1|'); N=$(basename $(dirname $P))
    R=$(/verif/tools/try_seed.sh $P $ID 2>&1)
    RC=$(echo "$R" | grep -o 'exit=[0-9]*' | tail -1)
    SIG=$(echo "$R" | grep -E "violation \[" | head -1 | sed -E 's/.*\] ([^:]+(:[^ ]+)?):.*/\1/' | cut -c1-80)
    echo "$G $ID/$N $RC $SIG"
  done
done
