//! mcx — a small explicit-state model-checking engine that explores the REAL
//! transition function of the code under test.
//!
//! * `explore`  : level-synchronous breadth-first search over operation
//!                histories with canonical-state deduplication, deviation
//!                bounding, replay-based state reconstruction (or cloning),
//!                built-in determinism checking (every replayed prefix must
//!                reproduce its observation digest), panic capture, caps.
//! * `Sweep`    : exhaustive enumeration of a finite input set with the same
//!                reporting (evaluations / distinct non-trivial / samples).
//! * `Run`      : evidence writer, replay files, known-findings protocol and
//!                exit codes (0 held / 1 violation / 2 machinery failure).
#![allow(clippy::type_complexity)]

use serde::{de::DeserializeOwned, Deserialize, Serialize};
use serde_json::{json, Value};
use sha2::{Digest, Sha256};
use std::cell::RefCell;
use std::collections::{BTreeMap, BTreeSet, HashSet};
use std::fmt::Debug;
use std::panic::{catch_unwind, AssertUnwindSafe};
use std::path::PathBuf;
use std::sync::atomic::{AtomicBool, AtomicUsize, Ordering};
use std::sync::Mutex;
use std::time::Instant;

pub const ENGINE_VERSION: &str = "mcx-1";

// ---------------------------------------------------------------------------
// CLI
// ---------------------------------------------------------------------------

#[derive(Clone, Copy, Debug, PartialEq, Eq)]
pub enum Tier {
    Quick,
    Thorough,
}

impl Tier {
    pub fn as_str(&self) -> &'static str {
        match self {
            Tier::Quick => "quick",
            Tier::Thorough => "thorough",
        }
    }
    /// Pick a bound by tier.
    pub fn pick<T>(&self, quick: T, thorough: T) -> T {
        match self {
            Tier::Quick => quick,
            Tier::Thorough => thorough,
        }
    }
}

#[derive(Clone, Debug)]
pub struct Cli {
    pub property: String,
    pub tier: Tier,
    pub seed: u64,
    pub replay: Option<PathBuf>,
    pub threads: usize,
}

pub fn verif_root() -> PathBuf {
    PathBuf::from(std::env::var("VERIF_ROOT").unwrap_or_else(|_| "/verif".to_string()))
}

pub fn repo_root() -> PathBuf {
    PathBuf::from(std::env::var("VERIF_REPO").unwrap_or_else(|_| "/repo".to_string()))
}

impl Cli {
    pub fn parse() -> Cli {
        let args: Vec<String> = std::env::args().skip(1).collect();
        let mut property = None;
        let mut tier = match std::env::var("VERIF_TIER").ok().as_deref() {
            Some("thorough") => Tier::Thorough,
            _ => Tier::Quick,
        };
        let mut replay = None;
        let mut i = 0;
        while i < args.len() {
            match args[i].as_str() {
                "--tier" => {
                    i += 1;
                    tier = match args.get(i).map(|s| s.as_str()) {
                        Some("quick") => Tier::Quick,
                        Some("thorough") => Tier::Thorough,
                        other => machinery_failure(&format!("bad --tier {other:?}")),
                    };
                }
                "--replay" => {
                    i += 1;
                    replay = Some(PathBuf::from(
                        args.get(i)
                            .unwrap_or_else(|| machinery_failure("--replay needs a path")),
                    ));
                }
                s if property.is_none() => property = Some(s.to_string()),
                other => machinery_failure(&format!("unexpected argument {other}")),
            }
            i += 1;
        }
        let seed = std::env::var("VERIF_SEED")
            .ok()
            .and_then(|s| s.parse::<u64>().ok())
            .unwrap_or(0);
        let threads = std::env::var("VERIF_THREADS")
            .ok()
            .and_then(|s| s.parse::<usize>().ok())
            .unwrap_or_else(|| {
                std::thread::available_parallelism()
                    .map(|n| n.get())
                    .unwrap_or(4)
            });
        Cli {
            property: property.unwrap_or_else(|| machinery_failure("usage: <ID> [--tier quick|thorough] [--replay file]")),
            tier,
            seed,
            replay,
            threads,
        }
    }
}

pub fn machinery_failure(msg: &str) -> ! {
    eprintln!("MACHINERY-FAILURE: {msg}");
    println!("MACHINERY-FAILURE: {msg}");
    std::process::exit(2)
}

// ---------------------------------------------------------------------------
// Panic capture
// ---------------------------------------------------------------------------

thread_local! {
    static QUIET: RefCell<bool> = const { RefCell::new(false) };
    static LAST_PANIC: RefCell<Option<String>> = const { RefCell::new(None) };
}

static HOOK_INSTALLED: AtomicBool = AtomicBool::new(false);

pub fn install_panic_hook() {
    if HOOK_INSTALLED.swap(true, Ordering::SeqCst) {
        return;
    }
    let prev = std::panic::take_hook();
    std::panic::set_hook(Box::new(move |info| {
        let quiet = QUIET.with(|q| *q.borrow());
        if quiet {
            let payload = if let Some(s) = info.payload().downcast_ref::<&str>() {
                s.to_string()
            } else if let Some(s) = info.payload().downcast_ref::<String>() {
                s.clone()
            } else {
                "<non-string panic>".to_string()
            };
            let loc = info
                .location()
                .map(|l| format!("{}:{}", l.file(), l.line()))
                .unwrap_or_default();
            LAST_PANIC.with(|p| *p.borrow_mut() = Some(format!("{payload} @ {loc}")));
        } else {
            prev(info);
        }
    }));
}

/// Run `f`, converting a panic into `Err(message @ file:line)`.
pub fn guarded<T>(f: impl FnOnce() -> T) -> Result<T, String> {
    install_panic_hook();
    let was = QUIET.with(|q| std::mem::replace(&mut *q.borrow_mut(), true));
    let r = catch_unwind(AssertUnwindSafe(f));
    QUIET.with(|q| *q.borrow_mut() = was);
    match r {
        Ok(v) => Ok(v),
        Err(_) => Err(LAST_PANIC
            .with(|p| p.borrow_mut().take())
            .unwrap_or_else(|| "panic (no message captured)".to_string())),
    }
}

// ---------------------------------------------------------------------------
// Violations
// ---------------------------------------------------------------------------

#[derive(Clone, Debug, Serialize, Deserialize)]
pub struct Violation {
    /// Stable class of the failure (used for known-findings matching).
    pub sig: String,
    /// Human readable: expected vs observed.
    pub msg: String,
}

pub fn viol(sig: impl Into<String>, msg: impl Into<String>) -> Violation {
    Violation {
        sig: sig.into(),
        msg: msg.into(),
    }
}

#[derive(Clone, Debug, Serialize, Deserialize)]
pub struct FoundViolation {
    pub subject: String,
    pub sig: String,
    pub msg: String,
    /// Operation history (or the input) that reproduces it.
    pub history: Value,
    pub confirmed_by_second_replay: bool,
}

// ---------------------------------------------------------------------------
// Subject + explorer
// ---------------------------------------------------------------------------

pub trait Subject: Sync {
    type World;
    type Op: Clone + Debug + Serialize + DeserializeOwned + Send + Sync;

    fn name(&self) -> String;
    /// Fresh real objects + fresh reference model.
    fn fresh(&self) -> Self::World;
    /// Finite menu of letters enabled in this state (simplest first).
    fn enabled(&self, w: &Self::World) -> Vec<Self::Op>;
    /// Apply `op` to the REAL code and to the model, then check the oracle.
    /// `Ok(observation)` or `Err(violation)`.
    fn step(&self, w: &mut Self::World, op: &Self::Op) -> Result<String, Violation>;
    /// Canonical, property-relevant encoding of the state: everything the
    /// future can depend on.
    fn canon(&self, w: &Self::World) -> Vec<u8>;
    /// 0 = default/benign letter, >=1 = fault / deviation letter.
    fn deviation(&self, _op: &Self::Op) -> u32 {
        0
    }
    /// Cheap copy of the world if the real objects are clonable.
    fn clone_world(&self, _w: &Self::World) -> Option<Self::World> {
        None
    }
    /// Label used for per-letter hit counts.
    fn label(&self, op: &Self::Op) -> String {
        let s = format!("{op:?}");
        s.split(|c: char| !(c.is_alphanumeric() || c == '_'))
            .next()
            .unwrap_or("")
            .to_string()
    }
    /// Is this transition "interesting" by the property's own rule
    /// (a collision happened, a fault was injected, ...)?
    fn interesting(&self, _op: &Self::Op, _obs: &str) -> bool {
        true
    }
    /// Labels that must fire at least once, else the run is vacuous.
    fn required_labels(&self) -> Vec<String> {
        vec![]
    }
}

#[derive(Clone, Debug)]
pub struct Bounds {
    pub max_depth: usize,
    /// Total deviation budget along a history (u32::MAX = unbounded).
    pub max_deviations: u32,
    pub wall_cap_s: u64,
    pub state_cap: usize,
    pub threads: usize,
}

impl Bounds {
    pub fn new(max_depth: usize, cli: &Cli) -> Bounds {
        Bounds {
            max_depth,
            max_deviations: u32::MAX,
            wall_cap_s: cli.tier.pick(50, 1500),
            state_cap: cli.tier.pick(400_000, 6_000_000),
            threads: cli.threads,
        }
    }
    pub fn deviations(mut self, d: u32) -> Self {
        self.max_deviations = d;
        self
    }
    pub fn wall(mut self, s: u64) -> Self {
        self.wall_cap_s = s;
        self
    }
    pub fn states(mut self, s: usize) -> Self {
        self.state_cap = s;
        self
    }
}

#[derive(Clone, Debug, Default, Serialize)]
pub struct Report {
    pub subject: String,
    pub states: usize,
    pub transitions: usize,
    pub replayed_prefixes: usize,
    pub max_depth_bound: usize,
    pub depth_completed: usize,
    pub max_deviations: Option<u32>,
    pub distinct_observations: usize,
    pub interesting_transitions: usize,
    pub distinct_interesting: usize,
    pub terminal_states: usize,
    pub label_hits: BTreeMap<String, usize>,
    pub frontier_sizes: Vec<usize>,
    pub exhaustive: bool,
    pub cap_hit: Option<String>,
    pub samples: Vec<Value>,
    pub wall_s: f64,
    #[serde(skip)]
    pub violations: Vec<FoundViolation>,
}

struct Node<Op> {
    history: Vec<Op>,
    devs: u32,
    obs_digest: [u8; 16],
}

struct Child<Op> {
    op: Op,
    key: [u8; 16],
    devs: u32,
    obs_digest: [u8; 16],
    obs_hash: u64,
    interesting: bool,
    label: String,
}

enum Outcome<Op> {
    Child(Child<Op>),
    Violation(Op, Violation),
}

fn h16(parts: &[&[u8]]) -> [u8; 16] {
    let mut h = Sha256::new();
    for p in parts {
        h.update((p.len() as u64).to_le_bytes());
        h.update(p);
    }
    let d = h.finalize();
    let mut o = [0u8; 16];
    o.copy_from_slice(&d[..16]);
    o
}

fn h64(b: &[u8]) -> u64 {
    let d = h16(&[b]);
    u64::from_le_bytes(d[..8].try_into().unwrap())
}

/// Rebuild the world reached by `history`, verifying the observation digest.
fn rebuild<S: Subject>(s: &S, history: &[S::Op], expect: Option<&[u8; 16]>) -> Result<S::World, String> {
    let mut w = s.fresh();
    let mut dig = [0u8; 16];
    for (i, op) in history.iter().enumerate() {
        match s.step(&mut w, op) {
            Ok(obs) => dig = h16(&[&dig, obs.as_bytes()]),
            Err(v) => {
                return Err(format!(
                    "replay divergence: step {i} ({op:?}) of an accepted history now violates: {} / {}",
                    v.sig, v.msg
                ))
            }
        }
    }
    if let Some(e) = expect {
        if &dig != e {
            return Err(format!(
                "replay divergence: observation digest differs after replaying {} ops (non-determinism in harness or code)",
                history.len()
            ));
        }
    }
    Ok(w)
}

/// Replay one history outside of the explorer; returns per-step observations
/// or the violation.
pub fn replay_history<S: Subject>(s: &S, ops: &[S::Op]) -> Result<Vec<String>, (usize, Violation)> {
    let r = guarded(|| {
        let mut w = s.fresh();
        let mut obs = vec![];
        for (i, op) in ops.iter().enumerate() {
            match s.step(&mut w, op) {
                Ok(o) => obs.push(o),
                Err(v) => return Err((i, v)),
            }
        }
        Ok(obs)
    });
    match r {
        Ok(x) => x,
        Err(p) => Err((ops.len().saturating_sub(1), viol("panic", p))),
    }
}

fn expand<S: Subject>(s: &S, node: &Node<S::Op>, b: &Bounds, replays: &AtomicUsize) -> Result<Vec<Outcome<S::Op>>, String> {
    let base = guarded(|| rebuild(s, &node.history, Some(&node.obs_digest)))
        .map_err(|p| format!("panic while replaying accepted history: {p}"))??;
    replays.fetch_add(1, Ordering::Relaxed);
    let ops = guarded(|| s.enabled(&base)).map_err(|p| format!("panic in enabled(): {p}"))?;
    let mut out = Vec::with_capacity(ops.len());
    let mut base = Some(base);
    let n = ops.len();
    for (i, op) in ops.into_iter().enumerate() {
        let dev = s.deviation(&op);
        let devs = node.devs.saturating_add(dev);
        if b.max_deviations != u32::MAX && devs > b.max_deviations {
            continue;
        }
        let mut w = if i + 1 == n {
            base.take().unwrap()
        } else if let Some(c) = s.clone_world(base.as_ref().unwrap()) {
            c
        } else {
            replays.fetch_add(1, Ordering::Relaxed);
            guarded(|| rebuild(s, &node.history, Some(&node.obs_digest)))
                .map_err(|p| format!("panic while replaying accepted history: {p}"))??
        };
        let r = guarded(|| {
            let r = s.step(&mut w, &op);
            r.map(|obs| {
                let c = s.canon(&w);
                (obs, c)
            })
        });
        match r {
            Err(p) => out.push(Outcome::Violation(op, viol("panic", p))),
            Ok(Err(v)) => out.push(Outcome::Violation(op, v)),
            Ok(Ok((obs, canon))) => {
                let key = if b.max_deviations == u32::MAX {
                    h16(&[&canon])
                } else {
                    h16(&[&canon, &devs.to_le_bytes()])
                };
                out.push(Outcome::Child(Child {
                    key,
                    devs,
                    obs_digest: h16(&[&node.obs_digest, obs.as_bytes()]),
                    obs_hash: h64(format!("{}|{}", s.label(&op), obs).as_bytes()),
                    interesting: s.interesting(&op, &obs),
                    label: s.label(&op),
                    op,
                }));
            }
        }
    }
    Ok(out)
}

pub fn explore<S: Subject>(s: &S, b: &Bounds) -> Report {
    install_panic_hook();
    let t0 = Instant::now();
    let mut rep = Report {
        subject: s.name(),
        max_depth_bound: b.max_depth,
        max_deviations: if b.max_deviations == u32::MAX { None } else { Some(b.max_deviations) },
        exhaustive: true,
        ..Default::default()
    };
    let root_canon = match guarded(|| {
        let w = s.fresh();
        s.canon(&w)
    }) {
        Ok(c) => c,
        Err(p) => machinery_failure(&format!("{}: panic building the initial world: {p}", s.name())),
    };
    let root_key = if b.max_deviations == u32::MAX {
        h16(&[&root_canon])
    } else {
        h16(&[&root_canon, &0u32.to_le_bytes()])
    };
    let mut seen: HashSet<[u8; 16]> = HashSet::new();
    seen.insert(root_key);
    let mut obs_seen: HashSet<u64> = HashSet::new();
    let mut interesting_seen: HashSet<u64> = HashSet::new();
    let mut frontier: Vec<Node<S::Op>> = vec![Node {
        history: vec![],
        devs: 0,
        obs_digest: [0u8; 16],
    }];
    let mut viol_sigs: BTreeSet<String> = BTreeSet::new();
    let replays = AtomicUsize::new(0);
    let mut sample_pool: Vec<Vec<S::Op>> = vec![];

    for depth in 0..b.max_depth {
        if frontier.is_empty() {
            break;
        }
        rep.frontier_sizes.push(frontier.len());
        let next_idx = AtomicUsize::new(0);
        let stop = AtomicBool::new(false);
        let results: Mutex<Vec<(usize, Result<Vec<Outcome<S::Op>>, String>)>> = Mutex::new(Vec::new());
        let nthreads = b.threads.max(1).min(frontier.len().max(1));
        std::thread::scope(|sc| {
            for _ in 0..nthreads {
                sc.spawn(|| {
                    let mut local = vec![];
                    loop {
                        if stop.load(Ordering::Relaxed) {
                            break;
                        }
                        let i = next_idx.fetch_add(1, Ordering::Relaxed);
                        if i >= frontier.len() {
                            break;
                        }
                        if t0.elapsed().as_secs() > b.wall_cap_s {
                            stop.store(true, Ordering::Relaxed);
                            break;
                        }
                        let r = expand(s, &frontier[i], b, &replays);
                        let failed = r.is_err();
                        local.push((i, r));
                        if failed {
                            stop.store(true, Ordering::Relaxed);
                            break;
                        }
                    }
                    results.lock().unwrap().extend(local);
                });
            }
        });
        let mut results = results.into_inner().unwrap();
        results.sort_by_key(|(i, _)| *i);
        let complete = results.len() == frontier.len() && !stop.load(Ordering::Relaxed);
        let mut next: Vec<Node<S::Op>> = vec![];
        for (i, r) in results {
            let outs = match r {
                Ok(o) => o,
                Err(e) => machinery_failure(&format!("{}: {e}", s.name())),
            };
            if outs.is_empty() {
                rep.terminal_states += 1;
            }
            for o in outs {
                rep.transitions += 1;
                match o {
                    Outcome::Violation(op, v) => {
                        let mut hist = frontier[i].history.clone();
                        hist.push(op.clone());
                        *rep.label_hits.entry(s.label(&op)).or_default() += 1;
                        if viol_sigs.insert(v.sig.clone()) {
                            // confirm by replaying twice, outside the search
                            let r1 = replay_history(s, &hist);
                            let r2 = replay_history(s, &hist);
                            let same = match (&r1, &r2) {
                                (Err((i1, v1)), Err((i2, v2))) => i1 == i2 && v1.sig == v2.sig && v1.msg == v2.msg,
                                _ => false,
                            };
                            if !same {
                                machinery_failure(&format!(
                                    "{}: violation {} is not reproducible on replay (first: {:?}, second: {:?}) history={}",
                                    s.name(),
                                    v.sig,
                                    r1.as_ref().err(),
                                    r2.as_ref().err(),
                                    serde_json::to_string(&hist).unwrap_or_default()
                                ));
                            }
                            rep.violations.push(FoundViolation {
                                subject: s.name(),
                                sig: v.sig.clone(),
                                msg: v.msg.clone(),
                                history: serde_json::to_value(&hist).unwrap_or(Value::Null),
                                confirmed_by_second_replay: true,
                            });
                        }
                    }
                    Outcome::Child(c) => {
                        *rep.label_hits.entry(c.label.clone()).or_default() += 1;
                        obs_seen.insert(c.obs_hash);
                        if c.interesting {
                            rep.interesting_transitions += 1;
                            interesting_seen.insert(c.obs_hash ^ u64::from_le_bytes(c.key[..8].try_into().unwrap()));
                        }
                        if seen.insert(c.key) {
                            let mut hist = frontier[i].history.clone();
                            hist.push(c.op);
                            if sample_pool.len() < 4096 {
                                sample_pool.push(hist.clone());
                            } else {
                                let k = (h64(&c.key) as usize) % 4096;
                                if hist.len() >= sample_pool[k].len() {
                                    sample_pool[k] = hist.clone();
                                }
                            }
                            next.push(Node {
                                history: hist,
                                devs: c.devs,
                                obs_digest: c.obs_digest,
                            });
                        }
                    }
                }
            }
        }
        if !complete {
            rep.exhaustive = false;
            rep.cap_hit = Some(format!("wall cap {}s hit while expanding depth {}", b.wall_cap_s, depth));
            break;
        }
        rep.depth_completed = depth + 1;
        if seen.len() > b.state_cap {
            rep.exhaustive = false;
            rep.cap_hit = Some(format!("state cap {} hit after depth {}", b.state_cap, depth + 1));
            break;
        }
        frontier = next;
    }
    rep.states = seen.len();
    rep.replayed_prefixes = replays.load(Ordering::Relaxed);
    rep.distinct_observations = obs_seen.len();
    rep.distinct_interesting = interesting_seen.len();
    // samples: shortest, a middle one, the longest, plus one more
    if !sample_pool.is_empty() {
        let n = sample_pool.len();
        let mut picks = vec![0, n / 3, (2 * n) / 3, n - 1];
        picks.dedup();
        for p in picks {
            rep.samples.push(serde_json::to_value(&sample_pool[p]).unwrap_or(Value::Null));
        }
    }
    rep.wall_s = t0.elapsed().as_secs_f64();
    for l in s.required_labels() {
        // a run that found violations is not vacuous; the guard yields to them
        if rep.violations.is_empty() && !rep.label_hits.contains_key(&l) {
            machinery_failure(&format!("{}: vacuous exploration, letter {l} never fired", s.name()));
        }
    }
    rep
}

// ---------------------------------------------------------------------------
// Sweep: exhaustive enumeration of a finite input set
// ---------------------------------------------------------------------------

#[derive(Default)]
pub struct Sweep {
    pub name: String,
    pub rule: String,
    pub evaluations: u64,
    pub nontrivial: HashSet<u64>,
    pub outcomes: BTreeMap<String, u64>,
    pub samples: Vec<Value>,
    pub violations: Vec<FoundViolation>,
    pub exhaustive: bool,
    sigs: BTreeSet<String>,
}

impl Sweep {
    pub fn new(name: &str, rule: &str) -> Sweep {
        Sweep {
            name: name.to_string(),
            rule: rule.to_string(),
            exhaustive: true,
            ..Default::default()
        }
    }
    /// Record one evaluated case. `nontrivial`: Some(key) if non-trivial by the
    /// stated rule; `outcome`: coarse class (for the distinct-outcome count).
    pub fn case(&mut self, nontrivial: Option<u64>, outcome: &str, input: impl FnOnce() -> Value, result: Result<(), Violation>) {
        self.evaluations += 1;
        if let Some(k) = nontrivial {
            self.nontrivial.insert(k);
        }
        let c = self.outcomes.entry(outcome.to_string()).or_default();
        *c += 1;
        let first_of_class = *c == 1;
        match result {
            Ok(()) => {
                if first_of_class && self.samples.len() < 12 {
                    self.samples.push(json!({"outcome": outcome, "input": input()}));
                }
            }
            Err(v) => {
                if self.sigs.insert(v.sig.clone()) {
                    self.violations.push(FoundViolation {
                        subject: self.name.clone(),
                        sig: v.sig,
                        msg: v.msg,
                        history: input(),
                        confirmed_by_second_replay: false,
                    });
                }
            }
        }
    }
    pub fn merge(&mut self, other: Sweep) {
        self.evaluations += other.evaluations;
        self.nontrivial.extend(other.nontrivial);
        for (k, v) in other.outcomes {
            *self.outcomes.entry(k).or_default() += v;
        }
        for s in other.samples {
            if self.samples.len() < 12 {
                self.samples.push(s);
            }
        }
        for v in other.violations {
            if self.sigs.insert(v.sig.clone()) {
                self.violations.push(v);
            }
        }
        self.exhaustive &= other.exhaustive;
    }
}

pub fn hash_of<T: std::hash::Hash>(t: &T) -> u64 {
    use std::hash::Hasher;
    let mut h = std::collections::hash_map::DefaultHasher::new();
    t.hash(&mut h);
    h.finish()
}

/// Run `f(i, &mut sweep)` for i in 0..n on all threads, merging the sweeps.
pub fn par_sweep(name: &str, rule: &str, n: usize, threads: usize, f: impl Fn(usize, &mut Sweep) + Sync) -> Sweep {
    install_panic_hook();
    let next = AtomicUsize::new(0);
    let total = Mutex::new(Sweep::new(name, rule));
    std::thread::scope(|sc| {
        for _ in 0..threads.max(1).min(n.max(1)) {
            sc.spawn(|| {
                let mut local = Sweep::new(name, rule);
                loop {
                    let i = next.fetch_add(1, Ordering::Relaxed);
                    if i >= n {
                        break;
                    }
                    f(i, &mut local);
                }
                total.lock().unwrap().merge(local);
            });
        }
    });
    total.into_inner().unwrap()
}

// ---------------------------------------------------------------------------
// Known findings
// ---------------------------------------------------------------------------

#[derive(Clone, Debug, Deserialize)]
pub struct KnownFinding {
    pub property: String,
    pub signature: String,
    pub status: String, // "known" | "fixed"
    #[serde(default)]
    pub what_fails: String,
    #[serde(default)]
    pub commit: Option<String>,
}

pub fn load_known_findings() -> Vec<KnownFinding> {
    let p = verif_root().join("known_findings.json");
    match std::fs::read_to_string(&p) {
        Ok(s) => {
            #[derive(Deserialize)]
            struct F {
                findings: Vec<KnownFinding>,
            }
            match serde_json::from_str::<F>(&s) {
                Ok(f) => f.findings,
                Err(e) => machinery_failure(&format!("known_findings.json does not parse: {e}")),
            }
        }
        Err(_) => vec![],
    }
}

fn sig_matches(pattern: &str, sig: &str) -> bool {
    if let Some(p) = pattern.strip_suffix('*') {
        sig.starts_with(p)
    } else {
        pattern == sig
    }
}

// ---------------------------------------------------------------------------
// Run: evidence + exit protocol
// ---------------------------------------------------------------------------

pub struct Run {
    pub cli: Cli,
    pub level: String,
    pub t0: Instant,
    pub reports: Vec<Report>,
    pub sweeps: Vec<Sweep>,
    pub assumptions: Vec<String>,
    pub extra: BTreeMap<String, Value>,
    pub extra_violations: Vec<FoundViolation>,
    /// traces validated against the implementation in addition to explorer transitions
    pub extra_traces: usize,
}

impl Run {
    pub fn new(cli: &Cli, level: &str) -> Run {
        install_panic_hook();
        Run {
            cli: cli.clone(),
            level: level.to_string(),
            t0: Instant::now(),
            reports: vec![],
            sweeps: vec![],
            assumptions: vec![],
            extra: BTreeMap::new(),
            extra_violations: vec![],
            extra_traces: 0,
        }
    }
    pub fn add(&mut self, r: Report) {
        println!(
            "  [{}] states={} transitions={} depth={}/{} distinct_obs={} interesting={} exhaustive={} violations={} wall={:.1}s{}",
            r.subject,
            r.states,
            r.transitions,
            r.depth_completed,
            r.max_depth_bound,
            r.distinct_observations,
            r.distinct_interesting,
            r.exhaustive,
            r.violations.len(),
            r.wall_s,
            r.cap_hit.as_ref().map(|c| format!(" CAP: {c}")).unwrap_or_default()
        );
        self.reports.push(r);
    }
    pub fn add_sweep(&mut self, s: Sweep) {
        println!(
            "  [{}] evaluations={} distinct_nontrivial={} outcome_classes={} violations={}",
            s.name,
            s.evaluations,
            s.nontrivial.len(),
            s.outcomes.len(),
            s.violations.len()
        );
        self.sweeps.push(s);
    }
    pub fn assume(&mut self, a: &str) {
        self.assumptions.push(a.to_string());
    }
    pub fn note(&mut self, k: &str, v: Value) {
        self.extra.insert(k.to_string(), v);
    }
    pub fn violation(&mut self, subject: &str, v: Violation, history: Value) {
        self.extra_violations.push(FoundViolation {
            subject: subject.to_string(),
            sig: v.sig,
            msg: v.msg,
            history,
            confirmed_by_second_replay: false,
        });
    }

    pub fn finish(self) -> ! {
        let id = self.cli.property.clone();
        let root = verif_root();
        let mut all: Vec<FoundViolation> = vec![];
        for r in &self.reports {
            all.extend(r.violations.iter().cloned());
        }
        for s in &self.sweeps {
            all.extend(s.violations.iter().cloned());
        }
        all.extend(self.extra_violations.iter().cloned());

        let known = load_known_findings();
        let mut new_violations = vec![];
        let mut known_hits = vec![];
        for v in &all {
            if let Some(k) = known
                .iter()
                .find(|k| k.property == id && k.status == "known" && sig_matches(&k.signature, &v.sig))
            {
                known_hits.push((k.clone(), v.clone()));
            } else {
                new_violations.push(v.clone());
            }
        }

        // vacuity guards (they yield to violations: a run that found one is not vacuous)
        for r in self.reports.iter().filter(|_| all.is_empty()) {
            if r.transitions == 0 {
                machinery_failure(&format!("{}: no transitions explored", r.subject));
            }
            if r.distinct_observations < 2 && r.violations.is_empty() {
                machinery_failure(&format!(
                    "{}: vacuous exploration (a single distinct observation over {} transitions)",
                    r.subject, r.transitions
                ));
            }
        }

        let states: usize = self.reports.iter().map(|r| r.states).sum();
        let transitions: usize = self.reports.iter().map(|r| r.transitions).sum();
        let replayed: usize = self.reports.iter().map(|r| r.replayed_prefixes).sum();
        let sweep_evals: u64 = self.sweeps.iter().map(|s| s.evaluations).sum();
        let sweep_nontrivial: usize = self.sweeps.iter().map(|s| s.nontrivial.len()).sum();
        let interesting: usize = self.reports.iter().map(|r| r.distinct_interesting).sum();
        let exhaustive = self.reports.iter().all(|r| r.exhaustive) && self.sweeps.iter().all(|s| s.exhaustive);
        let mut samples: Vec<Value> = vec![];
        for r in &self.reports {
            for s in r.samples.iter().take(3) {
                samples.push(json!({"subject": r.subject, "history": s}));
            }
        }
        for s in &self.sweeps {
            for x in s.samples.iter().take(6) {
                samples.push(json!({"sweep": s.name, "case": x}));
            }
        }
        if samples.len() > 40 {
            samples.truncate(40);
        }
        let mut rules: Vec<String> = self.sweeps.iter().map(|s| format!("{}: {}", s.name, s.rule)).collect();
        if !self.reports.is_empty() {
            rules.push("explorations: breadth-first search over operation histories executed on the real implementation; a state is distinct by its canonical key (reference model + digest of the real object's observable state); a transition is non-trivial when the subject's `interesting` rule holds (fault injected / collision / state change), counted distinct by (observation, successor state)".to_string());
        }
        let mut coverage = serde_json::Map::new();
        coverage.insert("evaluations".into(), json!(transitions as u64 + sweep_evals + self.extra_traces as u64));
        coverage.insert("distinct_nontrivial".into(), json!(interesting + sweep_nontrivial));
        coverage.insert("rule".into(), json!(rules.join(" || ")));
        coverage.insert("samples".into(), json!(samples));
        coverage.insert("exhaustive".into(), json!(exhaustive));
        if !self.reports.is_empty() {
            coverage.insert("states".into(), json!(states));
            coverage.insert("transitions".into(), json!(transitions));
            // every transition is an execution of the real implementation; replayed
            // prefixes were additionally re-executed and digest-compared
            coverage.insert("traces_validated_against_impl".into(), json!(transitions + self.extra_traces));
            coverage.insert("prefixes_replayed_and_digest_checked".into(), json!(replayed));
            coverage.insert(
                "explorations".into(),
                serde_json::to_value(
                    self.reports
                        .iter()
                        .map(|r| {
                            json!({
                                "subject": r.subject, "states": r.states, "transitions": r.transitions,
                                "depth_bound": r.max_depth_bound, "depth_completed": r.depth_completed,
                                "max_deviations": r.max_deviations, "distinct_observations": r.distinct_observations,
                                "interesting_transitions": r.interesting_transitions,
                                "terminal_states": r.terminal_states, "label_hits": r.label_hits,
                                "frontier_sizes": r.frontier_sizes, "exhaustive": r.exhaustive, "cap_hit": r.cap_hit,
                                "wall_s": r.wall_s,
                            })
                        })
                        .collect::<Vec<_>>(),
                )
                .unwrap(),
            );
        }
        if !self.sweeps.is_empty() {
            coverage.insert(
                "sweeps".into(),
                json!(self
                    .sweeps
                    .iter()
                    .map(|s| json!({"name": s.name, "evaluations": s.evaluations, "distinct_nontrivial": s.nontrivial.len(), "outcomes": s.outcomes, "exhaustive": s.exhaustive}))
                    .collect::<Vec<_>>()),
            );
        }
        for (k, v) in &self.extra {
            coverage.insert(k.clone(), v.clone());
        }
        coverage.insert("engine".into(), json!(ENGINE_VERSION));
        coverage.insert(
            "known_findings_reproduced".into(),
            json!(known_hits.iter().map(|(k, _)| k.signature.clone()).collect::<BTreeSet<_>>()),
        );

        // replay files
        let mut lines = vec![];
        let rdir = root.join("replays").join(&id);
        for v in &new_violations {
            let _ = std::fs::create_dir_all(&rdir);
            let name = format!("{}.json", hex::encode(&h16(&[v.sig.as_bytes(), v.subject.as_bytes()])[..6]));
            let path = rdir.join(name);
            let body = json!({
                "property": id, "subject": v.subject, "signature": v.sig, "message": v.msg,
                "history": v.history, "engine": ENGINE_VERSION, "tier": self.cli.tier.as_str(),
            });
            if std::fs::write(&path, serde_json::to_string_pretty(&body).unwrap()).is_err() {
                machinery_failure("cannot write replay file");
            }
            lines.push(format!("VIOLATION property={} replay={}", id, path.display()));
            println!("  violation [{}] {}: {}", v.subject, v.sig, v.msg);
        }
        let mut printed = BTreeSet::new();
        for (k, v) in &known_hits {
            if printed.insert(k.signature.clone()) {
                println!("KNOWN-FINDING: property={} {} [{}] witness: {}", id, k.what_fails, k.signature, v.msg);
            }
        }

        let evidence = json!({
            "property_id": id,
            "tier": self.cli.tier.as_str(),
            "seed": self.cli.seed,
            "level": self.level,
            "coverage": Value::Object(coverage),
            "assumptions": self.assumptions,
            "wall_s": self.t0.elapsed().as_secs_f64(),
            "violations": new_violations.len(),
        });
        let edir = root.join("evidence");
        let _ = std::fs::create_dir_all(&edir);
        let epath = edir.join(format!("{id}.json"));
        if std::fs::write(&epath, serde_json::to_string_pretty(&evidence).unwrap() + "\n").is_err() {
            machinery_failure("cannot write evidence file");
        }
        for l in &lines {
            println!("{l}");
        }
        if lines.is_empty() {
            println!(
                "OK property={} tier={} states={} transitions={} evaluations={} exhaustive={} wall={:.1}s",
                id,
                self.cli.tier.as_str(),
                states,
                transitions,
                transitions as u64 + sweep_evals,
                exhaustive,
                self.t0.elapsed().as_secs_f64()
            );
            std::process::exit(0)
        } else {
            std::process::exit(1)
        }
    }
}

// ---------------------------------------------------------------------------
// Replay files
// ---------------------------------------------------------------------------

#[derive(Deserialize)]
pub struct ReplayFile {
    pub property: String,
    pub subject: String,
    pub signature: String,
    pub message: String,
    pub history: Value,
}

pub fn load_replay(path: &std::path::Path) -> ReplayFile {
    let s = std::fs::read_to_string(path).unwrap_or_else(|e| machinery_failure(&format!("cannot read replay {path:?}: {e}")));
    serde_json::from_str(&s).unwrap_or_else(|e| machinery_failure(&format!("bad replay file: {e}")))
}

/// Replay a recorded history on a subject; prints the result and exits
/// (0 = no violation on this tree, 1 = violation reproduced).
pub fn replay_and_exit<S: Subject>(s: &S, rf: &ReplayFile) -> ! {
    let ops: Vec<S::Op> = serde_json::from_value(rf.history.clone()).unwrap_or_else(|e| machinery_failure(&format!("history does not decode for {}: {e}", s.name())));
    match replay_history(s, &ops) {
        Ok(obs) => {
            println!("replay: {} ops executed, no violation; observations:", ops.len());
            for (o, op) in obs.iter().zip(ops.iter()) {
                println!("  {op:?} -> {o}");
            }
            std::process::exit(0)
        }
        Err((i, v)) => {
            println!("replay: violation at step {i} ({:?}): {} / {}", ops.get(i), v.sig, v.msg);
            println!("VIOLATION property={} replay=(replayed)", rf.property);
            std::process::exit(1)
        }
    }
}
