//! vh-poa: C15 (consensus acceptance rules, exhaustive mutation enumeration)
//! and C24 (PoA block production task, explicit-state exploration of the real
//! `fuel_core_poa::new_service` under a scripted environment).
mod c15;
mod c24;

fn main() {
    let cli = mcx::Cli::parse();
    match cli.property.as_str() {
        "C15" => c15::run(&cli),
        "C24" => c24::run(&cli),
        other => mcx::machinery_failure(&format!("vh-poa does not serve {other}")),
    }
}
