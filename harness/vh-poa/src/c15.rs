//! C15 — only blocks that satisfy the consensus rules are accepted.
//!
//! Exhaustive mutation enumeration ("exploration" level) over valid 3-block
//! PoA chains. Every candidate (header, transactions, seal) is pushed through
//! the three real seams of the network import path
//!   S1 `Verifier::verify_consensus`        (sync: `check_sealed_header`)
//!   S2 `Block::try_from_executed`          (sync: `get_blocks`)
//!   S3 `Verifier::verify_block_fields`     (importer: `verify_and_execute_block_inner`)
//! and the verdicts are compared with an independent evaluation of the
//! acceptance conditions listed in the property statement.
use fuel_core_chain_config::{ConsensusConfig, PoAV2};
use fuel_core_consensus_module::block_verifier::{config::Config as VerifierConfig, Verifier};
use fuel_core_poa::ports::Database as PoaDatabase;
use fuel_core_storage::{
    column::Column,
    not_found,
    structured_storage::test::InMemoryStorage,
    tables::FuelBlocks,
    transactional::{AtomicView, ReadTransaction},
    Result as StorageResult, StorageAsMut, StorageAsRef,
};
use fuel_core_types::{
    blockchain::{
        block::{Block, CompressedBlock},
        consensus::{poa::PoAConsensus, Consensus, Genesis},
        header::{
            v1::GeneratedApplicationFieldsV1, ApplicationHeader, BlockHeader, ConsensusHeader, GeneratedConsensusFields,
            PartialBlockHeader,
        },
        primitives::{DaBlockHeight, Empty},
        SealedBlockHeader,
    },
    fuel_crypto::{Message, SecretKey, Signature},
    fuel_merkle::binary::root_calculator::MerkleRootCalculator,
    fuel_tx::{
        field::{Outputs, Witnesses},
        input, output, AssetId, Input, Output, Transaction, TransactionBuilder, TxPointer, Witness,
    },
    fuel_types::{
        canonical::{Deserialize as _, Serialize as _},
        Address, BlockHeight, Bytes32, ChainId, MessageId,
    },
    tai64::Tai64,
};
use mcx::*;
use serde::{Deserialize, Serialize};
use serde_json::json;
use sha2::{Digest, Sha256};
use std::collections::BTreeMap;

// ---------------------------------------------------------------------------
// Independent reference functions (spec formulas, not the code under test)
// ---------------------------------------------------------------------------

fn sha(parts: &[&[u8]]) -> [u8; 32] {
    let mut h = Sha256::new();
    for p in parts {
        h.update(p);
    }
    h.finalize().into()
}

/// RFC-6962 style binary Merkle root (leaf prefix 0x00, node prefix 0x01),
/// the construction fuel-merkle's binary tree uses.
fn ref_merkle(leaves: &[Vec<u8>]) -> [u8; 32] {
    fn mth(l: &[Vec<u8>]) -> [u8; 32] {
        match l.len() {
            0 => sha(&[]),
            1 => sha(&[&[0u8], &l[0]]),
            n => {
                let k = n.next_power_of_two() / 2;
                let (a, b) = l.split_at(k);
                sha(&[&[1u8], &mth(a), &mth(b)])
            }
        }
    }
    mth(leaves)
}

#[derive(Clone, PartialEq, Debug)]
enum Seal {
    PoA([u8; 64]),
    Genesis,
}

/// Wire-level view of a block: every field independently settable.
#[derive(Clone, PartialEq, Debug)]
struct Raw {
    da: u64,
    cpv: u32,
    stf: u32,
    tx_count: u16,
    msg_count: u32,
    tx_root: [u8; 32],
    outbox: [u8; 32],
    inbox: [u8; 32],
    prev_root: [u8; 32],
    height: u32,
    time: u64,
    app_hash: [u8; 32],
    txs: Vec<Transaction>,
    seal: Seal,
}

impl Raw {
    fn of(block: &Block, seal: &Consensus) -> Raw {
        let h = block.header();
        Raw {
            da: h.da_height().0,
            cpv: h.consensus_parameters_version(),
            stf: h.state_transition_bytecode_version(),
            tx_count: h.transactions_count(),
            msg_count: h.message_receipt_count(),
            tx_root: *h.transactions_root(),
            outbox: *h.message_outbox_root(),
            inbox: *h.event_inbox_root(),
            prev_root: **h.prev_root(),
            height: **h.height(),
            time: h.time().0,
            app_hash: **h.application_hash(),
            txs: block.transactions().to_vec(),
            seal: match seal {
                Consensus::PoA(p) => Seal::PoA(*p.signature),
                _ => Seal::Genesis,
            },
        }
    }
    fn ref_app_hash(&self) -> [u8; 32] {
        sha(&[
            &self.da.to_be_bytes(),
            &self.cpv.to_be_bytes(),
            &self.stf.to_be_bytes(),
            &self.tx_count.to_be_bytes(),
            &self.msg_count.to_be_bytes(),
            &self.tx_root,
            &self.outbox,
            &self.inbox,
        ])
    }
    fn ref_id(&self) -> [u8; 32] {
        sha(&[&self.prev_root, &self.height.to_be_bytes(), &self.time.to_be_bytes(), &self.app_hash])
    }
    fn ref_tx_root(&self) -> [u8; 32] {
        let mut c = MerkleRootCalculator::new();
        for t in &self.txs {
            c.push(&t.to_bytes());
        }
        c.root()
    }
    fn same_content(&self, o: &Raw) -> bool {
        let mut a = self.clone();
        a.seal = o.seal.clone();
        a == *o
    }
    /// The header exactly as it would come off the wire (no cached id).
    fn header(&self) -> BlockHeader {
        let mut header = BlockHeader::default();
        header.set_consensus_header(ConsensusHeader {
            prev_root: self.prev_root.into(),
            height: self.height.into(),
            time: Tai64(self.time),
            generated: GeneratedConsensusFields { application_hash: self.app_hash.into() },
        });
        match &mut header {
            BlockHeader::V1(v1) => v1.set_application_header(ApplicationHeader {
                da_height: DaBlockHeight(self.da),
                consensus_parameters_version: self.cpv,
                state_transition_bytecode_version: self.stf,
                generated: GeneratedApplicationFieldsV1 {
                    transactions_count: self.tx_count,
                    message_receipt_count: self.msg_count,
                    transactions_root: self.tx_root.into(),
                    message_outbox_root: self.outbox.into(),
                    event_inbox_root: self.inbox.into(),
                },
            }),
        }
        // serde round trip drops the cached metadata (it is `serde(skip)`), which is
        // how a header received from a peer looks like.
        let v = serde_json::to_value(&header).expect("header serialises");
        serde_json::from_value(v).expect("header deserialises")
    }
    fn consensus(&self) -> Consensus {
        match &self.seal {
            Seal::PoA(s) => Consensus::PoA(PoAConsensus::new(Signature::from_bytes(*s))),
            Seal::Genesis => Consensus::Genesis(Genesis::default()),
        }
    }
}

// ---------------------------------------------------------------------------
// Keys and schedules
// ---------------------------------------------------------------------------

fn key(n: u8) -> SecretKey {
    let mut b = [0x11u8; 32];
    b[31] = n;
    SecretKey::try_from(Bytes32::from(b)).expect("valid secret key")
}

fn addr(k: &SecretKey) -> Address {
    Input::owner(&k.public_key())
}

#[derive(Clone, Copy, Debug, Serialize, Deserialize, PartialEq)]
enum Sched {
    /// `ConsensusConfig::PoA { signing_key }`
    Single,
    /// `ConsensusConfig::PoAV2` with key 1 from genesis and key 2 from `at`.
    SwitchAt(u32),
    /// `ConsensusConfig::PoAV2` without overrides.
    V2NoOverride,
}

impl Sched {
    fn config(&self) -> ConsensusConfig {
        match self {
            Sched::Single => ConsensusConfig::PoA { signing_key: addr(&key(1)) },
            Sched::SwitchAt(at) => {
                let mut m = BTreeMap::new();
                m.insert(BlockHeight::from(*at), addr(&key(2)));
                ConsensusConfig::PoAV2(PoAV2::new(addr(&key(1)), m))
            }
            Sched::V2NoOverride => ConsensusConfig::PoAV2(PoAV2::new(addr(&key(1)), BTreeMap::new())),
        }
    }
    /// Reference schedule: which key signs height `h`.
    fn key_no(&self, h: u32) -> u8 {
        match self {
            Sched::SwitchAt(at) if h >= *at => 2,
            _ => 1,
        }
    }
}

fn sign(k: &SecretKey, id: &[u8; 32]) -> [u8; 64] {
    *Signature::sign(k, &Message::from_bytes(*id))
}

// ---------------------------------------------------------------------------
// Seed chains
// ---------------------------------------------------------------------------

fn tx_universe() -> Vec<Transaction> {
    let mut v = vec![];
    v.push(TransactionBuilder::script(vec![0x24, 0, 0, 0], vec![]).script_gas_limit(1000).max_fee_limit(0).finalize_without_signature_as_transaction());
    v.push(TransactionBuilder::script(vec![0x24, 0, 0, 0], vec![1, 2, 3, 4, 5, 6, 7, 8]).script_gas_limit(2000).max_fee_limit(1).finalize_without_signature_as_transaction());
    v.push(
        TransactionBuilder::script(vec![0x24, 0x04, 0, 0, 0x24, 0, 0, 0], vec![9; 16])
            .script_gas_limit(3000)
            .max_fee_limit(2)
            .add_output(Output::coin(Address::from([7u8; 32]), 77, AssetId::from([3u8; 32])))
            .add_witness(Witness::from(vec![0xAA; 24]))
            .finalize_without_signature_as_transaction(),
    );
    v.push(TransactionBuilder::script(vec![], vec![0xFE; 3]).script_gas_limit(4000).max_fee_limit(3).tip(5).finalize_without_signature_as_transaction());
    v
}

fn mint(height: u32, idx: u16) -> Transaction {
    Transaction::mint(
        TxPointer::new(height.into(), idx),
        input::contract::Contract {
            utxo_id: Default::default(),
            balance_root: Bytes32::from([1u8; 32]),
            state_root: Bytes32::from([2u8; 32]),
            tx_pointer: TxPointer::new(0u32.into(), 0),
            contract_id: Default::default(),
        },
        output::contract::Contract { input_index: 0, balance_root: Bytes32::from([4u8; 32]), state_root: Bytes32::from([5u8; 32]) },
        1000 + height as u64,
        AssetId::BASE,
        height as u64,
    )
    .into()
}

#[derive(Clone, Debug)]
struct Seed {
    ntx: [usize; 3],
    da: [u64; 4],
    dt: [u64; 3],
}

fn seeds(thorough: bool) -> Vec<Seed> {
    let ntxs: Vec<[usize; 3]> = if thorough {
        vec![[0, 1, 2], [3, 0, 1], [1, 1, 1], [2, 3, 0], [3, 3, 3], [0, 0, 0], [4, 2, 1]]
    } else {
        vec![[0, 1, 2], [3, 0, 1], [2, 3, 0]]
    };
    let das: Vec<[u64; 4]> = if thorough { vec![[5, 5, 5, 6], [0, 0, 1, 1], [7, 9, 9, 9]] } else { vec![[5, 5, 5, 6], [0, 1, 1, 2]] };
    let dts: Vec<[u64; 3]> = if thorough { vec![[10, 0, 2], [1, 1, 1], [0, 5, 0]] } else { vec![[10, 0, 2]] };
    let mut v = vec![];
    for n in &ntxs {
        for d in &das {
            for t in &dts {
                v.push(Seed { ntx: *n, da: *d, dt: *t });
            }
        }
    }
    v
}

struct Chain {
    blocks: Vec<Block>,
    seals: Vec<Consensus>,
    /// real `FuelBlocks` Merkle root after inserting blocks 0..=i
    roots: Vec<Bytes32>,
}

fn block_txs(seed: &Seed, k: usize, universe: &[Transaction]) -> Vec<Transaction> {
    let n = seed.ntx[k - 1];
    let mut txs = vec![];
    for i in 0..n {
        if i + 1 == n {
            txs.push(mint(k as u32, i as u16));
        } else {
            txs.push(universe[(i + k) % universe.len()].clone());
        }
    }
    txs
}

fn make_block(height: u32, prev_root: Bytes32, da: u64, time: u64, txs: Vec<Transaction>, inbox_tag: u8) -> Block {
    let header = PartialBlockHeader {
        application: ApplicationHeader {
            da_height: DaBlockHeight(da),
            consensus_parameters_version: height % 2,
            state_transition_bytecode_version: 34,
            generated: Empty,
        },
        consensus: ConsensusHeader { prev_root, height: height.into(), time: Tai64(time), generated: Empty },
    };
    let msg_ids: Vec<MessageId> = (0..height.saturating_sub(1)).map(|i| MessageId::from([i as u8 + 1; 32])).collect();
    Block::new(header, txs, &msg_ids, Bytes32::from([inbox_tag; 32])).expect("block builds")
}

fn real_roots(blocks: &[Block]) -> Vec<Bytes32> {
    let storage = InMemoryStorage::<Column>::default();
    let mut tx = storage.read_transaction();
    let mut roots = vec![];
    for b in blocks {
        tx.storage_as_mut::<FuelBlocks>()
            .insert(b.header().height(), &b.compress(&ChainId::default()))
            .unwrap_or_else(|e| machinery_failure(&format!("FuelBlocks insert failed: {e}")));
        let r = tx.storage_as_ref::<FuelBlocks>().root(b.header().height()).unwrap_or_else(|e| machinery_failure(&format!("FuelBlocks root failed: {e}")));
        roots.push(Bytes32::from(r));
    }
    roots
}

fn build_chain(seed: &Seed, sched: Sched, universe: &[Transaction]) -> Chain {
    let mut blocks = vec![];
    let mut seals = vec![];
    let genesis = {
        let header = PartialBlockHeader {
            application: ApplicationHeader { da_height: DaBlockHeight(seed.da[0]), consensus_parameters_version: 0, state_transition_bytecode_version: 34, generated: Empty },
            consensus: ConsensusHeader { prev_root: Bytes32::zeroed(), height: 0u32.into(), time: Tai64::UNIX_EPOCH, generated: Empty },
        };
        Block::new(header, vec![], &[], Bytes32::zeroed()).expect("genesis builds")
    };
    blocks.push(genesis);
    seals.push(Consensus::Genesis(Genesis::default()));
    let mut time = Tai64::UNIX_EPOCH.0;
    for k in 1..=3usize {
        let roots = real_roots(&blocks);
        time += seed.dt[k - 1];
        let b = make_block(k as u32, *roots.last().unwrap(), seed.da[k], time, block_txs(seed, k, universe), k as u8);
        let id: [u8; 32] = *Bytes32::from(b.id());
        let sig = sign(&key(sched.key_no(k as u32)), &id);
        seals.push(Consensus::PoA(PoAConsensus::new(Signature::from_bytes(sig))));
        blocks.push(b);
    }
    let roots = real_roots(&blocks);
    // sanity: the independent Merkle reference agrees with the real table on the valid chain
    for i in 0..blocks.len() {
        let ids: Vec<Vec<u8>> = blocks[..=i].iter().map(|b| Bytes32::from(b.id()).to_vec()).collect();
        if ref_merkle(&ids) != *roots[i] {
            machinery_failure("reference Merkle root disagrees with FuelBlocks::root on an unmutated chain");
        }
    }
    Chain { blocks, seals, roots }
}

// ---------------------------------------------------------------------------
// Verifier database port
// ---------------------------------------------------------------------------

#[derive(Clone, Default)]
struct Db {
    headers: BTreeMap<u32, BlockHeader>,
    roots: BTreeMap<u32, Bytes32>,
}

impl PoaDatabase for Db {
    fn block_header(&self, height: &BlockHeight) -> StorageResult<BlockHeader> {
        self.headers.get(&**height).cloned().ok_or(not_found!("FuelBlocks"))
    }
    fn block_header_merkle_root(&self, height: &BlockHeight) -> StorageResult<Bytes32> {
        self.roots.get(&**height).cloned().ok_or(not_found!("FuelBlockMerkleMetadata"))
    }
}

struct Views(Db);

impl AtomicView for Views {
    type LatestView = Db;
    fn latest_view(&self) -> StorageResult<Db> {
        Ok(self.0.clone())
    }
}

// ---------------------------------------------------------------------------
// Mutations
// ---------------------------------------------------------------------------

#[derive(Clone, Copy, Debug, Serialize, Deserialize, PartialEq)]
enum NumField {
    Da,
    Cpv,
    Stf,
    TxCount,
    MsgCount,
    Height,
    Time,
}

#[derive(Clone, Copy, Debug, Serialize, Deserialize, PartialEq)]
enum NumHow {
    Plus1,
    Minus1,
    Zero,
    Max,
    Parent,
    ParentMinus1,
    ParentPlus1,
}

#[derive(Clone, Copy, Debug, Serialize, Deserialize, PartialEq)]
enum BytesField {
    TxRoot,
    Outbox,
    Inbox,
    AppHash,
    PrevRoot,
}

#[derive(Clone, Copy, Debug, Serialize, Deserialize, PartialEq)]
enum BytesHow {
    Zero,
    Parent,
    Flip { pos: u8, mask: u8 },
    /// prev_root only: root of the chain one block too short (the parent's own prev_root)
    RootOfGrandParent,
    /// prev_root only: the parent's block id instead of the Merkle root
    ParentId,
    /// prev_root only: root of the genesis-only chain
    RootOfGenesis,
}

#[derive(Clone, Copy, Debug, Serialize, Deserialize, PartialEq)]
enum SigHow {
    Flip { bit: u16 },
    Zero,
    /// signed by a key that appears nowhere in the schedule
    UnknownKey,
    /// signed by the schedule's other key (valid for other heights)
    OtherScheduleKey,
    /// the parent's signature
    Parent,
    /// `Consensus::Genesis` seal instead of a PoA signature
    GenesisSeal,
}

#[derive(Clone, Debug, Serialize, Deserialize, PartialEq)]
enum Mutation {
    Identity,
    Num { field: NumField, how: NumHow },
    Bytes { field: BytesField, how: BytesHow },
    /// height-1 with the matching prev_root: the same content proposed one height lower
    ReplayLower,
    TxInsert { pos: u8, what: u8 },
    TxRemove { pos: u8 },
    TxSwap { a: u8, b: u8 },
    TxByte { idx: u8, offset: u16, mask: u8 },
    TxReplace { idx: u8, what: u8 },
    Sig(SigHow),
    /// evaluate under a key schedule whose switch height is moved by `by`
    ScheduleShift { by: i8 },
    /// the node's parent block differs from the one the block was built on
    ForkedParent,
}

#[derive(Clone, Copy, Debug, Serialize, Deserialize, PartialEq)]
enum Level {
    /// only the named field changes
    Raw,
    /// dependent hashes are recomputed (tx root/count for content changes, application hash)
    Rehash,
    /// additionally re-signed by the key scheduled for the (possibly new) height
    Resign,
}

#[derive(Clone, Debug, Serialize, Deserialize)]
struct Case {
    seed: usize,
    sched: Sched,
    height: u32,
    mutation: Mutation,
    level: Level,
}

fn set_num(raw: &mut Raw, f: NumField, v: u64) {
    match f {
        NumField::Da => raw.da = v,
        NumField::Cpv => raw.cpv = v as u32,
        NumField::Stf => raw.stf = v as u32,
        NumField::TxCount => raw.tx_count = v as u16,
        NumField::MsgCount => raw.msg_count = v as u32,
        NumField::Height => raw.height = v as u32,
        NumField::Time => raw.time = v,
    }
}

fn get_num(raw: &Raw, f: NumField) -> (u64, u64) {
    match f {
        NumField::Da => (raw.da, u64::MAX),
        NumField::Cpv => (raw.cpv as u64, u32::MAX as u64),
        NumField::Stf => (raw.stf as u64, u32::MAX as u64),
        NumField::TxCount => (raw.tx_count as u64, u16::MAX as u64),
        NumField::MsgCount => (raw.msg_count as u64, u32::MAX as u64),
        NumField::Height => (raw.height as u64, u32::MAX as u64),
        NumField::Time => (raw.time, u64::MAX),
    }
}

fn bytes_field<'a>(raw: &'a mut Raw, f: BytesField) -> &'a mut [u8; 32] {
    match f {
        BytesField::TxRoot => &mut raw.tx_root,
        BytesField::Outbox => &mut raw.outbox,
        BytesField::Inbox => &mut raw.inbox,
        BytesField::AppHash => &mut raw.app_hash,
        BytesField::PrevRoot => &mut raw.prev_root,
    }
}

struct Ctx<'a> {
    chain: &'a Chain,
    universe: &'a [Transaction],
    extra_tx: &'a Transaction,
}

thread_local! {
    /// set when the last `apply` gave up because mutated bytes are not a transaction
    static UNDECODABLE: std::cell::Cell<bool> = const { std::cell::Cell::new(false) };
}

/// Apply the mutation; `None` = not applicable here (e.g. no such tx).
fn apply(case: &Case, ctx: &Ctx) -> Option<Raw> {
    let h = case.height as usize;
    let orig = Raw::of(&ctx.chain.blocks[h], &ctx.chain.seals[h]);
    let parent = Raw::of(&ctx.chain.blocks[h - 1], &ctx.chain.seals[h - 1]);
    let mut raw = orig.clone();
    let mut content_changed = false;
    match &case.mutation {
        Mutation::Identity | Mutation::ScheduleShift { .. } | Mutation::ForkedParent => {}
        Mutation::Num { field, how } => {
            let (cur, max) = get_num(&raw, *field);
            let (par, _) = get_num(&parent, *field);
            let v = match how {
                NumHow::Plus1 => {
                    if cur == max {
                        0
                    } else {
                        cur + 1
                    }
                }
                NumHow::Minus1 => {
                    if cur == 0 {
                        max
                    } else {
                        cur - 1
                    }
                }
                NumHow::Zero => 0,
                NumHow::Max => max,
                NumHow::Parent => par,
                NumHow::ParentMinus1 => par.checked_sub(1)?,
                NumHow::ParentPlus1 => par.checked_add(1).filter(|v| *v <= max)?,
            };
            set_num(&mut raw, *field, v);
        }
        Mutation::Bytes { field, how } => {
            let v: [u8; 32] = match how {
                BytesHow::Zero => [0; 32],
                BytesHow::Parent => {
                    let mut p = parent.clone();
                    *bytes_field(&mut p, *field)
                }
                BytesHow::Flip { pos, mask } => {
                    let mut v = *bytes_field(&mut raw, *field);
                    v[*pos as usize] ^= *mask;
                    v
                }
                BytesHow::RootOfGrandParent => {
                    if *field != BytesField::PrevRoot || h < 2 {
                        return None;
                    }
                    *ctx.chain.roots[h - 2]
                }
                BytesHow::ParentId => {
                    if *field != BytesField::PrevRoot {
                        return None;
                    }
                    *Bytes32::from(ctx.chain.blocks[h - 1].id())
                }
                BytesHow::RootOfGenesis => {
                    if *field != BytesField::PrevRoot {
                        return None;
                    }
                    *ctx.chain.roots[0]
                }
            };
            *bytes_field(&mut raw, *field) = v;
        }
        Mutation::ReplayLower => {
            if h < 2 {
                return None;
            }
            raw.height = (h - 1) as u32;
            raw.prev_root = *ctx.chain.roots[h - 2];
        }
        Mutation::TxInsert { pos, what } => {
            let pos = *pos as usize;
            if pos > raw.txs.len() {
                return None;
            }
            let tx = match what {
                0 => ctx.extra_tx.clone(),
                // duplicate of the tx at (or before) the position
                1 => raw.txs.get(pos.min(raw.txs.len().checked_sub(1)?)).cloned()?,
                n => ctx.universe[(*n as usize) % ctx.universe.len()].clone(),
            };
            raw.txs.insert(pos, tx);
            content_changed = true;
        }
        Mutation::TxRemove { pos } => {
            if (*pos as usize) >= raw.txs.len() {
                return None;
            }
            raw.txs.remove(*pos as usize);
            content_changed = true;
        }
        Mutation::TxSwap { a, b } => {
            let (a, b) = (*a as usize, *b as usize);
            if a >= raw.txs.len() || b >= raw.txs.len() || a == b {
                return None;
            }
            raw.txs.swap(a, b);
            content_changed = true;
        }
        Mutation::TxByte { idx, offset, mask } => {
            let i = *idx as usize;
            let mut bytes = raw.txs.get(i)?.to_bytes();
            let o = *offset as usize;
            if o >= bytes.len() {
                return None;
            }
            bytes[o] ^= *mask;
            // A byte string that is not a transaction cannot be block content at all.
            let tx = match Transaction::from_bytes(&bytes) {
                Ok(tx) => tx,
                Err(_) => {
                    UNDECODABLE.with(|c| c.set(true));
                    return None;
                }
            };
            raw.txs[i] = tx;
            content_changed = true;
        }
        Mutation::TxReplace { idx, what } => {
            let i = *idx as usize;
            if i >= raw.txs.len() {
                return None;
            }
            raw.txs[i] = if *what == 0 { ctx.extra_tx.clone() } else { ctx.universe[(*what as usize) % ctx.universe.len()].clone() };
            content_changed = true;
        }
        Mutation::Sig(how) => {
            raw.seal = match how {
                SigHow::Flip { bit } => match &raw.seal {
                    Seal::PoA(s) => {
                        let mut s = *s;
                        s[(*bit / 8) as usize] ^= 1 << (*bit % 8);
                        Seal::PoA(s)
                    }
                    _ => return None,
                },
                SigHow::Zero => Seal::PoA([0; 64]),
                SigHow::UnknownKey => Seal::PoA(sign(&key(3), &raw.ref_id())),
                SigHow::OtherScheduleKey => {
                    let other = 3 - case.sched.key_no(raw.height);
                    Seal::PoA(sign(&key(other), &raw.ref_id()))
                }
                SigHow::Parent => match &parent.seal {
                    Seal::PoA(s) => Seal::PoA(*s),
                    Seal::Genesis => return None,
                },
                SigHow::GenesisSeal => Seal::Genesis,
            };
        }
    }
    if case.level != Level::Raw {
        if content_changed {
            raw.tx_root = raw.ref_tx_root();
            raw.tx_count = raw.txs.len() as u16;
        }
        if !matches!(case.mutation, Mutation::Bytes { field: BytesField::AppHash, .. }) {
            raw.app_hash = raw.ref_app_hash();
        }
    }
    if case.level == Level::Resign {
        raw.seal = Seal::PoA(sign(&key(case.sched.key_no(raw.height)), &raw.ref_id()));
    }
    Some(raw)
}

/// Levels that make sense for a mutation (others would repeat a case).
fn levels(m: &Mutation) -> &'static [Level] {
    match m {
        Mutation::Identity | Mutation::Sig(_) | Mutation::ScheduleShift { .. } | Mutation::ForkedParent => &[Level::Raw],
        Mutation::Bytes { field: BytesField::AppHash, .. } => &[Level::Raw, Level::Resign],
        _ => &[Level::Raw, Level::Rehash, Level::Resign],
    }
}

fn mutations(thorough: bool) -> Vec<Mutation> {
    let mut v = vec![Mutation::Identity];
    for field in [NumField::Da, NumField::Cpv, NumField::Stf, NumField::TxCount, NumField::MsgCount, NumField::Height, NumField::Time] {
        for how in [NumHow::Plus1, NumHow::Minus1, NumHow::Zero, NumHow::Max, NumHow::Parent, NumHow::ParentMinus1, NumHow::ParentPlus1] {
            v.push(Mutation::Num { field, how });
        }
    }
    let flips: Vec<(u8, u8)> = if thorough {
        (0..32u8).flat_map(|p| (0..8u8).map(move |b| (p, 1u8 << b))).collect()
    } else {
        vec![(0, 0x01), (0, 0x80), (15, 0x10), (31, 0x01), (31, 0x80)]
    };
    for field in [BytesField::TxRoot, BytesField::Outbox, BytesField::Inbox, BytesField::AppHash, BytesField::PrevRoot] {
        v.push(Mutation::Bytes { field, how: BytesHow::Zero });
        v.push(Mutation::Bytes { field, how: BytesHow::Parent });
        for (pos, mask) in &flips {
            v.push(Mutation::Bytes { field, how: BytesHow::Flip { pos: *pos, mask: *mask } });
        }
    }
    for how in [BytesHow::RootOfGrandParent, BytesHow::ParentId, BytesHow::RootOfGenesis] {
        v.push(Mutation::Bytes { field: BytesField::PrevRoot, how });
    }
    v.push(Mutation::ReplayLower);
    let max_txs = 5u8;
    for pos in 0..=max_txs {
        for what in 0..=3u8 {
            v.push(Mutation::TxInsert { pos, what });
        }
    }
    for pos in 0..max_txs {
        v.push(Mutation::TxRemove { pos });
        for what in 0..=2u8 {
            v.push(Mutation::TxReplace { idx: pos, what });
        }
        for b in (pos + 1)..max_txs {
            v.push(Mutation::TxSwap { a: pos, b });
        }
    }
    // byte flips inside every transaction
    let max_len: u16 = 420;
    let masks: &[u8] = if thorough { &[0x01, 0x80, 0xFF] } else { &[0x01] };
    for idx in 0..max_txs {
        if thorough {
            for offset in 0..max_len {
                for m in masks {
                    v.push(Mutation::TxByte { idx, offset, mask: *m });
                }
            }
        } else {
            // 8 offsets spread over the encoding (type tag, policies/lengths, body, tail)
            for offset in [0u16, 7, 8, 15, 23, 40, 71, 103, 135] {
                v.push(Mutation::TxByte { idx, offset, mask: 0x01 });
            }
        }
    }
    let bits: Vec<u16> = if thorough { (0..512).collect() } else { vec![0, 7, 63, 127, 128, 200, 255, 256, 257, 300, 383, 384, 448, 500, 510, 511] };
    for bit in bits {
        v.push(Mutation::Sig(SigHow::Flip { bit }));
    }
    for how in [SigHow::Zero, SigHow::UnknownKey, SigHow::OtherScheduleKey, SigHow::Parent, SigHow::GenesisSeal] {
        v.push(Mutation::Sig(how));
    }
    for by in [-1i8, 1] {
        v.push(Mutation::ScheduleShift { by });
    }
    v.push(Mutation::ForkedParent);
    v
}

// ---------------------------------------------------------------------------
// Evaluation
// ---------------------------------------------------------------------------

struct Verdict {
    class: String,
    nontrivial: bool,
    result: Result<(), Violation>,
    detail: serde_json::Value,
}

fn evaluate(case: &Case, ctx: &Ctx) -> Option<Verdict> {
    let h = case.height as usize;
    let orig = Raw::of(&ctx.chain.blocks[h], &ctx.chain.seals[h]);
    let raw = apply(case, ctx)?;

    // --- environment of the verifying node: chain 0..=h-1, configured schedule
    let sched = match (&case.mutation, case.sched) {
        (Mutation::ScheduleShift { by }, Sched::SwitchAt(at)) => Sched::SwitchAt((at as i64 + *by as i64) as u32),
        (Mutation::ScheduleShift { .. }, _) => return None,
        (_, s) => s,
    };
    let mut db = Db::default();
    let mut parent_chain: Vec<Block> = ctx.chain.blocks[..h].to_vec();
    if case.mutation == Mutation::ForkedParent {
        if h < 2 {
            return None; // the genesis block is fixed
        }
        let p = &ctx.chain.blocks[h - 1];
        let alt = make_block((h - 1) as u32, *p.header().prev_root(), p.header().da_height().0, p.header().time().0, p.transactions().to_vec(), 0xEE);
        parent_chain[h - 1] = alt;
    }
    for (i, b) in parent_chain.iter().enumerate() {
        db.headers.insert(i as u32, b.header().clone());
        let ids: Vec<Vec<u8>> = parent_chain[..=i].iter().map(|b| Bytes32::from(b.id()).to_vec()).collect();
        let root = if case.mutation == Mutation::ForkedParent { Bytes32::from(ref_merkle(&ids)) } else { ctx.chain.roots[i] };
        db.roots.insert(i as u32, root);
    }
    let genesis_da = ctx.chain.blocks[0].header().da_height();
    let verifier = Verifier::new(VerifierConfig::new(sched.config(), 0u32.into(), genesis_da), Views(db.clone()));

    // --- independent evaluation of the listed acceptance conditions
    let mut broken: Vec<&'static str> = vec![];
    if raw.height == 0 {
        broken.push("height-zero");
    } else {
        let ph = raw.height - 1;
        match db.headers.get(&ph) {
            None => broken.push("no-parent"),
            Some(p) => {
                let ids: Vec<Vec<u8>> = parent_chain[..=(ph as usize)].iter().map(|b| Bytes32::from(b.id()).to_vec()).collect();
                if raw.prev_root != ref_merkle(&ids) {
                    broken.push("prev-root");
                }
                if raw.da < p.da_height().0 {
                    broken.push("da-height");
                }
                if raw.time < p.time().0 {
                    broken.push("time");
                }
            }
        }
    }
    if raw.app_hash != raw.ref_app_hash() {
        broken.push("application-hash");
    }
    if raw.tx_root != raw.ref_tx_root() || raw.tx_count as usize != raw.txs.len() {
        broken.push("tx-root-count");
    }
    match &raw.seal {
        Seal::Genesis => broken.push("no-poa-signature"),
        Seal::PoA(s) => {
            let expected = addr(&key(sched.key_no(raw.height)));
            let ok = Signature::from_bytes(*s).recover(&Message::from_bytes(raw.ref_id())).map(|k| Input::owner(&k) == expected).unwrap_or(false);
            if !ok {
                broken.push("signature");
            }
        }
    }

    // --- the real seams
    let header = raw.header();
    let consensus = raw.consensus();
    let s1 = verifier.verify_consensus(&SealedBlockHeader { entity: header.clone(), consensus: consensus.clone() });
    let s2 = Block::try_from_executed(header.clone(), raw.txs.clone());
    let block = match &s2 {
        Some(b) => b.clone(),
        // build the same block without the S2 filter so that S3 is judged on its own
        None => CompressedBlock::test(header.clone(), vec![]).uncompress(raw.txs.clone()),
    };
    let s3 = verifier.verify_block_fields(&consensus, &block);
    let accepted = s1 && s2.is_some() && s3.is_ok();
    let id: [u8; 32] = *Bytes32::from(block.id());
    let orig_id: [u8; 32] = *Bytes32::from(ctx.chain.blocks[h].id());
    let identity_content = raw.same_content(&orig);

    let seams = format!("S1={} S2={} S3={}", if s1 { "ok" } else { "rej" }, if s2.is_some() { "ok" } else { "rej" }, if s3.is_ok() { "ok" } else { "rej" });
    let what = format!("{:?} at {:?} (height {}, {:?})", case.mutation, case.level, case.height, case.sched);
    let mut result = Ok(());
    let fail = |sig: String, msg: String| Err(viol(sig, msg));
    if case.mutation == Mutation::Identity {
        if id != orig.ref_id() {
            machinery_failure("reference block id disagrees with Block::id on an unmutated block");
        }
        if !accepted {
            result = fail(
                format!("valid-block-rejected:{}", seams.replace(' ', ",")),
                format!("unmutated valid block expected to pass all seams, observed {seams} (S3: {:?})", s3.as_ref().err().map(|e| e.to_string())),
            );
        }
    } else {
        // (ii) each broken listed condition is rejected by the seam responsible for it
        for b in &broken {
            let (seam, rejected) = match *b {
                "signature" => ("S1 verify_consensus", !s1),
                // a block without a PoA signature must not get through; verify_consensus waves
                // genesis seals through, the genesis field check of S3 is what stops them
                "no-poa-signature" => ("S1 verify_consensus or S3 verify_block_fields", !s1 || s3.is_err()),
                "tx-root-count" => ("S2 try_from_executed and S3 verify_block_fields", s2.is_none() && s3.is_err()),
                _ => ("S3 verify_block_fields", s3.is_err()),
            };
            if !rejected && result.is_ok() {
                result = fail(
                    format!("condition-not-enforced:{b}"),
                    format!("{what}: breaks the acceptance condition `{b}`; expected rejection by {seam}, observed {seams}"),
                );
            }
        }
        // (iii) no silent aliasing of content
        if result.is_ok() && !identity_content && accepted && id == orig_id {
            result = fail(
                "alias:same-id-different-content".into(),
                format!("{what}: content differs from the original block but it is accepted with the same block id {}", hex::encode(id)),
            );
        }
        if result.is_ok() && !broken.is_empty() && accepted {
            result = fail("accepted-with-broken-condition".into(), format!("{what}: accepted although {broken:?} is broken"));
        }
    }
    let class = if case.mutation == Mutation::Identity {
        "valid:accepted".to_string()
    } else if identity_content && raw.seal == orig.seal && !matches!(case.mutation, Mutation::ScheduleShift { .. } | Mutation::ForkedParent) {
        "mutant-is-identity".to_string()
    } else if accepted {
        format!("accepted:{}", if id != orig_id { "new-id" } else { "same-id-same-content" })
    } else {
        format!("rejected:{}:{}", seams, broken.join("+"))
    };
    let nontrivial = class != "mutant-is-identity";
    Some(Verdict {
        class,
        nontrivial,
        result,
        detail: json!({"case": case, "seams": seams, "broken": broken, "id_changed": id != orig_id, "s3_error": s3.err().map(|e| e.to_string())}),
    })
}

pub fn run(cli: &Cli) {
    let thorough = cli.tier == Tier::Thorough;
    let universe = tx_universe();
    let extra_tx = TransactionBuilder::script(vec![0x24, 0, 0, 0], vec![0x42; 5]).script_gas_limit(5555).max_fee_limit(9).finalize_without_signature_as_transaction();
    // make sure the universe is what we think it is (distinct, decodable, outputs/witnesses present)
    for (i, t) in universe.iter().enumerate() {
        let back = Transaction::from_bytes(&t.to_bytes()).unwrap_or_else(|e| machinery_failure(&format!("universe tx {i} does not round-trip: {e:?}")));
        if &back != t {
            machinery_failure("universe tx does not round-trip");
        }
    }
    if let Transaction::Script(s) = &universe[2] {
        if s.outputs().is_empty() || s.witnesses().is_empty() {
            machinery_failure("universe tx 2 lost its output/witness");
        }
    }
    let seeds = seeds(thorough);
    let scheds: Vec<Sched> = if thorough { vec![Sched::Single, Sched::SwitchAt(2), Sched::SwitchAt(3), Sched::V2NoOverride] } else { vec![Sched::Single, Sched::SwitchAt(2)] };

    if let Some(path) = &cli.replay {
        let rf = load_replay(path);
        let case: Case = serde_json::from_value(rf.history["case"].clone()).unwrap_or_else(|e| machinery_failure(&format!("replay case does not decode: {e}")));
        let chain = build_chain(&seeds[case.seed], case.sched, &universe);
        let ctx = Ctx { chain: &chain, universe: &universe, extra_tx: &extra_tx };
        match evaluate(&case, &ctx) {
            None => {
                println!("replay: mutation not applicable");
                std::process::exit(0)
            }
            Some(v) => {
                println!("replay: {} -> {}", serde_json::to_string(&v.detail).unwrap(), v.class);
                if let Err(e) = v.result {
                    println!("replay: violation {} / {}", e.sig, e.msg);
                    println!("VIOLATION property=C15 replay=(replayed)");
                    std::process::exit(1);
                }
                std::process::exit(0)
            }
        }
    }

    let mut run = Run::new(cli, "exploration");
    let muts = mutations(thorough);
    let units: Vec<(usize, Sched)> = (0..seeds.len()).flat_map(|s| scheds.iter().map(move |k| (s, *k))).collect();
    let sw = par_sweep(
        "block-mutants",
        "every (seed chain) x (key schedule) x (block height 1..=3) x (mutation operator) x (consistency level raw / rehashed / re-signed); each candidate goes through verify_consensus, Block::try_from_executed and verify_block_fields on a node whose chain ends at the parent; non-trivial = the mutant differs from the original block or its environment (identity mutants are counted but trivial); distinct by (seed, schedule, height, operator, level)",
        units.len(),
        cli.threads,
        |i, sw| {
            let (seed, sched) = units[i];
            let chain = build_chain(&seeds[seed], sched, &universe);
            let ctx = Ctx { chain: &chain, universe: &universe, extra_tx: &extra_tx };
            for height in 1..=3u32 {
                for m in &muts {
                    for level in levels(m) {
                        let case = Case { seed, sched, height, mutation: m.clone(), level: *level };
                        UNDECODABLE.with(|c| c.set(false));
                        let r = guarded(|| evaluate(&case, &ctx));
                        match r {
                            Err(p) => sw.case(Some(hash_of(&format!("{case:?}"))), "panic", || json!({"case": case}), Err(viol("panic", format!("{case:?}: {p}")))),
                            Ok(None) => {
                                if UNDECODABLE.with(|c| c.get()) {
                                    sw.case(None, "skipped:mutated-bytes-are-not-a-transaction", || json!({"case": case}), Ok(()));
                                }
                            }
                            Ok(Some(v)) => {
                                let key = if v.nontrivial { Some(hash_of(&format!("{case:?}"))) } else { None };
                                let detail = v.detail;
                                sw.case(key, &v.class, || detail, v.result);
                            }
                        }
                    }
                }
            }
        },
    );
    // vacuity: the enumeration must have produced accepted originals, rejections by each seam and
    // accepted re-signed mutants with a new id
    let need = ["valid:accepted", "accepted:new-id"];
    for n in need {
        if !sw.outcomes.contains_key(n) {
            machinery_failure(&format!("C15: outcome class {n} never occurred (vacuous enumeration)"));
        }
    }
    for cond in ["height-zero", "no-parent", "prev-root", "da-height", "time", "application-hash", "tx-root-count", "signature", "no-poa-signature"] {
        if !sw.outcomes.keys().any(|k| k.starts_with("rejected:") && k.split(':').nth(2).map(|b| b.split('+').any(|x| x == cond)).unwrap_or(false)) && sw.violations.is_empty() {
            machinery_failure(&format!("C15: no rejected mutant breaks condition {cond} (vacuous enumeration)"));
        }
    }
    run.note("seed_chains", json!(seeds.len()));
    run.note("key_schedules", json!(scheds.iter().map(|s| format!("{s:?}")).collect::<Vec<_>>()));
    run.note("mutation_operators", json!(muts.len()));
    run.add_sweep(sw);
    run.assume("acceptance = conjunction of the three seams of the network import path (sync: verify_consensus, Block::try_from_executed; importer: verify_block_fields); execution/state validation (executor.validate) and the importer's own next-height check are outside this property");
    run.assume("candidates are wire-level blocks: header fields set independently, cached header id absent (as after deserialisation); byte strings that do not decode to a Transaction cannot be block content and are skipped");
    run.assume("reference conditions are computed with independent SHA-256/RFC-6962 formulas; fuel-crypto signature recovery and fuel-merkle's MerkleRootCalculator (transaction root) are trusted");
    run.assume("the verifying node's database holds exactly the chain up to the parent; reconciliation imports (Importer::execute_and_commit called by the PoA task with blocks from Redis) bypass S1 and S2 and are not part of this check");
    run.finish();
}
