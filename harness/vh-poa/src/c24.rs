//! C24 — PoA produces consecutive, sealed, time-ordered blocks.
//!
//! The real `fuel_core_poa::new_service` (MainTask + SyncTask) runs on a
//! current-thread tokio runtime with a paused clock. Every port is a scripted
//! mock that records its calls; the explorer owns the environment: time,
//! transaction signals, manual production requests, blocks from the network,
//! leader-state answers and producer / signer / importer failures.
use fuel_core_poa::{
    ports::{
        BlockImporter, BlockProducer, BlockReconciliationReadPort, BlockSigner, GetTime, InMemoryPredefinedBlocks, LeaderState, P2pPort,
        TransactionPool, TransactionsSource, WaitForReadySignal,
    },
    service::{Mode, SharedState},
    verif_hooks, Config, Trigger,
};
use fuel_core_services::{stream::BoxStream, Service as _};
use fuel_core_storage::transactional::Changes;
use fuel_core_types::{
    blockchain::{
        block::Block,
        consensus::{poa::PoAConsensus, Consensus},
        header::{BlockHeader, ConsensusHeader, PartialBlockHeader},
        primitives::Empty,
        SealedBlock,
    },
    fuel_crypto::Signature,
    fuel_types::{BlockHeight, Bytes32},
    services::{
        block_importer::{BlockImportInfo, ImportResult, SharedImportResult, UncommittedResult as UncommittedImportResult},
        executor::{ExecutionResult, UncommittedResult as UncommittedExecutionResult},
    },
    signer::SignMode,
    tai64::Tai64,
};
use mcx::*;
use serde::{Deserialize, Serialize};
use serde_json::json;
use std::{
    collections::{BTreeMap, BTreeSet, HashMap},
    sync::{Arc, Mutex},
    time::Duration,
};
use tokio::time::Instant;

const BASE_TAI: u64 = (1u64 << 62) + 1_000_000;
const START_HEIGHT: u32 = 5;
const BLOCK_TIME: u64 = 10;
const SYNC_TIME: u64 = 7;
const PRODUCTION_TIMEOUT: u64 = 20;
const ADVANCE_CAP_S: u64 = 30;

// ---------------------------------------------------------------------------
// Alphabet
// ---------------------------------------------------------------------------

#[derive(Clone, Copy, Debug, Serialize, Deserialize, PartialEq, Eq, PartialOrd, Ord)]
pub enum Start {
    /// `start_time = None`
    None,
    /// one second before the latest known block timestamp
    Past,
    /// exactly the latest known block timestamp
    Equal,
    /// 20 s ahead of the clock
    Future,
}

#[derive(Clone, Copy, Debug, Serialize, Deserialize, PartialEq, Eq, PartialOrd, Ord)]
pub enum Fault {
    ProducerErr,
    /// the producer never answers (the task's production timeout has to fire)
    ProducerHang,
    SignerErr,
    /// `BlockImporter::commit_result` fails
    CommitErr,
    /// `BlockImporter::execute_and_commit` fails (reconciliation import)
    ExecCommitErr,
    /// `BlockImporter::latest_block_height` fails
    DbErr,
    /// `BlockImporter::latest_block_height` answers `None`
    DbNone,
    /// `leader_state` fails
    LeaderErr,
}

#[derive(Clone, Copy, Debug, Serialize, Deserialize, PartialEq, Eq, PartialOrd, Ord)]
pub enum LeaderAns {
    Follower,
    /// the reconciliation port hands back this many unreconciled blocks starting at the asked height
    Unreconciled(u8),
}

#[derive(Clone, Debug, Serialize, Deserialize, PartialEq)]
pub enum Op {
    /// let the clock run (second by second) until a port is called or a hook fires, at most 30 s
    Advance,
    /// let exactly one second pass
    Wait1,
    /// the transaction pool signals new transactions
    NewTx,
    /// `manually_produce_block(start_time, Mode::Blocks { n })`
    Manual { n: u8, start: Start },
    /// another node's block at (chain height + 1) is committed to the database and announced on
    /// the importer's block stream; `ahead` = its timestamp is 5 s ahead of the local clock
    NetBlock { ahead: bool },
    /// one-shot answer for the next call of the named port
    Arm(Fault),
    /// one-shot answer for the next `leader_state` call
    Leader(LeaderAns),
    /// the reserved-peers stream reports 0 connected peers (below `min_connected_reserved_peers`)
    PeersDrop,
    /// the reserved-peers stream reports `min_connected_reserved_peers` connected peers
    PeersReturn,
}

// ---------------------------------------------------------------------------
// Environment shared with the mocks
// ---------------------------------------------------------------------------

#[derive(Clone, Debug, PartialEq)]
enum Ev {
    Produce { h: u32, t: u64, ans: &'static str },
    Seal { h: u32, ans: &'static str },
    Commit { h: u32, t: u64, sealed: bool, sealed_before: bool, local: bool, ans: &'static str, chain_h: u32, chain_t: u64 },
    ExecCommit { h: u32, t: u64, ans: &'static str, chain_h: u32 },
    DbHeight { ans: Option<u32>, err: bool },
    Leader { next: u32, ans: String },
    Release,
    Synced { h: u32, t: u64 },
    ManualDone { id: usize, err: Option<String> },
}

fn fmt_ev(ev: &Ev, bh: i64, bt: i128) -> String {
    let rh = |h: &u32| *h as i64 - bh;
    let rt = |t: &u64| *t as i128 - bt;
    match ev {
        Ev::Produce { h, t, ans } => format!("Produce(h{:+} t{:+} {ans})", rh(h), rt(t)),
        Ev::Seal { h, ans } => format!("Seal(h{:+} {ans})", rh(h)),
        Ev::Commit { h, t, sealed, sealed_before, local, ans, chain_h, chain_t } => {
            format!("Commit(h{:+} t{:+} sealed={sealed}/{sealed_before} local={local} {ans} db h{:+} t{:+})", rh(h), rt(t), rh(chain_h), rt(chain_t))
        }
        Ev::ExecCommit { h, t, ans, chain_h } => format!("ExecCommit(h{:+} t{:+} {ans} db h{:+})", rh(h), rt(t), rh(chain_h)),
        Ev::DbHeight { ans, err } => format!("DbHeight({:?} err={err})", ans.as_ref().map(rh)),
        Ev::Leader { next, ans } => format!("Leader(next h{:+} {ans})", rh(next)),
        Ev::Release => "Release".into(),
        Ev::Synced { h, t } => format!("Synced(h{:+} t{:+})", rh(h), rt(t)),
        Ev::ManualDone { id: _, err } => format!("ManualDone({})", err.as_deref().unwrap_or("ok")),
    }
}

#[derive(Clone, Debug, Default, PartialEq)]
struct MainProbe {
    at: &'static str,
    last_height: u32,
    last_timestamp: u64,
    last_block_created: Option<Instant>,
    watermark: u32,
    until: Option<Instant>,
    new_txs_pending: bool,
    producing: Option<(u32, u64)>,
    emitted_at: Option<Instant>,
}

#[derive(Clone, Debug, Default, PartialEq)]
struct SyncProbe {
    variant: &'static str,
    height: u32,
    time: u64,
    has_sufficient_peers: bool,
    timer_base: Option<Instant>,
}

#[derive(Default)]
struct Arms {
    producer: Option<Fault>,
    signer_err: bool,
    commit_err: bool,
    exec_err: bool,
    db: Option<Fault>,
    leader: Option<LeaderAns>,
    leader_err: bool,
}

struct EnvState {
    t0: Instant,
    events: Vec<(Duration, Ev)>,
    chain_h: u32,
    chain_t: u64,
    arms: Arms,
    sealed_ids: BTreeSet<[u8; 32]>,
    block_tx: futures::channel::mpsc::UnboundedSender<BlockImportInfo>,
    block_rx: Option<futures::channel::mpsc::UnboundedReceiver<BlockImportInfo>>,
    new_txs: tokio::sync::watch::Sender<()>,
    main: MainProbe,
    sync: SyncProbe,
    new_tx_since_probe: bool,
    /// bumped by every port call and every hook
    activity: u64,
    /// reserved-peers stream (configurations with `min_connected_reserved_peers` > 0)
    peers_tx: futures::channel::mpsc::UnboundedSender<usize>,
    peers_rx: Option<futures::channel::mpsc::UnboundedReceiver<usize>>,
    peers: usize,
    /// highest block ever announced on the importer's block stream (height, timestamp)
    announced: (u32, u64),
    /// set when a drive did not reach quiescence (busy loop without time passing)
    spinning: bool,
}

type Env = Arc<Mutex<EnvState>>;

fn now_tai(t0: Instant) -> u64 {
    BASE_TAI + Instant::now().saturating_duration_since(t0).as_secs()
}

fn make_block(h: u32, t: u64) -> Block {
    let header = PartialBlockHeader {
        application: Default::default(),
        consensus: ConsensusHeader { prev_root: Bytes32::zeroed(), height: h.into(), time: Tai64(t), generated: Empty },
    };
    Block::new(header, vec![], &[], Bytes32::zeroed()).expect("block builds")
}

/// The signer port's seal. The PoA task treats the seal as opaque, so the mock signer uses a
/// keyed hash over the block id instead of an (expensive) secp256k1 signature.
fn seal_bytes(key: &[u8], block: &Block) -> [u8; 64] {
    use sha2::{Digest, Sha256};
    let mut out = [0u8; 64];
    let a: [u8; 32] = Sha256::new().chain_update(key).chain_update(b"/1").chain_update(block.id().as_slice()).finalize().into();
    let b: [u8; 32] = Sha256::new().chain_update(key).chain_update(b"/2").chain_update(block.id().as_slice()).finalize().into();
    out[..32].copy_from_slice(&a);
    out[32..].copy_from_slice(&b);
    out
}

fn seal(block: &Block) -> Consensus {
    Consensus::PoA(PoAConsensus::new(Signature::from_bytes(seal_bytes(b"vh-poa signer port", block))))
}

/// Seal of another node (network / unreconciled blocks): a different key, so that
/// "carries the signer's seal" can only be satisfied by this node's signer port.
fn foreign_seal(block: &Block) -> Consensus {
    Consensus::PoA(PoAConsensus::new(Signature::from_bytes(seal_bytes(b"another node", block))))
}

fn seal_is_valid(block: &SealedBlock) -> bool {
    match &block.consensus {
        Consensus::PoA(p) => *p.signature == seal_bytes(b"vh-poa signer port", &block.entity),
        _ => false,
    }
}

#[derive(Clone)]
struct Port(Env);

impl Port {
    fn log(&self, ev: Ev) {
        let mut e = self.0.lock().unwrap();
        let at = Instant::now().saturating_duration_since(e.t0);
        e.events.push((at, ev));
        e.activity += 1;
    }
}

impl TransactionPool for Port {
    fn new_txs_watcher(&self) -> tokio::sync::watch::Receiver<()> {
        self.0.lock().unwrap().new_txs.subscribe()
    }
}

#[async_trait::async_trait]
impl BlockProducer for Port {
    async fn produce_and_execute_block(
        &self,
        height: BlockHeight,
        block_time: Tai64,
        _source: TransactionsSource,
        _deadline: Instant,
    ) -> anyhow::Result<UncommittedExecutionResult<Changes>> {
        let arm = self.0.lock().unwrap().arms.producer.take();
        let (h, t) = (u32::from(height), block_time.0);
        match arm {
            Some(Fault::ProducerErr) => {
                self.log(Ev::Produce { h, t, ans: "err" });
                Err(anyhow::anyhow!("producer failure (scripted)"))
            }
            Some(Fault::ProducerHang) => {
                self.log(Ev::Produce { h, t, ans: "hang" });
                std::future::pending::<()>().await;
                unreachable!()
            }
            _ => {
                self.log(Ev::Produce { h, t, ans: "ok" });
                Ok(UncommittedExecutionResult::new(
                    ExecutionResult { block: make_block(h, t), skipped_transactions: vec![], tx_status: vec![], events: vec![] },
                    Changes::default(),
                ))
            }
        }
    }

    async fn produce_predefined_block(&self, _block: &Block) -> anyhow::Result<UncommittedExecutionResult<Changes>> {
        Err(anyhow::anyhow!("no predefined blocks in this environment"))
    }
}

#[async_trait::async_trait]
impl BlockSigner for Port {
    async fn seal_block(&self, block: &Block) -> anyhow::Result<Consensus> {
        let h = u32::from(*block.header().height());
        let fail = std::mem::take(&mut self.0.lock().unwrap().arms.signer_err);
        if fail {
            self.log(Ev::Seal { h, ans: "err" });
            return Err(anyhow::anyhow!("signer failure (scripted)"));
        }
        self.0.lock().unwrap().sealed_ids.insert(*Bytes32::from(block.id()));
        self.log(Ev::Seal { h, ans: "ok" });
        Ok(seal(block))
    }
    fn is_available(&self) -> bool {
        true
    }
}

fn announce(e: &mut EnvState, sealed: SealedBlock, local: bool) {
    let info: BlockImportInfo = if local {
        let shared: SharedImportResult = Arc::new(ImportResult::new_from_local(sealed, vec![], vec![]).wrap());
        shared.into()
    } else {
        BlockImportInfo::new_from_network(sealed.entity.header().clone())
    };
    let (h, t) = (u32::from(*info.block_header.height()), info.block_header.time().0);
    if h > e.announced.0 {
        e.announced = (h, t);
    }
    let _ = e.block_tx.unbounded_send(info);
}

#[async_trait::async_trait]
impl BlockImporter for Port {
    async fn commit_result(&self, result: UncommittedImportResult<Changes>) -> anyhow::Result<()> {
        let r = result.into_result();
        let local = matches!(r.source, fuel_core_types::services::block_importer::Source::Local);
        let sealed_block = r.sealed_block;
        let h = u32::from(*sealed_block.entity.header().height());
        let t = sealed_block.entity.header().time().0;
        let sealed = seal_is_valid(&sealed_block);
        let mut e = self.0.lock().unwrap();
        let sealed_before = e.sealed_ids.contains(&*Bytes32::from(sealed_block.entity.id()));
        let (chain_h, chain_t) = (e.chain_h, e.chain_t);
        let fail = std::mem::take(&mut e.arms.commit_err);
        // the database only takes the block that extends its tip
        let ans = if fail {
            "err"
        } else if h != chain_h + 1 {
            "err-height"
        } else {
            "ok"
        };
        if ans == "ok" {
            e.chain_h = h;
            e.chain_t = t;
            announce(&mut e, sealed_block, true);
        }
        let at = Instant::now().saturating_duration_since(e.t0);
        e.events.push((at, Ev::Commit { h, t, sealed, sealed_before, local, ans, chain_h, chain_t }));
        e.activity += 1;
        if ans == "ok" {
            Ok(())
        } else {
            Err(anyhow::anyhow!("commit failure ({ans})"))
        }
    }

    async fn execute_and_commit(&self, block: SealedBlock) -> anyhow::Result<()> {
        let h = u32::from(*block.entity.header().height());
        let t = block.entity.header().time().0;
        let mut e = self.0.lock().unwrap();
        let chain_h = e.chain_h;
        let fail = std::mem::take(&mut e.arms.exec_err);
        let ans = if fail {
            "err"
        } else if h != chain_h + 1 {
            "err-height"
        } else {
            "ok"
        };
        if ans == "ok" {
            e.chain_h = h;
            e.chain_t = t;
            announce(&mut e, block, false);
        }
        let at = Instant::now().saturating_duration_since(e.t0);
        e.events.push((at, Ev::ExecCommit { h, t, ans, chain_h }));
        e.activity += 1;
        if ans == "ok" {
            Ok(())
        } else {
            Err(anyhow::anyhow!("import failure ({ans})"))
        }
    }

    fn block_stream(&self) -> BoxStream<BlockImportInfo> {
        let rx = self.0.lock().unwrap().block_rx.take().expect("block_stream is subscribed once");
        Box::pin(rx)
    }

    fn latest_block_height(&self) -> anyhow::Result<Option<BlockHeight>> {
        let (arm, chain_h) = {
            let mut e = self.0.lock().unwrap();
            (e.arms.db.take(), e.chain_h)
        };
        match arm {
            Some(Fault::DbErr) => {
                self.log(Ev::DbHeight { ans: None, err: true });
                Err(anyhow::anyhow!("database failure (scripted)"))
            }
            Some(Fault::DbNone) => {
                self.log(Ev::DbHeight { ans: None, err: false });
                Ok(None)
            }
            _ => {
                self.log(Ev::DbHeight { ans: Some(chain_h), err: false });
                Ok(Some(chain_h.into()))
            }
        }
    }
}

impl P2pPort for Port {
    fn reserved_peers_count(&self) -> BoxStream<usize> {
        let rx = self.0.lock().unwrap().peers_rx.take().expect("reserved_peers_count is subscribed once");
        Box::pin(rx)
    }
}

impl GetTime for Port {
    fn now(&self) -> Tai64 {
        let t0 = self.0.lock().unwrap().t0;
        Tai64(now_tai(t0))
    }
}

impl WaitForReadySignal for Port {
    async fn wait_for_ready_signal(&self) {}
}

#[async_trait::async_trait]
impl BlockReconciliationReadPort for Port {
    async fn leader_state(&self, next_height: BlockHeight) -> anyhow::Result<LeaderState> {
        let next = u32::from(next_height);
        let (err, arm, chain_t, t0) = {
            let mut e = self.0.lock().unwrap();
            (std::mem::take(&mut e.arms.leader_err), e.arms.leader.take(), e.chain_t, e.t0)
        };
        if err {
            self.log(Ev::Leader { next, ans: "err".into() });
            return Err(anyhow::anyhow!("leader-state failure (scripted)"));
        }
        match arm {
            None => {
                self.log(Ev::Leader { next, ans: "leader".into() });
                Ok(LeaderState::ReconciledLeader)
            }
            Some(LeaderAns::Follower) => {
                self.log(Ev::Leader { next, ans: "follower".into() });
                Ok(LeaderState::ReconciledFollower)
            }
            Some(LeaderAns::Unreconciled(k)) => {
                self.log(Ev::Leader { next, ans: format!("unreconciled({k})") });
                // blocks another leader produced: consecutive from the asked height, time-ordered
                let t = chain_t.max(now_tai(t0));
                let blocks = (0..k as u32)
                    .map(|i| {
                        let b = make_block(next + i, t);
                        let consensus = foreign_seal(&b);
                        SealedBlock { entity: b, consensus }
                    })
                    .collect();
                Ok(LeaderState::UnreconciledBlocks(blocks))
            }
        }
    }

    async fn release(&self) -> anyhow::Result<()> {
        self.log(Ev::Release);
        Ok(())
    }
}

// ---------------------------------------------------------------------------
// World
// ---------------------------------------------------------------------------

type Svc = fuel_core_poa::Service<Port, Port, Port, InMemoryPredefinedBlocks, Port, Port, Port>;

#[derive(Clone, Debug)]
struct Oracle {
    /// latest height / timestamp delivered to the production task
    k_h: u32,
    k_t: u64,
    /// instant of this node's previous successful own commit
    last_own_commit: Option<Duration>,
    /// the previous attempt (producer request) and whether it has failed
    last_attempt: Option<(u32, bool)>,
    /// a producer request whose outcome is still open
    open_attempt: Option<u32>,
    /// highest block announced on the block stream before the current letter started, i.e. that
    /// the sync task has certainly processed (the runtime was quiescent since)
    announced_settled: (u32, u64),
}

pub struct World {
    env: Env,
    shared: SharedState,
    manual: Vec<(usize, Option<u64>, u8, tokio::task::JoinHandle<anyhow::Result<()>>)>,
    manual_seq: usize,
    oracle: Oracle,
    judged: usize,
    /// a busy loop was seen: no further letters
    dead: bool,
    history: Vec<Op>,
    svc: Option<Svc>,
    rt: tokio::runtime::Runtime,
}

impl Drop for World {
    fn drop(&mut self) {
        // drop the service handle and abort everything inside the runtime context
        let _g = self.rt.enter();
        for (_, _, _, h) in self.manual.drain(..) {
            h.abort();
        }
        self.svc.take();
    }
}

fn install_sink(env: &Env) {
    let env = env.clone();
    verif_hooks::set_sink(Some(Box::new(move |ev| {
        let mut e = env.lock().unwrap();
        let now = Instant::now();
        e.activity += 1;
        match ev {
            verif_hooks::Event::SyncedDelivered { height, time } => {
                let at = now.saturating_duration_since(e.t0);
                e.events.push((at, Ev::Synced { h: height, t: time }));
            }
            verif_hooks::Event::MainPark { at, last_height, last_timestamp, last_block_created, watermark, until, new_txs_pending, producing_height, producing_time } => {
                e.main = MainProbe {
                    at,
                    last_height,
                    last_timestamp,
                    last_block_created: Some(last_block_created),
                    watermark,
                    until,
                    new_txs_pending,
                    producing: producing_height.zip(producing_time),
                    emitted_at: Some(now),
                };
                e.new_tx_since_probe = false;
            }
            verif_hooks::Event::SyncLoop { variant, height, time, has_sufficient_peers } => {
                let timer_base = e.sync.timer_base;
                e.sync = SyncProbe { variant, height, time, has_sufficient_peers, timer_base };
            }
            verif_hooks::Event::SyncTimer => {
                e.sync.timer_base = Some(now);
            }
        }
    })));
}

/// quiet rounds required before the runtime is considered quiescent
const QUIET_ROUNDS: usize = 6;
/// a service that is still active after this many rounds without time passing is spinning
const SPIN_LIMIT: usize = 400;
/// largest number of rounds any drive needed until its last activity (reported in the evidence)
static MAX_ACTIVE_ROUND: std::sync::atomic::AtomicUsize = std::sync::atomic::AtomicUsize::new(0);

fn activity(env: &Env) -> u64 {
    env.lock().unwrap().activity
}

/// Drive the runtime to quiescence without letting time pass: every `yield_now` gives each
/// runnable task one turn. Every port call and every hook (both tasks report at the top of each
/// loop iteration and before each wait) counts as activity; the drive ends after `QUIET_ROUNDS`
/// consecutive rounds without any.
async fn idle(env: &Env) {
    let mut last = activity(env);
    let mut last_active = 0usize;
    let mut round = 0usize;
    loop {
        tokio::task::yield_now().await;
        round += 1;
        let a = activity(env);
        if a != last {
            last = a;
            last_active = round;
        }
        if round - last_active >= QUIET_ROUNDS {
            break;
        }
        if round > SPIN_LIMIT {
            // the service keeps running without time passing; the caller decides what that means
            env.lock().unwrap().spinning = true;
            return;
        }
    }
    MAX_ACTIVE_ROUND.fetch_max(last_active, std::sync::atomic::Ordering::Relaxed);
}

#[derive(Clone, Copy, Debug, PartialEq)]
pub enum CanonMode {
    /// every history is its own state (pure tree search)
    History,
    /// state = hook-reported task state + environment + oracle memory, clock-relative
    State,
}

pub struct Poa {
    pub name: String,
    pub trigger: Trigger,
    pub canon: CanonMode,
    pub thorough: bool,
    /// `min_connected_reserved_peers`; with > 0 the alphabet has PeersDrop / PeersReturn and the
    /// world starts after a fixed prologue (peers connected, time_until_synced elapsed: Synced)
    pub min_peers: usize,
    pub notes: Mutex<BTreeMap<String, (u64, String)>>,
}

impl Poa {
    fn note(&self, kind: &str, w: &World) {
        let mut n = self.notes.lock().unwrap();
        let e = n.entry(kind.to_string()).or_insert_with(|| (0, serde_json::to_string(&w.history).unwrap_or_default()));
        e.0 += 1;
    }
    fn block_time(&self) -> Option<Duration> {
        match self.trigger {
            Trigger::Interval { block_time } => Some(block_time),
            _ => None,
        }
    }
}

impl World {
    fn events_len(&self) -> usize {
        self.env.lock().unwrap().events.len()
    }
}

impl Subject for Poa {
    type World = World;
    type Op = Op;

    fn name(&self) -> String {
        self.name.clone()
    }

    fn fresh(&self) -> World {
        let rt = tokio::runtime::Builder::new_current_thread().enable_time().start_paused(true).build().expect("runtime");
        let trigger = self.trigger;
        let min_peers = self.min_peers;
        let (env, svc) = rt.block_on(async move {
            let t0 = Instant::now();
            let (block_tx, block_rx) = futures::channel::mpsc::unbounded();
            let (new_txs, _) = tokio::sync::watch::channel(());
            let (peers_tx, peers_rx) = futures::channel::mpsc::unbounded();
            let last_time = BASE_TAI - 3;
            let env: Env = Arc::new(Mutex::new(EnvState {
                t0,
                events: vec![],
                chain_h: START_HEIGHT,
                chain_t: last_time,
                arms: Arms::default(),
                sealed_ids: BTreeSet::new(),
                block_tx,
                block_rx: Some(block_rx),
                new_txs,
                main: MainProbe::default(),
                sync: SyncProbe::default(),
                new_tx_since_probe: false,
                activity: 0,
                spinning: false,
                peers_tx,
                peers_rx: Some(peers_rx),
                peers: 0,
                announced: (START_HEIGHT, last_time),
            }));
            install_sink(&env);
            // the sync task's interval timer is created inside `new_service`
            env.lock().unwrap().sync.timer_base = Some(t0);
            let port = Port(env.clone());
            let config = Config {
                trigger,
                signer: SignMode::Unavailable,
                metrics: false,
                min_connected_reserved_peers: min_peers,
                time_until_synced: Duration::from_secs(SYNC_TIME),
                production_timeout: Duration::from_secs(PRODUCTION_TIMEOUT),
                chain_id: Default::default(),
            };
            let last = BlockHeader::new_block(START_HEIGHT.into(), Tai64(last_time));
            let svc: Svc = fuel_core_poa::new_service(
                &last,
                config,
                port.clone(),
                port.clone(),
                port.clone(),
                port.clone(),
                Arc::new(port.clone()),
                InMemoryPredefinedBlocks::new(HashMap::new()),
                port.clone(),
                port.clone(),
                port.clone(),
            );
            svc.start_and_await().await.expect("service starts");
            idle(&env).await;
            if min_peers > 0 {
                // prologue: the reserved peers connect and `time_until_synced` elapses
                {
                    let mut e = env.lock().unwrap();
                    e.peers = min_peers;
                    let _ = e.peers_tx.unbounded_send(min_peers);
                }
                idle(&env).await;
                tokio::time::sleep_until(t0 + Duration::from_secs(SYNC_TIME)).await;
                idle(&env).await;
                if env.lock().unwrap().sync.variant != "Synced" {
                    machinery_failure("C24 harness: the peers prologue did not end in the Synced state");
                }
            }
            (env, svc)
        });
        verif_hooks::set_sink(None);
        let shared = svc.shared.clone();
        let mut w = World {
            env,
            shared,
            manual: vec![],
            manual_seq: 0,
            oracle: Oracle { k_h: START_HEIGHT, k_t: BASE_TAI - 3, last_own_commit: None, last_attempt: None, open_attempt: None, announced_settled: (START_HEIGHT, BASE_TAI - 3) },
            judged: 0,
            dead: false,
            history: vec![],
            svc: Some(svc),
            rt,
        };
        // events of the start-up (sync state delivery; under `Open` the first production opens at once)
        if let Err(v) = self.judge(&mut w, true) {
            machinery_failure(&format!("{}: violation during start-up: {} / {}", self.name, v.sig, v.msg));
        }
        w
    }

    fn enabled(&self, w: &World) -> Vec<Op> {
        if w.dead {
            return vec![];
        }
        let mut v = vec![Op::Advance];
        let open = matches!(self.trigger, Trigger::Open { .. });
        // one-second steps matter where block timestamps follow the elapsed time
        if matches!(self.trigger, Trigger::Never) || (self.thorough && matches!(self.trigger, Trigger::Instant)) {
            v.push(Op::Wait1);
        }
        if matches!(self.trigger, Trigger::Instant) {
            v.push(Op::NewTx);
        }
        if open {
            // manual production is refused under `Open`; one letter exercises the refusal
            v.push(Op::Manual { n: 1, start: Start::None });
        } else {
            for start in [Start::None, Start::Past, Start::Future] {
                v.push(Op::Manual { n: 1, start });
            }
            v.push(Op::Manual { n: 2, start: Start::None });
            if self.thorough {
                v.push(Op::Manual { n: 1, start: Start::Equal });
                v.push(Op::Manual { n: 2, start: Start::Future });
            }
        }
        v.push(Op::NetBlock { ahead: false });
        v.push(Op::NetBlock { ahead: true });
        let e = w.env.lock().unwrap();
        if self.min_peers > 0 {
            v.push(if e.peers >= self.min_peers { Op::PeersDrop } else { Op::PeersReturn });
        }
        let never = matches!(self.trigger, Trigger::Never);
        // leader-state / database answers are only ever read on the trigger path
        if !never {
            if e.arms.leader.is_none() && !e.arms.leader_err {
                v.push(Op::Leader(LeaderAns::Follower));
                v.push(Op::Leader(LeaderAns::Unreconciled(1)));
                v.push(Op::Leader(LeaderAns::Unreconciled(2)));
                v.push(Op::Arm(Fault::LeaderErr));
            }
            if e.arms.db.is_none() {
                v.push(Op::Arm(Fault::DbErr));
                v.push(Op::Arm(Fault::DbNone));
            }
            if !e.arms.exec_err {
                v.push(Op::Arm(Fault::ExecCommitErr));
            }
        }
        if e.arms.producer.is_none() {
            v.push(Op::Arm(Fault::ProducerErr));
            v.push(Op::Arm(Fault::ProducerHang));
        }
        if !e.arms.signer_err {
            v.push(Op::Arm(Fault::SignerErr));
        }
        if !e.arms.commit_err {
            v.push(Op::Arm(Fault::CommitErr));
        }
        v
    }

    fn deviation(&self, op: &Op) -> u32 {
        match op {
            Op::Arm(_) => 1,
            _ => 0,
        }
    }

    fn label(&self, op: &Op) -> String {
        match op {
            Op::Arm(f) => format!("Arm:{f:?}"),
            Op::Leader(l) => format!("Leader:{}", match l {
                LeaderAns::Follower => "Follower",
                LeaderAns::Unreconciled(_) => "Unreconciled",
            }),
            Op::Manual { .. } => "Manual".into(),
            Op::NetBlock { .. } => "NetBlock".into(),
            Op::PeersDrop => "PeersDrop".into(),
            Op::PeersReturn => "PeersReturn".into(),
            other => format!("{other:?}"),
        }
    }

    fn required_labels(&self) -> Vec<String> {
        let mut v = vec!["Advance".to_string(), "Manual".into(), "NetBlock".into(), "Arm:CommitErr".into(), "Arm:ProducerErr".into(), "Arm:SignerErr".into()];
        if matches!(self.trigger, Trigger::Instant) {
            v.push("NewTx".into());
        }
        if self.min_peers > 0 {
            v.push("PeersDrop".into());
            v.push("PeersReturn".into());
        }
        v
    }

    fn interesting(&self, _op: &Op, obs: &str) -> bool {
        obs.contains("Commit") || obs.contains("Produce") || obs.contains("ExecCommit") || obs.contains("Synced")
    }

    fn step(&self, w: &mut World, op: &Op) -> Result<String, Violation> {
        w.history.push(op.clone());
        let first_event = w.events_len();
        // observations are rendered relative to the state at the start of the letter
        let (at0, base_h, base_t) = {
            let _g = w.rt.enter();
            let e = w.env.lock().unwrap();
            (Instant::now().saturating_duration_since(e.t0), e.chain_h as i64, now_tai(e.t0) as i128)
        };
        install_sink(&w.env);
        let env = w.env.clone();
        w.oracle.announced_settled = env.lock().unwrap().announced;
        match op {
            Op::Arm(f) => {
                let mut e = env.lock().unwrap();
                match f {
                    Fault::ProducerErr | Fault::ProducerHang => e.arms.producer = Some(*f),
                    Fault::SignerErr => e.arms.signer_err = true,
                    Fault::CommitErr => e.arms.commit_err = true,
                    Fault::ExecCommitErr => e.arms.exec_err = true,
                    Fault::DbErr | Fault::DbNone => e.arms.db = Some(*f),
                    Fault::LeaderErr => e.arms.leader_err = true,
                }
            }
            Op::Leader(l) => env.lock().unwrap().arms.leader = Some(*l),
            Op::PeersDrop | Op::PeersReturn => {
                let n = if matches!(op, Op::PeersDrop) { 0 } else { self.min_peers };
                w.rt.block_on(async {
                    {
                        let mut e = env.lock().unwrap();
                        e.peers = n;
                        let _ = e.peers_tx.unbounded_send(n);
                    }
                    idle(&env).await;
                });
            }
            Op::Advance => {
                let before = w.events_len();
                let manual = &w.manual;
                w.rt.block_on(async {
                    let t0 = env.lock().unwrap().t0;
                    for _ in 0..ADVANCE_CAP_S {
                        let el = Instant::now().saturating_duration_since(t0);
                        let target = t0 + Duration::from_secs(el.as_secs() + 1);
                        tokio::time::sleep_until(target).await;
                        idle(&env).await;
                        if env.lock().unwrap().events.len() != before || manual.iter().any(|(_, _, _, h)| h.is_finished()) {
                            break;
                        }
                    }
                });
            }
            Op::Wait1 => {
                w.rt.block_on(async {
                    let t0 = env.lock().unwrap().t0;
                    let el = Instant::now().saturating_duration_since(t0);
                    let target = t0 + Duration::from_secs(el.as_secs() + 1);
                    tokio::time::sleep_until(target).await;
                    idle(&env).await;
                });
            }
            Op::NewTx => {
                w.rt.block_on(async {
                    {
                        let mut e = env.lock().unwrap();
                        e.new_txs.send_replace(());
                        e.new_tx_since_probe = true;
                    }
                    idle(&env).await;
                });
            }
            Op::Manual { n, start } => {
                let shared = w.shared.clone();
                let (k_t, n) = (w.oracle.k_t, *n);
                let id = w.manual_seq;
                w.manual_seq += 1;
                let start = *start;
                let (start_time, handle) = w.rt.block_on(async {
                    let t0 = env.lock().unwrap().t0;
                    let start_time = match start {
                        Start::None => None,
                        Start::Past => Some(k_t - 1),
                        Start::Equal => Some(k_t),
                        Start::Future => Some(now_tai(t0) + 20),
                    };
                    let h = tokio::spawn(async move { shared.manually_produce_block(start_time.map(Tai64), Mode::Blocks { number_of_blocks: n as u32 }).await });
                    idle(&env).await;
                    (start_time, h)
                });
                w.manual.push((id, start_time, n, handle));
            }
            Op::NetBlock { ahead } => {
                w.rt.block_on(async {
                    {
                        let mut e = env.lock().unwrap();
                        let now = now_tai(e.t0);
                        let t = if *ahead { now + 5 } else { now }.max(e.chain_t);
                        let h = e.chain_h + 1;
                        let b = make_block(h, t);
                        let consensus = foreign_seal(&b);
                        e.chain_h = h;
                        e.chain_t = t;
                        announce(&mut e, SealedBlock { entity: b, consensus }, false);
                    }
                    idle(&env).await;
                });
            }
        }
        // collect finished manual requests
        let mut still = vec![];
        let guard = w.rt.enter();
        for (id, start, n, h) in std::mem::take(&mut w.manual) {
            if h.is_finished() {
                let r = w.rt.block_on(h);
                let err = match r {
                    Ok(Ok(())) => None,
                    Ok(Err(e)) => Some(e.to_string()),
                    Err(e) => Some(format!("join error: {e}")),
                };
                let mut e = env.lock().unwrap();
                let at = Instant::now().saturating_duration_since(e.t0);
                e.events.push((at, Ev::ManualDone { id, err }));
            } else {
                still.push((id, start, n, h));
            }
        }
        drop(guard);
        w.manual = still;
        verif_hooks::set_sink(None);
        self.judge(w, true)?;
        if env.lock().unwrap().spinning {
            // A busy loop without time passing that the oracle has nothing to say about: outside
            // this property. The state gets no successors and the fact is recorded in the evidence.
            self.note("the service kept running without time passing (busy loop); state not expanded further", w);
            w.dead = true;
            return Ok("busy loop without time passing".into());
        }
        let e = env.lock().unwrap();
        let obs: Vec<String> = e.events[first_event..].iter().map(|(at, ev)| format!("+{}ms {}", at.saturating_sub(at0).as_millis(), fmt_ev(ev, base_h, base_t))).collect();
        Ok(obs.join("; "))
    }

    fn canon(&self, w: &World) -> Vec<u8> {
        match self.canon {
            CanonMode::History => serde_json::to_vec(&w.history).unwrap(),
            CanonMode::State => self.state_key(w).into_bytes(),
        }
    }
}

impl Poa {
    /// Clock-relative rendering of everything the future can depend on.
    fn state_key(&self, w: &World) -> String {
        let e = w.env.lock().unwrap();
        let _g = w.rt.enter();
        let now = Instant::now();
        let now_t = now_tai(e.t0) as i128;
        let base_h = e.chain_h as i64;
        let rel_i = |i: Option<Instant>| -> String {
            match i {
                None => "-".into(),
                Some(i) if i >= now => format!("+{}", i.duration_since(now).as_millis()),
                Some(i) => format!("-{}", now.duration_since(i).as_millis()),
            }
        };
        let rel_t = |t: u64| -> i128 { t as i128 - now_t };
        let rel_h = |h: u32| -> i64 { h as i64 - base_h };
        let sub_second = now.saturating_duration_since(e.t0).subsec_millis();
        let m = &e.main;
        let main = format!(
            "main[{} h{} t{} lbc{} wm{} until{} ntx{} prod{:?} at{}]",
            m.at,
            rel_h(m.last_height),
            rel_t(m.last_timestamp),
            rel_i(m.last_block_created),
            if m.watermark == 0 { "none".to_string() } else { rel_h(m.watermark).to_string() },
            rel_i(m.until),
            m.new_txs_pending || e.new_tx_since_probe,
            m.producing.map(|(h, t)| (rel_h(h), rel_t(t))),
            // the start of an in-flight production becomes `last_block_created`
            if m.producing.is_some() { rel_i(m.emitted_at) } else { "-".into() },
        );
        let s = &e.sync;
        let next_tick = s.timer_base.map(|b| b + Duration::from_secs(SYNC_TIME));
        // In `Synced` with sufficient peers the timer phase cannot influence the future: ticks are
        // no-ops there and the only way out (a network block) restarts the timer (sync.rs).
        // `InsufficientPeers` is only left through a peer-count event, which restarts the timer too.
        let tick = if (s.variant == "Synced" && s.has_sufficient_peers) || s.variant == "InsufficientPeers" { "n/a".to_string() } else { rel_i(next_tick) };
        let sync = format!("sync[{} h{} t{} p{} tick{}]", s.variant, rel_h(s.height), rel_t(s.time), s.has_sufficient_peers, tick);
        let a = &e.arms;
        let arms = format!("arms[{:?} {} {} {} {:?} {:?} {}]", a.producer, a.signer_err, a.commit_err, a.exec_err, a.db, a.leader, a.leader_err);
        let o = &w.oracle;
        let spacing = match (self.block_time(), o.last_own_commit) {
            (Some(bt), Some(c)) => {
                let el = now.saturating_duration_since(e.t0).saturating_sub(c);
                if el >= bt {
                    "far".to_string()
                } else {
                    el.as_millis().to_string()
                }
            }
            _ => "-".into(),
        };
        let oracle = format!(
            "or[k{} kt{} chain_t{} spacing{} last{:?} open{:?}]",
            rel_h(o.k_h),
            rel_t(o.k_t),
            rel_t(e.chain_t),
            spacing,
            o.last_attempt.map(|(h, f)| (rel_h(h), f)),
            o.open_attempt.map(rel_h),
        );
        let manual: Vec<String> = w.manual.iter().map(|(_, s, n, _)| format!("{:?}x{n}", s.map(rel_t))).collect();
        format!("{main} {sync} {arms} {oracle} manual{manual:?} ss{sub_second} peers{} ann({},{})", e.peers, rel_h(e.announced.0), rel_t(e.announced.1))
    }

    /// The oracle: the statement of C24 over the recorded port calls.
    fn judge(&self, w: &mut World, allow_production: bool) -> Result<(), Violation> {
        let events = w.env.lock().unwrap().events.clone();
        let start = w.judged;
        w.judged = events.len();
        let mut o = w.oracle.clone();
        let mut notes: Vec<&'static str> = vec![];
        let manual_around = !w.manual.is_empty() || events[start..].iter().any(|(_, e)| matches!(e, Ev::ManualDone { .. }));
        for (at, ev) in &events[start..] {
            match ev {
                Ev::Synced { h, t } => {
                    if *h > o.k_h {
                        o.k_h = *h;
                        o.k_t = *t;
                    }
                    // Being told "synced" by its own sync task means knowing every block that was
                    // announced to that task on the importer's block stream and processed by it
                    // (everything announced before this letter; the runtime was quiescent since).
                    let (ah, at) = o.announced_settled;
                    if ah > o.k_h {
                        o.k_h = ah;
                        o.k_t = at;
                        notes.push("a Synced(header) delivery carried a header older than a block already announced to and processed by the sync task");
                    }
                }
                Ev::DbHeight { ans: Some(d), .. } => {
                    if *d > o.k_h {
                        // the height is adopted from the database; no timestamp comes with it
                        o.k_h = *d;
                    }
                }
                Ev::DbHeight { .. } | Ev::Leader { .. } | Ev::Release | Ev::ManualDone { .. } => {}
                Ev::Produce { h, t, ans } => {
                    if !allow_production {
                        return Err(viol("production-during-startup", format!("producer asked for height {h} during start-up")));
                    }
                    // an attempt that was still open (producer hang -> timeout) has failed
                    if let Some(prev) = o.open_attempt.take() {
                        o.last_attempt = Some((prev, true));
                    }
                    let after_failure = matches!(o.last_attempt, Some((_, true)));
                    if *h != o.k_h + 1 {
                        let sig = if after_failure && *h > o.k_h + 1 {
                            "produce-height:advanced-after-failure"
                        } else if *h > o.k_h + 1 {
                            "produce-height:skips"
                        } else {
                            "produce-height:not-above-latest-known"
                        };
                        return Err(viol(
                            sig,
                            format!("producer asked for height {h}; expected latest known height + 1 = {} (previous attempt (height, failed): {:?})", o.k_h + 1, o.last_attempt),
                        ));
                    }
                    if *t < o.k_t {
                        return Err(viol(
                            "produce-time:decreases",
                            format!("producer asked for timestamp {t} at height {h}; the latest known block has timestamp {} ({} s later)", o.k_t, o.k_t - t),
                        ));
                    }
                    o.open_attempt = Some(*h);
                    if *ans == "err" {
                        o.open_attempt = None;
                        o.last_attempt = Some((*h, true));
                    }
                }
                Ev::Seal { h, ans } => {
                    if *ans == "err" {
                        o.open_attempt = None;
                        o.last_attempt = Some((*h, true));
                    }
                }
                Ev::Commit { h, t, sealed, sealed_before, local, ans, chain_h, chain_t } => {
                    let after_failure = matches!(o.last_attempt, Some((_, true)));
                    if *h != o.k_h + 1 {
                        let sig = if after_failure && *h > o.k_h + 1 {
                            "commit-height:advanced-after-failure"
                        } else if *h > o.k_h + 1 {
                            "commit-height:skips"
                        } else {
                            "commit-height:not-above-latest-known"
                        };
                        return Err(viol(
                            sig,
                            format!("commit_result asked for height {h}; expected latest known height + 1 = {} (previous attempt (height, failed): {:?})", o.k_h + 1, o.last_attempt),
                        ));
                    }
                    if *t < o.k_t {
                        return Err(viol("commit-time:decreases", format!("commit_result asked for a block with timestamp {t}; the latest known block has timestamp {}", o.k_t)));
                    }
                    if !*sealed || !*sealed_before {
                        return Err(viol(
                            "commit-unsealed",
                            format!("commit_result for height {h}: carries a valid seal of the signer = {sealed}, seal_block had answered for this block before the commit = {sealed_before}"),
                        ));
                    }
                    if !*local {
                        return Err(viol("commit-not-local", format!("commit_result for height {h} is not marked as locally produced")));
                    }
                    if *h <= *chain_h {
                        notes.push("stale-height commit request: the database already holds this height (announced to the sync task, not yet delivered to the production task); the importer refuses it");
                    }
                    if *t < *chain_t {
                        notes.push("commit request whose timestamp is below the database tip's timestamp (tip not yet delivered to the production task)");
                    }
                    o.open_attempt = None;
                    if *ans == "ok" {
                        // spacing under the interval trigger: own successive blocks, trigger-initiated
                        if let (Some(bt), Some(prev), false) = (self.block_time(), o.last_own_commit, manual_around) {
                            if at.saturating_sub(prev) < bt {
                                return Err(viol(
                                    "interval-spacing",
                                    format!(
                                        "trigger-produced block {h} committed {} ms after this node's previous block; block_time is {} ms",
                                        at.saturating_sub(prev).as_millis(),
                                        bt.as_millis()
                                    ),
                                ));
                            }
                        }
                        o.last_own_commit = Some(*at);
                        o.k_h = *h;
                        o.k_t = *t;
                        o.last_attempt = Some((*h, false));
                    } else {
                        o.last_attempt = Some((*h, true));
                    }
                }
                Ev::ExecCommit { h, t, ans, chain_h } => {
                    if *h != *chain_h + 1 {
                        notes.push("reconciliation import (execute_and_commit) requested for a height that does not extend the database tip: the previous reconciliation import failed and the loop went on to the next block");
                    }
                    if *ans == "ok" && *h > o.k_h {
                        o.k_h = *h;
                        o.k_t = *t;
                    }
                }
            }
        }
        w.oracle = o;
        for n in notes {
            self.note(n, w);
        }
        Ok(())
    }
}

// ---------------------------------------------------------------------------
// Entry point
// ---------------------------------------------------------------------------

pub fn run(cli: &Cli) {
    // thousands of short-lived services: skip the O(n) global metrics registration (verif hook)
    fuel_core_services::verif_metrics::use_unregistered_futures_metrics(true);
    let thorough = cli.tier == Tier::Thorough;
    // smallest state spaces first, so that a wall cap (slow machine) can only hit the largest one
    let triggers: Vec<(&str, Trigger)> = vec![
        ("Open10s", Trigger::Open { period: Duration::from_secs(BLOCK_TIME) }),
        ("Never", Trigger::Never),
        ("Never+peers", Trigger::Never),
        ("Instant+peers", Trigger::Instant),
        ("Interval10s", Trigger::Interval { block_time: Duration::from_secs(BLOCK_TIME) }),
        ("Instant", Trigger::Instant),
    ];
    // depth bound per trigger: (quick, thorough); thorough also allows 2 faults and the larger alphabet
    let depth_of = |name: &str| -> (usize, usize) {
        match name {
            "Open10s" => (6, 9),
            // peers configurations start after the Synced prologue
            "Never+peers" => (6, 7),
            "Instant+peers" => (5, 6),
            _ => (6, 7),
        }
    };
    let mk = |name: &str, trigger: Trigger, canon: CanonMode| Poa {
        name: format!("poa[{name},{canon:?}]"),
        trigger,
        canon,
        thorough,
        min_peers: if name.ends_with("+peers") { 1 } else { 0 },
        notes: Mutex::new(BTreeMap::new()),
    };
    if let Some(path) = &cli.replay {
        let rf = load_replay(path);
        for (n, t) in &triggers {
            for c in [CanonMode::State, CanonMode::History] {
                let s = mk(n, *t, c);
                if s.name() == rf.subject {
                    replay_and_exit(&s, &rf);
                }
            }
        }
        machinery_failure("replay: unknown subject");
    }
    if let Ok(which) = std::env::var("VH_POA_KEYS") {
        let (n, t) = triggers.iter().find(|(n, _)| *n == which).expect("trigger name");
        let s = mk(n, *t, CanonMode::State);
        let w0 = s.fresh();
        println!("[] => {}", s.state_key(&w0));
        for a in s.enabled(&w0) {
            let mut w1 = s.fresh();
            let o1 = s.step(&mut w1, &a);
            println!("{a:?} => {}\n      obs {:?}", s.state_key(&w1), o1.as_ref().map(|x| x.as_str()));
            for b in s.enabled(&w1) {
                if s.deviation(&a) + s.deviation(&b) > 1 {
                    continue;
                }
                let mut w2 = s.fresh();
                let _ = s.step(&mut w2, &a);
                let o2 = s.step(&mut w2, &b);
                println!("{a:?},{b:?} => {}\n      obs {:?}", s.state_key(&w2), o2.as_ref().map(|x| x.as_str()));
            }
        }
        return;
    }
    if std::env::var("VH_POA_BENCH").is_ok() {
        let s = mk("Interval10s", Trigger::Interval { block_time: Duration::from_secs(BLOCK_TIME) }, CanonMode::State);
        let t = std::time::Instant::now();
        for _ in 0..200 {
            let w = s.fresh();
            drop(w);
        }
        println!("fresh+drop: {:?} each", t.elapsed() / 200);
        for op in [Op::Advance, Op::Manual { n: 1, start: Start::None }, Op::NetBlock { ahead: false }, Op::Arm(Fault::CommitErr), Op::Wait1] {
            let mut ws: Vec<World> = (0..100).map(|_| s.fresh()).collect();
            let t = std::time::Instant::now();
            for w in ws.iter_mut() {
                let _ = s.step(w, &op);
            }
            println!("{op:?}: {:?} each", t.elapsed() / 100);
            let t = std::time::Instant::now();
            for w in ws.iter() {
                let _ = s.canon(w);
            }
            println!("  canon: {:?} each", t.elapsed() / 100);
        }
        return;
    }
    let mut run = Run::new(cli, "model_checking");
    let envn = |k: &str| std::env::var(k).ok().and_then(|v| v.parse::<u64>().ok());
    let depth_override = envn("VH_POA_DEPTH").map(|d| d as usize);
    let devs = cli.tier.pick(1, 2);
    let tree_depth = cli.tier.pick(3, 4);
    // one wall budget for the whole check; each search may use what is left of it
    let budget = envn("VH_POA_CAP").unwrap_or(cli.tier.pick(50u64, 1400));
    let t_start = std::time::Instant::now();
    let left = || budget.saturating_sub(t_start.elapsed().as_secs()).max(2);
    let mut notes: BTreeMap<String, (u64, String)> = BTreeMap::new();
    for (i, (n, t)) in triggers.iter().enumerate() {
        let (dq, dt) = depth_of(n);
        let depth = depth_override.unwrap_or(cli.tier.pick(dq, dt));
        // fair share of what is left of the budget for this trigger
        let share = (left() / (triggers.len() - i) as u64).max(2);
        let t_subject = std::time::Instant::now();
        let left = || share.saturating_sub(t_subject.elapsed().as_secs()).max(2);
        // (a) adequacy of the state key: a pure tree search (every history its own state) to a
        // smaller depth must not see any observation the merged search does not see
        let st = mk(n, *t, CanonMode::State);
        let rs = explore(&st, &Bounds::new(tree_depth, cli).deviations(devs).wall(left()));
        let tr = mk(n, *t, CanonMode::History);
        let rt = explore(&tr, &Bounds::new(tree_depth, cli).deviations(devs).wall(left()));
        // (b) state-merged search to the full depth
        let s = mk(n, *t, CanonMode::State);
        let r = explore(&s, &Bounds::new(depth, cli).deviations(devs).wall(left()).states(cli.tier.pick(300_000, 4_000_000)));
        if rs.exhaustive && rt.exhaustive && rs.violations.is_empty() && rt.violations.is_empty() && rs.distinct_observations != rt.distinct_observations {
            machinery_failure(&format!(
                "{n}: state key is not adequate: merged search sees {} distinct observations at depth {tree_depth}, the tree search {}",
                rs.distinct_observations, rt.distinct_observations
            ));
        }
        run.note(&format!("state_key_cross_check[{n}]"), json!({"depth": tree_depth, "completed": rs.exhaustive && rt.exhaustive, "merged_distinct_observations": rs.distinct_observations, "merged_states": rs.states, "tree_states": rt.states, "distinct_observations": rt.distinct_observations}));
        for subj in [&s, &st, &tr] {
            for (k, (c, ex)) in subj.notes.lock().unwrap().iter() {
                let e = notes.entry(k.clone()).or_insert((0, ex.clone()));
                e.0 += c;
            }
        }
        run.add(r);
        let mut rt = rt;
        rt.samples.truncate(1);
        run.add(rt);
    }
    run.note("max_yield_rounds_until_last_activity", json!(MAX_ACTIVE_ROUND.load(std::sync::atomic::Ordering::Relaxed)));
    run.note(
        "observations_outside_the_oracle",
        json!(notes.iter().map(|(k, (c, ex))| json!({"what": k, "executions": c, "first_history": ex})).collect::<Vec<_>>()),
    );
    run.assume("`latest known` height/timestamp = what has been delivered to the production task: the last block header given at start, its own successful commits, successful reconciliation imports, the database height answers it reads, and Synced(header) deliveries from its sync task (reported by a hook in ensure_synced)");
    run.assume("the oracle judges commit_result requests and produce_and_execute_block arguments (the property's observation points); reconciliation imports (execute_and_commit of blocks handed back by the leader-state port) only update the knowledge");
    run.assume("interval spacing is measured on the harness clock between this node's own successive successful commits when the later one is trigger-initiated");
    run.assume("ports answer immediately except the scripted producer hang; the database mock refuses blocks that do not extend its tip; network blocks are time-ordered and at chain height + 1");
    run.finish();
}
