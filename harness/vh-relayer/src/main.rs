//! vh-relayer: C29 (relayer records every DA block's events exactly once) and
//! C30 (producer advances the DA height to the largest fitting prefix).
mod c29;
mod c30;

fn main() {
    let cli = mcx::Cli::parse();
    match cli.property.as_str() {
        "C29" => c29::run(&cli),
        "C30" => c30::run(&cli),
        other => mcx::machinery_failure(&format!("vh-relayer does not serve {other}")),
    }
}
