//! C30 — the producer advances the DA height to the largest fitting prefix.
//!
//! Exhaustive finite-input sweep. Every case builds the REAL
//! `fuel_core_producer::Producer` with harness-owned ports and calls its public
//! production entry points (`produce_and_execute_block_txpool` and
//! `produce_and_execute_block_transactions`); the executor port records the
//! `da_height` of the header it is asked to execute.
use fuel_core_producer::{
    block_producer::gas_price::{ChainStateInfoProvider, GasPriceProvider},
    mocks::{MockDb, MockTxPool},
    ports::{BlockProducer, Relayer, RelayerBlockInfo},
    Config, Producer,
};
use fuel_core_storage::transactional::Changes;
use fuel_core_types::{
    blockchain::{
        block::{Block, PartialFuelBlock},
        header::{ApplicationHeader, ConsensusHeader, ConsensusParametersVersion, PartialBlockHeader},
        primitives::DaBlockHeight,
    },
    fuel_tx::{ConsensusParameters, Transaction},
    fuel_types::BlockHeight,
    services::{
        block_producer::Components,
        executor::{ExecutionResult, Result as ExecutorResult, UncommittedResult},
    },
    tai64::Tai64,
};
use mcx::*;
use serde::{Deserialize, Serialize};
use serde_json::json;
use std::collections::HashMap;
use std::sync::{Arc, Mutex};

/// The block transaction-count limit the statement talks about: a block holds at
/// most `u16::MAX` transactions including the final mint, hence at most
/// `u16::MAX - 1` relayed ones.
const TX_LIMIT: u64 = u16::MAX as u64 - 1;

#[derive(Clone, Debug, Serialize, Deserialize, Hash)]
pub struct Case {
    /// DA height of the parent block.
    p: u64,
    /// `f = p + df - 1`, i.e. df = 0 means finalized one behind the parent.
    df: u64,
    /// (gas cost, tx count) of DA heights p+1, p+2, ...
    profile: Vec<(u64, u64)>,
    gas_limit: u64,
    /// 0 = produce_and_execute_block_txpool, 1 = produce_and_execute_block_transactions
    entry: u8,
}

impl Case {
    fn finalized(&self) -> Option<u64> {
        finalized_of(self.p, self.df)
    }
}

/// f = p + df - 1 when that is a u64.
fn finalized_of(p: u64, df: u64) -> Option<u64> {
    if df == 0 {
        p.checked_sub(1)
    } else {
        p.checked_add(df - 1)
    }
}

// ---------------------------------------------------------------------------
// ports
// ---------------------------------------------------------------------------

#[derive(Default)]
struct RelayerState {
    finalized: u64,
    base: u64,
    profile: Vec<(u64, u64)>,
    waited_for: Vec<u64>,
    queried: Vec<u64>,
}

#[derive(Clone, Default)]
struct ScriptRelayer(Arc<Mutex<RelayerState>>);

#[async_trait::async_trait]
impl Relayer for ScriptRelayer {
    async fn wait_for_at_least_height(&self, height: &DaBlockHeight) -> anyhow::Result<DaBlockHeight> {
        let mut s = self.0.lock().unwrap();
        s.waited_for.push(height.0);
        Ok(DaBlockHeight(s.finalized))
    }

    async fn get_cost_and_transactions_number_for_block(&self, height: &DaBlockHeight) -> anyhow::Result<RelayerBlockInfo> {
        let mut s = self.0.lock().unwrap();
        s.queried.push(height.0);
        let idx = height.0.checked_sub(s.base + 1).map(|i| i as usize);
        match idx.and_then(|i| s.profile.get(i).copied()) {
            Some((gas_cost, tx_count)) => Ok(RelayerBlockInfo { gas_cost, tx_count }),
            // the relayer has no finalized data for this height
            None => Err(anyhow::anyhow!("relayer has no data for DA height {}", height.0)),
        }
    }
}

#[derive(Clone, Default)]
struct CaptureExecutor(Arc<Mutex<Vec<u64>>>);

impl BlockProducer<Vec<Transaction>> for CaptureExecutor {
    type Deadline = ();

    async fn produce_without_commit(&self, component: Components<Vec<Transaction>>, _: ()) -> ExecutorResult<UncommittedResult<Changes>> {
        self.0.lock().unwrap().push(component.header_to_produce.application.da_height.0);
        let block = Block::new(component.header_to_produce, component.transactions_source, &[], Default::default()).unwrap();
        Ok(UncommittedResult::new(
            ExecutionResult { block, skipped_transactions: vec![], tx_status: vec![], events: vec![] },
            Default::default(),
        ))
    }
}

struct FixedGasPrice;
impl GasPriceProvider for FixedGasPrice {
    fn production_gas_price(&self) -> anyhow::Result<u64> {
        Ok(0)
    }
    fn dry_run_gas_price(&self) -> anyhow::Result<u64> {
        Ok(0)
    }
}

struct FixedParams(Arc<ConsensusParameters>);
impl ChainStateInfoProvider for FixedParams {
    fn consensus_params_at_version(&self, _: &ConsensusParametersVersion) -> anyhow::Result<Arc<ConsensusParameters>> {
        Ok(self.0.clone())
    }
}

type P = Producer<MockDb, MockTxPool, CaptureExecutor, FixedGasPrice, FixedParams>;

const PARENT_HEIGHT: u32 = 1;

fn build(p: u64, gas_limit: u64) -> (P, ScriptRelayer, CaptureExecutor) {
    let parent = PartialFuelBlock {
        header: PartialBlockHeader {
            application: ApplicationHeader { da_height: DaBlockHeight(p), ..Default::default() },
            consensus: ConsensusHeader { height: BlockHeight::new(PARENT_HEIGHT), time: Tai64::UNIX_EPOCH, ..Default::default() },
        },
        transactions: vec![],
    }
    .generate(&[], Default::default())
    .unwrap()
    .compress(&Default::default());
    let db = MockDb {
        blocks: Arc::new(Mutex::new(HashMap::from_iter(Some((BlockHeight::new(PARENT_HEIGHT), parent))))),
        consensus_parameters_version: 0,
        state_transition_bytecode_version: 0,
    };
    let mut params = ConsensusParameters::default();
    params.set_block_gas_limit(gas_limit);
    let relayer = ScriptRelayer::default();
    let exec = CaptureExecutor::default();
    let producer = Producer {
        config: Config::default(),
        view_provider: db,
        txpool: MockTxPool::default(),
        executor: Arc::new(exec.clone()),
        relayer: Box::new(relayer.clone()),
        lock: Default::default(),
        gas_price_provider: FixedGasPrice,
        chain_state_info_provider: FixedParams(Arc::new(params)),
    };
    (producer, relayer, exec)
}

// ---------------------------------------------------------------------------
// oracle
// ---------------------------------------------------------------------------

#[derive(Debug, PartialEq, Eq)]
enum Expect {
    /// finalized < parent: neither "never decreases" nor "never passes the
    /// finalized height" can be met, production must fail
    MustFail,
    /// production must succeed with exactly this height
    Exactly(u64),
    /// nothing beyond the parent's height fits: failing ("fails rather than
    /// exceed") and staying at the parent's height (the literal maximum) both
    /// satisfy the statement
    FailOrStay,
}

/// Reference: mathematical (non-saturating) prefix sums.
fn expected(c: &Case) -> (Expect, &'static str) {
    let Some(f) = c.finalized() else { return (Expect::MustFail, "finalized-behind") };
    if f < c.p {
        return (Expect::MustFail, "finalized-behind");
    }
    if f == c.p {
        return (Expect::Exactly(c.p), "stay-nothing-new");
    }
    let (mut gas, mut cnt) = (0u128, 0u128);
    let mut best = c.p;
    let mut why = "advance-to-finalized";
    for (i, (g, n)) in c.profile.iter().enumerate() {
        let h = c.p + 1 + i as u64;
        if h > f {
            break;
        }
        gas += *g as u128;
        cnt += *n as u128;
        if gas > c.gas_limit as u128 {
            why = "stopped-by-gas";
            break;
        }
        if cnt > TX_LIMIT as u128 {
            why = "stopped-by-tx-count";
            break;
        }
        best = h;
    }
    if best == c.p {
        (Expect::FailOrStay, if why == "stopped-by-gas" { "nothing-fits-gas" } else { "nothing-fits-tx-count" })
    } else {
        (Expect::Exactly(best), why)
    }
}

fn run_case(prod: &P, relayer: &ScriptRelayer, exec: &CaptureExecutor, c: &Case) -> (Result<u64, String>, Vec<u64>, Vec<u64>) {
    {
        let mut s = relayer.0.lock().unwrap();
        // a finalized height "one behind height 0" does not exist; callers skip it
        s.finalized = c.finalized().unwrap_or(0);
        s.base = c.p;
        s.profile = c.profile.clone();
        s.waited_for.clear();
        s.queried.clear();
    }
    exec.0.lock().unwrap().clear();
    let h = BlockHeight::new(PARENT_HEIGHT + 1);
    let r = guarded(|| {
        futures::executor::block_on(async {
            if c.entry == 0 {
                prod.produce_and_execute_block_txpool(h, Tai64::UNIX_EPOCH, ()).await
            } else {
                prod.produce_and_execute_block_transactions(h, Tai64::UNIX_EPOCH, vec![]).await
            }
        })
    });
    let res = match r {
        Err(p) => Err(format!("PANIC: {p}")),
        Ok(Err(e)) => Err(format!("{e:#}")),
        Ok(Ok(u)) => Ok(u.into_result().block.header().da_height().0),
    };
    let executed = exec.0.lock().unwrap().clone();
    let queried = relayer.0.lock().unwrap().queried.clone();
    (res, executed, queried)
}

fn judge(c: &Case, res: &Result<u64, String>, executed: &[u64]) -> Result<(), Violation> {
    let (exp, _) = expected(c);
    let f = c.finalized();
    let ctx = || format!("p={} f={:?} gas_limit={} tx_limit={} profile={:?} entry={}", c.p, f, c.gas_limit, TX_LIMIT, c.profile, c.entry);
    if let Err(e) = res {
        if e.starts_with("PANIC") {
            return Err(viol("panic", format!("production panicked: {e}; {}", ctx())));
        }
    }
    // what the executor was asked to execute is the produced header
    match res {
        Ok(h) => {
            if executed != [*h] {
                return Err(viol("executed-header-mismatch", format!("block reports da_height {h} but the executor was asked to execute {executed:?}; {}", ctx())));
            }
            if *h < c.p {
                return Err(viol("da-height-decreased", format!("produced da_height {h} < parent's {}; {}", c.p, ctx())));
            }
            if f.map(|f| *h > f).unwrap_or(true) {
                return Err(viol("da-height-passed-finalized", format!("produced da_height {h} > finalized {f:?}; {}", ctx())));
            }
        }
        Err(_) => {
            if !executed.is_empty() {
                return Err(viol("failed-but-executed", format!("production failed but the executor ran with da_height {executed:?}; {}", ctx())));
            }
        }
    }
    match (&exp, res) {
        (Expect::MustFail, Err(_)) => Ok(()),
        (Expect::MustFail, Ok(h)) => Err(viol("produced-with-finalized-behind-parent", format!("expected failure, produced da_height {h}; {}", ctx()))),
        (Expect::Exactly(e), Ok(h)) if e == h => Ok(()),
        (Expect::Exactly(e), Ok(h)) if h > e => Err(viol("limits-exceeded", format!("expected da_height {e} (largest fitting), produced {h}: the relayed cost/tx count of {}..={h} exceeds the limits; {}", c.p + 1, ctx()))),
        (Expect::Exactly(e), Ok(h)) => Err(viol("not-the-largest-fitting-height", format!("expected da_height {e} (largest fitting), produced {h}; {}", ctx()))),
        (Expect::Exactly(e), Err(err)) => Err(viol("failed-although-a-height-fits", format!("expected da_height {e}, production failed: {err}; {}", ctx()))),
        (Expect::FailOrStay, Err(_)) => Ok(()),
        (Expect::FailOrStay, Ok(h)) if *h == c.p => Ok(()),
        (Expect::FailOrStay, Ok(h)) => Err(viol("limits-exceeded", format!("nothing beyond the parent's height fits, yet produced da_height {h}; {}", ctx()))),
    }
}

// ---------------------------------------------------------------------------
// sweep
// ---------------------------------------------------------------------------

fn pairs(tier: Tier) -> Vec<(u64, u64)> {
    let gas: Vec<u64> = vec![0, 1, 5, u64::MAX];
    let l = TX_LIMIT;
    let cnt: Vec<u64> = tier.pick(vec![0, 1, 3, l - 3, l, u64::MAX], vec![0, 1, 2, 3, l - 3, l - 1, l, l + 1, u64::MAX]);
    let mut v = vec![];
    for &g in &gas {
        for &n in &cnt {
            v.push((g, n));
        }
    }
    v
}

/// Reduced alphabet used next to u64::MAX parent heights.
fn edge_pairs() -> Vec<(u64, u64)> {
    let mut v = vec![];
    for g in [0, 5, u64::MAX] {
        for n in [0, TX_LIMIT, u64::MAX] {
            v.push((g, n));
        }
    }
    v
}

pub fn run(cli: &Cli) {
    if let Some(path) = &cli.replay {
        let rf = load_replay(path);
        let c: Case = serde_json::from_value(rf.history.clone()).unwrap_or_else(|e| machinery_failure(&format!("bad C30 replay: {e}")));
        let (prod, relayer, exec) = build(c.p, c.gas_limit);
        let (res, executed, queried) = run_case(&prod, &relayer, &exec, &c);
        println!("replay: case {c:?}\n  expected {:?}\n  observed result={res:?} executed={executed:?} relayer heights queried={queried:?}", expected(&c));
        match judge(&c, &res, &executed) {
            Ok(()) => {
                println!("replay: no violation");
                std::process::exit(0)
            }
            Err(v) => {
                println!("replay: violation {} / {}", v.sig, v.msg);
                println!("VIOLATION property=C30 replay=(replayed)");
                std::process::exit(1)
            }
        }
    }

    let mut run = Run::new(cli, "exploration");
    let pairs = pairs(cli.tier);
    let edge = edge_pairs();
    let max_k: usize = 4;
    // (parent DA height, entry points, use the full pair alphabet)
    let thorough = cli.tier == Tier::Thorough;
    let mut ps: Vec<(u64, Vec<u8>, bool)> = vec![
        (0, if thorough { vec![0, 1] } else { vec![0] }, true),
        (1, vec![0, 1], true),
        (2, if thorough { vec![0, 1] } else { vec![0] }, true),
    ];
    for p in [u64::MAX - 4, u64::MAX - 1, u64::MAX] {
        ps.push((p, vec![0, 1], false));
    }
    let mut gas_limits: Vec<u64> = vec![0, 5, 6];
    if thorough {
        gas_limits.extend([1, 10, u64::MAX - 1]);
    }
    if std::env::var("VH_C30_GAS_LIMIT_MAX").is_ok() {
        // outside the registered bounds: lets one look at block_gas_limit == u64::MAX
        gas_limits.push(u64::MAX);
    }
    // work items: (p, df, gas_limit, entry, first profile element, full alphabet)
    let mut items: Vec<(u64, u64, u64, u8, Option<(u64, u64)>, bool)> = vec![];
    for (p, entries, full) in &ps {
        let (p, full) = (*p, *full);
        for df in 0..=(max_k as u64 + 1) {
            // f = p + df - 1 must be a u64
            let Some(f) = finalized_of(p, df) else { continue };
            for &g in &gas_limits {
                for &entry in entries {
                    if f > p {
                        for &first in if full { &pairs } else { &edge } {
                            items.push((p, df, g, entry, Some(first), full));
                        }
                    } else {
                        items.push((p, df, g, entry, None, full));
                    }
                }
            }
        }
    }
    let ps_txt: Vec<String> = ps.iter().map(|(p, e, full)| format!("p={p} entries={e:?} {}", if *full { "full alphabet" } else { "reduced alphabet {0,5,MAX}x{0,limit,MAX}" })).collect();
    let rule = format!(
        "every (parent DA height / entry point in {ps_txt:?}) x (finalized f in p-1..=p+4 where representable) x (per-height (gas cost, tx count) in {} pairs: gas {{0,1,5,u64::MAX}} x counts around the tx limit {TX_LIMIT}) for each of the f-p heights x (block gas limit in {gas_limits:?}); entry 0 = produce_and_execute_block_txpool, 1 = produce_and_execute_block_transactions; non-trivial = f>p and a limit actually binds at or before f; distinct by the whole case",
        pairs.len()
    );
    let sw = par_sweep("Producer::produce_and_execute_block_* -> header.da_height", &rule, items.len(), cli.threads, |i, sw| {
        let (p, df, gas_limit, entry, first, full) = items[i];
        let pairs = if full { &pairs } else { &edge };
        let (prod, relayer, exec) = build(p, gas_limit);
        let k = df.saturating_sub(1) as usize; // number of new heights
        let eval = |profile: Vec<(u64, u64)>, sw: &mut Sweep| {
            let c = Case { p, df, profile, gas_limit, entry };
            let (res, executed, _) = run_case(&prod, &relayer, &exec, &c);
            let (exp, class) = expected(&c);
            let binds = class.starts_with("stopped") || class.starts_with("nothing-fits");
            let nontrivial = if binds { Some(hash_of(&c)) } else { None };
            let class = match (&exp, &res) {
                (Expect::FailOrStay, Ok(_)) => format!("{class}:stays"),
                (Expect::FailOrStay, Err(_)) => format!("{class}:fails"),
                _ => class.to_string(),
            };
            let verdict = judge(&c, &res, &executed);
            sw.case(nontrivial, &class, || serde_json::to_value(&c).unwrap(), verdict);
        };
        match first {
            None => eval(vec![], sw),
            Some(first) => {
                // odometer over the remaining k-1 heights
                let n = pairs.len();
                let rest = k - 1;
                let total = n.pow(rest as u32);
                for mut x in 0..total {
                    let mut profile = Vec::with_capacity(k);
                    profile.push(first);
                    for _ in 0..rest {
                        profile.push(pairs[x % n]);
                        x /= n;
                    }
                    eval(profile, sw);
                }
            }
        }
    });
    // vacuity: every class of outcome must have been met
    for class in ["finalized-behind", "stay-nothing-new", "advance-to-finalized", "stopped-by-gas", "stopped-by-tx-count"] {
        if !sw.outcomes.contains_key(class) {
            machinery_failure(&format!("C30: vacuous sweep, outcome class {class} never occurred"));
        }
    }
    if !sw.outcomes.keys().any(|k| k.starts_with("nothing-fits")) {
        machinery_failure("C30: vacuous sweep, the nothing-fits class never occurred");
    }
    run.add_sweep(sw);
    run.note("tx_count_limit", json!(TX_LIMIT));
    run.assume("the block limits are: gas = consensus parameters' block_gas_limit (as served by the ChainStateInfoProvider port for the header's version); tx count = u16::MAX - 1 relayed transactions (a block holds at most u16::MAX transactions including the mint); sums are mathematical (u128), not saturating");
    run.assume("when not even DA height p+1 fits, both a failed production and a block that stays at p satisfy the statement; when f < p production must fail; when f == p production must succeed at p");
    run.assume("the tx-count limit is a constant of the public entry points, so the count alphabet is chosen around that constant instead of varying the limit");
    run.finish();
}
