//! C29 — the relayer records every DA block's events exactly once.
//!
//! The REAL relayer task (`Task::run` -> `run::run` -> `download_logs` /
//! `write_logs` / `AdaptivePageSizer` / `RelayerDb::insert_events` over the real
//! `EventsHistory` table) is driven one provider call at a time on a
//! current-thread tokio runtime with a paused clock. The environment (a
//! harness-owned alloy `Provider`) is the alphabet: every `syncing` /
//! `get_block(finalized)` / `get_logs` call is answered by the explorer, either
//! truthfully or with a transport error / an RPC error response; between rounds
//! the finalized height of the DA chain may be raised.
//! Anything that breaks an assumption of the harness itself (two provider calls in
//! flight, an unexpected provider method, a write outside EventsHistory) is a
//! machinery failure, never a verdict.
use alloy_primitives::{Bytes, FixedBytes, IntoLogData, LogData, B256, U256};
use alloy_provider::{
    network::Ethereum,
    transport::{TransportError, TransportErrorKind, TransportResult},
    EthGetBlock, Provider, ProviderCall, RootProvider,
};
use alloy_rpc_client::NoParams;
use alloy_rpc_types_eth::{Block, BlockId, Filter, Log, SyncInfo, SyncStatus};
use fuel_core_relayer::{
    bridge::{MessageSent, Transaction as ForcedTx},
    ports::Transactional,
    storage::{Column, EventsHistory},
    verif_hooks::{HookedTask, PageSizerProbe},
    Config, SharedState,
};
use fuel_core_services::{State, StateWatcher, TaskNextAction};
use fuel_core_storage::{
    kv_store::{KeyValueInspect, StorageColumn, Value, WriteOperation},
    transactional::{Changes, Modifiable, ReadTransaction, StorageTransaction, WriteTransaction},
    Result as StorageResult, StorageAsRef,
};
use fuel_core_types::{
    blockchain::primitives::DaBlockHeight,
    entities::{
        relayer::{message::MessageV1, transaction::RelayedTransactionV1},
        Message, RelayedTransaction,
    },
    fuel_types::{Address, Nonce},
    services::relayer::Event,
};
use mcx::*;
use serde::{Deserialize, Serialize};
use serde_json::json;
use std::collections::BTreeMap;
use std::future::poll_fn;
use std::sync::atomic::{AtomicU64, Ordering};
use std::sync::{Arc, Mutex};
use std::task::{Poll, Waker};

// ---------------------------------------------------------------------------
// DA chain: per block a list of logs (kind, log index)
// ---------------------------------------------------------------------------

#[derive(Clone, Copy, Debug, PartialEq, Eq, Serialize, Deserialize)]
pub enum Kind {
    /// MessageSent
    M,
    /// forced Transaction
    T,
    /// an event with an unknown signature (must be ignored)
    U,
}

#[derive(Clone, Debug, Serialize, Deserialize)]
pub struct Layout {
    /// blocks[h] = logs of DA block h as (kind, log index), in the order the
    /// node lists them inside a response (deliberately not by index)
    pub blocks: Vec<Vec<(Kind, u64)>>,
    /// true: a response lists the blocks of the page newest first
    pub newest_first: bool,
}

struct Chain {
    contract: alloy_primitives::Address,
    /// per block: the logs in response order
    logs: Vec<Vec<Log>>,
    /// per block: the fuel events ordered by log index (reference)
    expected: Vec<Vec<Event>>,
    newest_first: bool,
}

fn seed_of(h: u64, idx: u64) -> u64 {
    h * 16 + idx + 1
}

fn b32(seed: u64, salt: u8) -> [u8; 32] {
    let mut b = [salt; 32];
    b[24..].copy_from_slice(&seed.to_be_bytes());
    b
}

impl Chain {
    fn new(layout: &Layout, contract: alloy_primitives::Address) -> Chain {
        let mut logs = vec![];
        let mut expected = vec![];
        for (h, specs) in layout.blocks.iter().enumerate() {
            let h = h as u64;
            let mut block_logs = vec![];
            let mut block_events: Vec<(u64, Event)> = vec![];
            for &(kind, idx) in specs {
                let seed = seed_of(h, idx);
                let data: LogData = match kind {
                    Kind::M => {
                        let payload = vec![seed as u8; (seed % 3) as usize];
                        block_events.push((
                            idx,
                            Event::Message(Message::from(MessageV1 {
                                sender: Address::from(b32(seed, 0xa1)),
                                recipient: Address::from(b32(seed, 0xb2)),
                                nonce: Nonce::new(U256::from(seed).to_be_bytes::<32>()),
                                amount: seed * 3,
                                data: payload.clone(),
                                da_height: DaBlockHeight(h),
                            })),
                        ));
                        MessageSent {
                            sender: FixedBytes::from(b32(seed, 0xa1)),
                            recipient: FixedBytes::from(b32(seed, 0xb2)),
                            nonce: U256::from(seed),
                            amount: seed * 3,
                            data: Bytes::from(payload),
                        }
                        .to_log_data()
                    }
                    Kind::T => {
                        let payload = vec![(seed as u8) ^ 0x5a; 1 + (seed % 2) as usize];
                        block_events.push((
                            idx,
                            Event::Transaction(RelayedTransaction::from(RelayedTransactionV1 {
                                nonce: Nonce::new(U256::from(seed + 1000).to_be_bytes::<32>()),
                                max_gas: seed * 7,
                                serialized_transaction: payload.clone(),
                                da_height: DaBlockHeight(h),
                            })),
                        ));
                        ForcedTx { nonce: U256::from(seed + 1000), max_gas: seed * 7, canonically_serialized_tx: Bytes::from(payload) }.to_log_data()
                    }
                    Kind::U => LogData::new_unchecked(vec![B256::repeat_byte(0x99), B256::repeat_byte(seed as u8)], Bytes::from(vec![1u8, 2, 3])),
                };
                block_logs.push(Log {
                    inner: alloy_primitives::Log { address: contract, data },
                    block_hash: None,
                    block_number: Some(h),
                    block_timestamp: None,
                    transaction_hash: None,
                    transaction_index: None,
                    log_index: Some(idx),
                    removed: false,
                });
            }
            block_events.sort_by_key(|(i, _)| *i);
            logs.push(block_logs);
            expected.push(block_events.into_iter().map(|(_, e)| e).collect());
        }
        Chain { contract, logs, expected, newest_first: layout.newest_first }
    }

    fn len(&self) -> u64 {
        self.logs.len() as u64
    }

    /// What the node reports for `from..=to`.
    fn response(&self, filter: &Filter, from: u64, to: u64) -> Vec<Log> {
        let mut hs: Vec<u64> = (from..=to.min(self.len().saturating_sub(1))).collect();
        if self.newest_first {
            hs.reverse();
        }
        let mut out = vec![];
        for h in hs {
            for l in &self.logs[h as usize] {
                if filter.matches_address(l.address()) {
                    out.push(l.clone());
                }
            }
        }
        out
    }
}

// ---------------------------------------------------------------------------
// the scripted provider
// ---------------------------------------------------------------------------

#[derive(Clone, Debug, PartialEq, Eq, Serialize)]
enum Req {
    Syncing,
    GetBlock,
    GetLogs { from: u64, to: u64 },
}

#[derive(Clone, Copy, Debug, PartialEq, Eq)]
enum Ans {
    Ok,
    StillSyncing,
    BlockPending,
    Transport,
    Rpc,
}

struct Prov {
    finalized: u64,
    pending: Option<Req>,
    answer: Option<Ans>,
    waker: Option<Waker>,
    round_done: Option<bool>,
    /// unexpected use of the provider by the relayer
    misuse: Option<String>,
}

struct Shared {
    chain: Chain,
    st: Mutex<Prov>,
    /// wakes the driver (a request was posted / the round ended)
    event: tokio::sync::Notify,
    /// tells the runner task to run one more iteration
    start: tokio::sync::Notify,
}

#[derive(Clone)]
struct ScriptedProvider(Arc<Shared>);

impl ScriptedProvider {
    async fn ask(&self, req: Req) -> Ans {
        {
            let mut s = self.0.st.lock().unwrap();
            if s.pending.is_some() {
                s.misuse = Some(format!("two provider calls in flight: {:?} and {req:?}", s.pending));
            }
            s.pending = Some(req);
            s.answer = None;
        }
        self.0.event.notify_one();
        poll_fn(|cx| {
            let mut s = self.0.st.lock().unwrap();
            match s.answer.take() {
                Some(a) => {
                    s.pending = None;
                    s.waker = None;
                    Poll::Ready(a)
                }
                None => {
                    s.waker = Some(cx.waker().clone());
                    Poll::Pending
                }
            }
        })
        .await
    }
}

fn transport_err<T>() -> TransportResult<T> {
    Err(TransportErrorKind::custom_str("injected transport failure"))
}

fn rpc_err<T>() -> TransportResult<T> {
    Err(TransportError::ErrorResp(alloy_json_rpc::ErrorPayload {
        code: -32005,
        message: "query returned more than 10000 results".into(),
        data: None,
    }))
}

#[async_trait::async_trait]
impl Provider for ScriptedProvider {
    fn root(&self) -> &RootProvider<Ethereum> {
        unreachable!("the relayer must only use syncing / get_block / get_logs")
    }

    fn get_block(&self, block: BlockId) -> EthGetBlock<<Ethereum as alloy_provider::Network>::BlockResponse> {
        let this = self.clone();
        EthGetBlock::new_provider(
            block,
            Box::new(move |_| {
                let this = this.clone();
                ProviderCall::BoxedFuture(Box::pin(async move {
                    if !matches!(block, BlockId::Number(alloy_rpc_types_eth::BlockNumberOrTag::Finalized)) {
                        this.0.st.lock().unwrap().misuse = Some(format!("get_block({block:?}) instead of the finalized block"));
                    }
                    match this.ask(Req::GetBlock).await {
                        Ans::Ok => {
                            let mut b: Block = Block::default();
                            b.header.inner.number = this.0.st.lock().unwrap().finalized;
                            Ok(Some(b))
                        }
                        Ans::BlockPending => Ok(None),
                        Ans::Rpc => rpc_err(),
                        _ => transport_err(),
                    }
                }))
            }),
        )
    }

    async fn get_logs(&self, filter: &Filter) -> TransportResult<Vec<Log>> {
        let (from, to) = match (filter.get_from_block(), filter.get_to_block()) {
            (Some(f), Some(t)) => (f, t),
            other => {
                self.0.st.lock().unwrap().misuse = Some(format!("get_logs without a numeric block range: {other:?}"));
                (0, 0)
            }
        };
        match self.ask(Req::GetLogs { from, to }).await {
            Ans::Ok => Ok(self.0.chain.response(filter, from, to)),
            Ans::Rpc => rpc_err(),
            _ => transport_err(),
        }
    }

    fn syncing(&self) -> ProviderCall<NoParams, SyncStatus> {
        let this = self.clone();
        ProviderCall::BoxedFuture(Box::pin(async move {
            match this.ask(Req::Syncing).await {
                Ans::Ok => Ok(SyncStatus::None),
                Ans::StillSyncing => Ok(SyncStatus::Info(Box::new(SyncInfo {
                    starting_block: U256::from(0u64),
                    current_block: U256::from(1u64),
                    highest_block: U256::from(2u64),
                    warp_chunks_amount: None,
                    warp_chunks_processed: None,
                    stages: None,
                }))),
                Ans::Rpc => rpc_err(),
                _ => transport_err(),
            }
        }))
    }
}

// ---------------------------------------------------------------------------
// storage: the real EventsHistory table over a recording in-memory KV store
// ---------------------------------------------------------------------------

#[derive(Default)]
struct StoreInner {
    map: BTreeMap<(u32, Vec<u8>), Value>,
    /// every committed write to the History column: (height, value bytes or None for a removal)
    writes: Vec<(u64, Option<Vec<u8>>)>,
    /// committed writes elsewhere / with a malformed key
    odd_writes: Vec<String>,
}

#[derive(Clone, Default)]
struct Db(Arc<Mutex<StoreInner>>);

impl KeyValueInspect for Db {
    type Column = Column;

    fn get(&self, key: &[u8], column: Column) -> StorageResult<Option<Value>> {
        Ok(self.0.lock().unwrap().map.get(&(column.id(), key.to_vec())).cloned())
    }
}

impl Modifiable for Db {
    fn commit_changes(&mut self, changes: Changes) -> StorageResult<()> {
        let mut s = self.0.lock().unwrap();
        let mut cols: Vec<_> = changes.into_iter().collect();
        cols.sort_by_key(|(c, _)| *c);
        for (col, ops) in cols {
            for (key, op) in ops {
                let key: Vec<u8> = key.into();
                if col == Column::History.id() && key.len() == 8 {
                    let h = u64::from_be_bytes(key.clone().try_into().unwrap());
                    match &op {
                        WriteOperation::Insert(v) => s.writes.push((h, Some(v.to_vec()))),
                        WriteOperation::Remove => s.writes.push((h, None)),
                    }
                } else {
                    s.odd_writes.push(format!("column {col} key {key:?}"));
                }
                match op {
                    WriteOperation::Insert(v) => {
                        s.map.insert((col, key), v);
                    }
                    WriteOperation::Remove => {
                        s.map.remove(&(col, key));
                    }
                }
            }
        }
        Ok(())
    }
}

impl Transactional for Db {
    type Transaction<'a>
        = StorageTransaction<&'a mut Self>
    where
        Self: 'a;

    fn transaction(&mut self) -> Self::Transaction<'_> {
        self.write_transaction()
    }

    /// Like fuel-core's relayer database: the highest DA height committed so far.
    fn latest_da_height(&self) -> Option<DaBlockHeight> {
        let s = self.0.lock().unwrap();
        s.map
            .keys()
            .filter(|(c, k)| *c == Column::History.id() && k.len() == 8)
            .map(|(_, k)| u64::from_be_bytes(k.clone().try_into().unwrap()))
            .max()
            .map(DaBlockHeight)
    }
}

// ---------------------------------------------------------------------------
// subject
// ---------------------------------------------------------------------------

#[derive(Clone, Debug, Serialize, Deserialize)]
pub struct Cfg {
    pub layout: Layout,
    /// `da_deploy_height`
    pub start: u64,
    pub page: u64,
    pub max_logs: u64,
    pub grow: u64,
    /// finalized height the DA node reports at the beginning
    pub finalized0: u64,
    /// whether the explorer may raise the finalized height
    pub raise: bool,
}

#[derive(Clone, Copy, Debug, PartialEq, Eq, Serialize, Deserialize)]
pub enum Op {
    /// run one iteration of the relayer's run loop (up to its first provider call)
    Start,
    /// the DA node finalizes one more block
    Raise,
    /// answer the pending provider call truthfully
    Ok,
    /// `eth_syncing` answers "still syncing"
    StillSyncing,
    /// `eth_getBlockByNumber(finalized)` answers null
    BlockPending,
    /// the pending call fails in the transport
    TransportErr,
    /// the pending call gets a JSON-RPC error response
    RpcErr,
}

#[derive(Default)]
pub struct Stats {
    shrink_on_rpc_error: AtomicU64,
    shrink_on_too_many_logs: AtomicU64,
    grow: AtomicU64,
    transport_error_keeps_size: AtomicU64,
    round_failed_after_partial_write: AtomicU64,
    fully_synced: AtomicU64,
    ignored_event_seen: AtomicU64,
    out_of_order_response: AtomicU64,
}

impl Stats {
    fn json(&self) -> serde_json::Value {
        json!({
            "shrink_on_rpc_error": self.shrink_on_rpc_error.load(Ordering::Relaxed),
            "shrink_on_too_many_logs": self.shrink_on_too_many_logs.load(Ordering::Relaxed),
            "grow": self.grow.load(Ordering::Relaxed),
            "transport_error_keeps_size": self.transport_error_keeps_size.load(Ordering::Relaxed),
            "round_failed_after_partial_write": self.round_failed_after_partial_write.load(Ordering::Relaxed),
            "fully_synced_to_chain_tip": self.fully_synced.load(Ordering::Relaxed),
            "pages_with_ignored_event": self.ignored_event_seen.load(Ordering::Relaxed),
            "pages_answered_out_of_log_index_order": self.out_of_order_response.load(Ordering::Relaxed),
        })
    }
}

pub struct RelayerSubject {
    pub name: String,
    pub cfg: Cfg,
    pub stats: Arc<Stats>,
}

pub struct World {
    rt: tokio::runtime::Runtime,
    shared: Arc<Shared>,
    db: Db,
    probe: PageSizerProbe,
    sync: SharedState,
    _state_tx: tokio::sync::watch::Sender<State>,
    in_round: bool,
    db_at_round_start: Option<u64>,
    /// monotonicity trackers
    max_db_synced: Option<u64>,
    max_shared_synced: u64,
}

impl World {
    fn settle(&self) {
        let shared = self.shared.clone();
        self.rt.block_on(async move {
            loop {
                {
                    let s = shared.st.lock().unwrap();
                    if (s.pending.is_some() && s.answer.is_none()) || s.round_done.is_some() {
                        break;
                    }
                }
                shared.event.notified().await;
            }
        });
    }

    fn sizer(&self) -> (u64, u64, u64) {
        (self.probe[0].load(Ordering::SeqCst), self.probe[1].load(Ordering::SeqCst), self.probe[2].load(Ordering::SeqCst))
    }

    fn db_latest(&self) -> Option<u64> {
        self.db.latest_da_height().map(|h| h.0)
    }

    fn shared_sync(&self) -> (u64, bool) {
        (self.sync.get_finalized_da_height().0, self.sync.verif_is_synced())
    }
}

impl RelayerSubject {
    pub fn new(name: String, cfg: Cfg, stats: Arc<Stats>) -> Self {
        RelayerSubject { name, cfg, stats }
    }

    fn chain_tip(&self) -> u64 {
        self.cfg.layout.blocks.len() as u64 - 1
    }

    /// first DA height the relayer is responsible for
    fn lo(&self) -> u64 {
        self.cfg.start.max(1)
    }

    fn oracle(&self, w: &mut World) -> Result<(), Violation> {
        let chain = &w.shared.chain;
        if let Some(m) = w.shared.st.lock().unwrap().misuse.clone() {
            machinery_failure(&format!("C29: harness assumption broken: {}", m));
        }
        let db_latest = w.db_latest();
        let (shared_h, _) = w.shared_sync();
        // synced heights never decrease
        if let Some(prev) = w.max_db_synced {
            if db_latest.map(|d| d < prev).unwrap_or(true) {
                return Err(viol("synced-height-decreased:database", format!("RelayerDb::get_finalized_da_height went from {prev} to {db_latest:?}")));
            }
        }
        w.max_db_synced = db_latest;
        if shared_h < w.max_shared_synced {
            return Err(viol("synced-height-decreased:shared-state", format!("SharedState::get_finalized_da_height went from {} to {shared_h}", w.max_shared_synced)));
        }
        w.max_shared_synced = shared_h;
        // every height up to the synced height holds exactly the reported events
        let lo = self.lo();
        let synced = db_latest.unwrap_or(0).max(shared_h);
        let reader = w.db.read_transaction();
        for h in lo..=synced {
            let stored = reader
                .storage_as_ref::<EventsHistory>()
                .get(&DaBlockHeight(h))
                .map_err(|e| viol("stored-events-unreadable", format!("EventsHistory[{h}] cannot be decoded: {e:?}")))?;
            let which = if db_latest.map(|d| h <= d).unwrap_or(false) { "database" } else { "shared-state" };
            match stored {
                None => {
                    return Err(viol(
                        format!("height-skipped:{which}"),
                        format!("DA height {h} has no EventsHistory entry although the synced height is {synced} (database {db_latest:?}, shared state {shared_h}); first recorded height is {lo}"),
                    ))
                }
                Some(stored) => {
                    let expected: &[Event] = chain.expected.get(h as usize).map(|v| v.as_slice()).unwrap_or(&[]);
                    if stored.as_slice() != expected {
                        let mut a: Vec<String> = stored.iter().map(|e| format!("{:?}", e.hash())).collect();
                        let mut b: Vec<String> = expected.iter().map(|e| format!("{:?}", e.hash())).collect();
                        a.sort();
                        b.sort();
                        let class = if a == b { "wrong-order" } else if stored.len() < expected.len() { "events-missing" } else if stored.len() > expected.len() { "extra-events" } else { "wrong-events" };
                        return Err(viol(
                            format!("stored-events-differ:{class}"),
                            format!("DA height {h}: expected {} event(s) {:?} (by log index), stored {} event(s) {:?}", expected.len(), brief(expected), stored.len(), brief(&stored)),
                        ));
                    }
                }
            }
        }
        // no height written twice
        let s = w.db.0.lock().unwrap();
        if let Some(o) = s.odd_writes.first() {
            machinery_failure(&format!("C29: harness assumption broken: {}", format!("unexpected storage write: {o}")));
        }
        let mut seen: BTreeMap<u64, &Option<Vec<u8>>> = BTreeMap::new();
        for (h, v) in &s.writes {
            if v.is_none() {
                return Err(viol("height-removed", format!("EventsHistory[{h}] was removed")));
            }
            if let Some(prev) = seen.insert(*h, v) {
                let class = if prev == v { "same-content" } else { "different-content" };
                return Err(viol(format!("height-written-twice:{class}"), format!("EventsHistory[{h}] was committed twice ({class})")));
            }
        }
        Ok(())
    }
}

fn brief(ev: &[Event]) -> Vec<String> {
    ev.iter()
        .map(|e| match e {
            Event::Message(m) => format!("M(h={},amount={})", m.da_height().0, m.amount()),
            Event::Transaction(t) => format!("T(h={},max_gas={})", t.da_height().0, t.max_gas()),
        })
        .collect()
}

impl Subject for RelayerSubject {
    type World = World;
    type Op = Op;

    fn name(&self) -> String {
        self.name.clone()
    }

    fn fresh(&self) -> World {
        let rt = tokio::runtime::Builder::new_current_thread().enable_time().start_paused(true).build().expect("tokio runtime");
        let config = Config {
            da_deploy_height: DaBlockHeight(self.cfg.start),
            log_page_size: self.cfg.page,
            max_logs_per_rpc: self.cfg.max_logs,
            ..Config::default()
        };
        let chain = Chain::new(&self.cfg.layout, config.eth_v2_listening_contracts[0]);
        debug_assert_eq!(chain.contract, config.eth_v2_listening_contracts[0]);
        let shared = Arc::new(Shared {
            chain,
            st: Mutex::new(Prov { finalized: self.cfg.finalized0, pending: None, answer: None, waker: None, round_done: None, misuse: None }),
            event: tokio::sync::Notify::new(),
            start: tokio::sync::Notify::new(),
        });
        let db = Db::default();
        let (state_tx, state_rx) = tokio::sync::watch::channel(State::Started);
        let watcher: StateWatcher = state_rx.into();
        // retry_on_error = true as in production (`new_service`)
        let (mut task, sync, probe) = HookedTask::new(ScriptedProvider(shared.clone()), db.clone(), config, true, watcher, self.cfg.grow);
        let sh = shared.clone();
        rt.spawn(async move {
            loop {
                sh.start.notified().await;
                let action = task.run_once().await;
                let ok = matches!(action, TaskNextAction::Continue);
                if matches!(action, TaskNextAction::Stop) {
                    sh.st.lock().unwrap().misuse = Some("the task asked to stop although retry_on_error is set".into());
                }
                sh.st.lock().unwrap().round_done = Some(ok);
                sh.event.notify_one();
            }
        });
        let max_shared_synced = sync.get_finalized_da_height().0;
        World { rt, shared, db, probe, sync, _state_tx: state_tx, in_round: false, db_at_round_start: None, max_db_synced: None, max_shared_synced }
    }

    fn enabled(&self, w: &World) -> Vec<Op> {
        let s = w.shared.st.lock().unwrap();
        if !w.in_round {
            let mut v = vec![Op::Start];
            if self.cfg.raise && s.finalized < self.chain_tip() {
                v.push(Op::Raise);
            }
            return v;
        }
        match s.pending {
            Some(Req::Syncing) => vec![Op::Ok, Op::StillSyncing, Op::TransportErr, Op::RpcErr],
            Some(Req::GetBlock) => vec![Op::Ok, Op::BlockPending, Op::TransportErr, Op::RpcErr],
            Some(Req::GetLogs { .. }) => vec![Op::Ok, Op::TransportErr, Op::RpcErr],
            None => vec![],
        }
    }

    fn deviation(&self, op: &Op) -> u32 {
        match op {
            Op::Start | Op::Raise | Op::Ok => 0,
            _ => 1,
        }
    }

    fn step(&self, w: &mut World, op: &Op) -> Result<String, Violation> {
        let sizer_before = w.sizer();
        let db_before = w.db_latest();
        let mut round_result: Option<bool> = None;
        let mut answered: Option<Req> = None;
        match op {
            Op::Raise => {
                if w.in_round {
                    machinery_failure(&format!("C29: harness assumption broken: {}", "Raise inside a round"));
                }
                w.shared.st.lock().unwrap().finalized += 1;
            }
            Op::Start => {
                if w.in_round {
                    machinery_failure(&format!("C29: harness assumption broken: {}", "Start inside a round"));
                }
                w.in_round = true;
                w.db_at_round_start = db_before;
                w.shared.start.notify_one();
                w.settle();
            }
            ans => {
                let a = match ans {
                    Op::Ok => Ans::Ok,
                    Op::StillSyncing => Ans::StillSyncing,
                    Op::BlockPending => Ans::BlockPending,
                    Op::TransportErr => Ans::Transport,
                    _ => Ans::Rpc,
                };
                {
                    let mut s = w.shared.st.lock().unwrap();
                    let Some(req) = s.pending.clone() else {
                        machinery_failure(&format!("C29: harness assumption broken: {}", format!("{op:?} without a pending provider call")));
                    };
                    let applicable = match (&req, a) {
                        (_, Ans::Ok | Ans::Transport | Ans::Rpc) => true,
                        (Req::Syncing, Ans::StillSyncing) => true,
                        (Req::GetBlock, Ans::BlockPending) => true,
                        _ => false,
                    };
                    if !applicable {
                        machinery_failure(&format!("C29: harness assumption broken: {}", format!("{op:?} does not answer {req:?}")));
                    }
                    answered = Some(req);
                    s.answer = Some(a);
                    if let Some(wk) = s.waker.take() {
                        wk.wake();
                    }
                }
                w.settle();
            }
        }
        if w.in_round {
            let mut s = w.shared.st.lock().unwrap();
            if let Some(ok) = s.round_done.take() {
                round_result = Some(ok);
                w.in_round = false;
            }
        }
        // statistics for the vacuity guards
        let sizer = w.sizer();
        let db_after = w.db_latest();
        if let Some(Req::GetLogs { from, to }) = &answered {
            let st = &self.stats;
            if sizer.0 < sizer_before.0 {
                if *op == Op::RpcErr {
                    st.shrink_on_rpc_error.fetch_add(1, Ordering::Relaxed);
                } else {
                    st.shrink_on_too_many_logs.fetch_add(1, Ordering::Relaxed);
                }
            }
            if sizer.0 > sizer_before.0 {
                st.grow.fetch_add(1, Ordering::Relaxed);
            }
            if *op == Op::TransportErr && sizer == sizer_before {
                st.transport_error_keeps_size.fetch_add(1, Ordering::Relaxed);
            }
            if *op == Op::Ok {
                let resp = w.shared.chain.response(&Filter::new(), *from, *to);
                if resp.iter().any(|l| l.topics().first() == Some(&B256::repeat_byte(0x99))) {
                    st.ignored_event_seen.fetch_add(1, Ordering::Relaxed);
                }
                if resp.windows(2).any(|p| (p[0].block_number, p[0].log_index) > (p[1].block_number, p[1].log_index)) {
                    st.out_of_order_response.fetch_add(1, Ordering::Relaxed);
                }
            }
        }
        if round_result == Some(false) && db_after != w.db_at_round_start {
            self.stats.round_failed_after_partial_write.fetch_add(1, Ordering::Relaxed);
        }
        if db_after == Some(self.chain_tip()) && db_before != db_after {
            self.stats.fully_synced.fetch_add(1, Ordering::Relaxed);
        }
        self.oracle(w)?;
        let s = w.shared.st.lock().unwrap();
        Ok(format!(
            "next={:?} round={} db={:?} shared={:?} sizer={:?} finalized={}",
            s.pending,
            match round_result {
                Some(true) => "ok",
                Some(false) => "err",
                None => "-",
            },
            db_after,
            w.shared_sync(),
            sizer,
            s.finalized
        ))
    }

    fn canon(&self, w: &World) -> Vec<u8> {
        let s = w.shared.st.lock().unwrap();
        let db = w.db.0.lock().unwrap();
        let dump: Vec<(&(u32, Vec<u8>), &[u8])> = db.map.iter().map(|(k, v)| (k, v.as_ref())).collect();
        serde_json::to_vec(&(w.in_round, &s.pending, s.finalized, w.shared_sync(), w.sizer(), dump, db.writes.len())).unwrap()
    }

    fn interesting(&self, op: &Op, obs: &str) -> bool {
        // a fault was injected, or the round ended / a page was written
        self.deviation(op) > 0 || !obs.contains("round=-") || matches!(op, Op::Ok)
    }

    fn required_labels(&self) -> Vec<String> {
        let mut v: Vec<String> = ["Start", "Ok", "StillSyncing", "BlockPending", "TransportErr", "RpcErr"].iter().map(|s| s.to_string()).collect();
        if self.cfg.raise {
            v.push("Raise".into());
        }
        v
    }
}

// ---------------------------------------------------------------------------
// configurations
// ---------------------------------------------------------------------------

use Kind::*;

fn layouts(n_blocks: usize, thorough: bool) -> Vec<(&'static str, Layout)> {
    // patterns repeat over the chain; log indexes inside a block are listed out of order
    let dense: Vec<Vec<(Kind, u64)>> = vec![vec![(T, 1), (M, 0)], vec![(M, 3), (U, 2)], vec![(T, 5), (T, 4)], vec![(U, 1), (M, 0)], vec![(M, 2), (M, 1)]];
    let sparse: Vec<Vec<(Kind, u64)>> = vec![vec![], vec![(M, 7)], vec![], vec![(T, 1), (M, 0)], vec![(U, 0)], vec![]];
    let bursty: Vec<Vec<(Kind, u64)>> = vec![vec![(M, 0)], vec![], vec![(T, 9), (M, 4)], vec![(M, 0)], vec![(T, 2), (U, 1)], vec![], vec![]];
    let mk = |pat: &Vec<Vec<(Kind, u64)>>, newest_first: bool, shift: usize| Layout {
        blocks: (0..n_blocks).map(|h| if h == 0 { vec![] } else { pat[(h + shift) % pat.len()].clone() }).collect(),
        newest_first,
    };
    let mut v = vec![("dense", mk(&dense, true, 0)), ("sparse", mk(&sparse, true, 0)), ("bursty", mk(&bursty, false, 0))];
    if thorough {
        v.push(("dense-shifted", mk(&dense, false, 2)));
    }
    v
}

fn subjects(cli: &Cli, stats: &Arc<Stats>) -> Vec<RelayerSubject> {
    let thorough = cli.tier == Tier::Thorough;
    let n_blocks = cli.tier.pick(7, 10); // DA heights 0..=6 / 0..=9
    let mut v = vec![];
    for (lname, layout) in layouts(n_blocks, thorough) {
        for start in [0u64, 2] {
            for page in [1u64, 2, 5] {
                let knobs: Vec<(u64, u64)> = if thorough {
                    vec![(2, 2), (3, 1), (1000, 3)]
                } else if lname == "dense" {
                    vec![(2, 2), (1000, 1)]
                } else {
                    vec![(2, 2)]
                };
                for (max_logs, grow) in knobs {
                    let cfg = Cfg { layout: layout.clone(), start, page, max_logs, grow, finalized0: 0, raise: true };
                    v.push(RelayerSubject::new(format!("relayer[{lname},deploy={start},page={page},max_logs={max_logs},grow={grow},tip={}]", n_blocks - 1), cfg, stats.clone()));
                }
            }
        }
    }
    v
}

// ---------------------------------------------------------------------------
// exhaustive log-set sweep (failure-free runs over every small layout)
// ---------------------------------------------------------------------------

fn block_options() -> Vec<Vec<(Kind, u64)>> {
    let kinds = [M, T, U];
    let mut v: Vec<Vec<(Kind, u64)>> = vec![vec![]];
    for k in kinds {
        v.push(vec![(k, 0)]);
    }
    for a in kinds {
        for b in kinds {
            // listed with the higher log index first
            v.push(vec![(a, 3), (b, 1)]);
        }
    }
    v
}

fn layout_sweep(cli: &Cli, stats: &Arc<Stats>) -> Sweep {
    let opts = block_options();
    let heights: usize = cli.tier.pick(4, 5);
    let total = opts.len().pow(heights as u32);
    let orders: Vec<bool> = cli.tier.pick(vec![true], vec![true, false]);
    let rule = format!(
        "every DA chain of {heights} blocks (heights 1..={heights}) where each block carries one of {} log lists (none; one of message/forced tx/unknown; every ordered pair of those with the higher log index listed first) x response order ({}) x log_page_size {{1,2,5}} x da_deploy_height {{0,2}}; max_logs_per_rpc=2, grow threshold 1 so that pages shrink and grow; one failure-free sync to the tip, oracle after every provider answer; non-trivial = at least one block with two logs or an unknown event; distinct by the whole layout and configuration",
        opts.len(),
        if orders.len() == 2 { "newest block first / oldest first" } else { "newest block first, i.e. descending (block, log index)" }
    );
    par_sweep("all small DA log sets, failure-free sync", &rule, total, cli.threads, |i, sw| {
        let mut x = i;
        let mut blocks: Vec<Vec<(Kind, u64)>> = vec![vec![]];
        for _ in 0..heights {
            blocks.push(opts[x % opts.len()].clone());
            x /= opts.len();
        }
        let nontrivial = blocks.iter().any(|b| b.len() == 2 || b.iter().any(|(k, _)| *k == U));
        for &newest_first in &orders {
            for start in [0u64, 2] {
                for page in [1u64, 2, 5] {
                    let cfg = Cfg { layout: Layout { blocks: blocks.clone(), newest_first }, start, page, max_logs: 2, grow: 1, finalized0: heights as u64, raise: false };
                    let s = RelayerSubject::new("layout-sweep".into(), cfg.clone(), stats.clone());
                    let res = guarded(|| run_to_tip(&s));
                    let (class, verdict) = match res {
                        Err(p) => ("panic".to_string(), Err(viol("panic", p))),
                        Ok(Err(v)) => ("violation".to_string(), Err(v)),
                        Ok(Ok(calls)) => (format!("synced-with-{calls}-get_logs-calls"), Ok(())),
                    };
                    let key = if nontrivial { Some(hash_of(&serde_json::to_string(&cfg).unwrap())) } else { None };
                    sw.case(key, &class, || serde_json::to_value(&cfg).unwrap(), verdict);
                }
            }
        }
    })
}

/// One failure-free sync; returns the number of get_logs calls.
fn run_to_tip(s: &RelayerSubject) -> Result<u64, Violation> {
    let mut w = s.fresh();
    let mut calls = 0;
    s.step(&mut w, &Op::Start)?;
    let mut guard = 0;
    while w.in_round {
        if matches!(w.shared.st.lock().unwrap().pending, Some(Req::GetLogs { .. })) {
            calls += 1;
        }
        s.step(&mut w, &Op::Ok)?;
        guard += 1;
        if guard > 1000 {
            machinery_failure(&format!("C29: harness assumption broken: {}", "a failure-free round does not end"));
        }
    }
    // a failure-free round must reach the finalized height (sanity of the harness, and liveness of the sweep)
    let tip = s.cfg.finalized0;
    if tip >= s.lo() && w.db_latest() != Some(tip) {
        return Err(viol("failure-free-round-did-not-reach-finalized", format!("finalized {tip}, database at {:?}", w.db_latest())));
    }
    Ok(calls)
}

// ---------------------------------------------------------------------------
// entry
// ---------------------------------------------------------------------------

pub fn run(cli: &Cli) {
    let stats = Arc::new(Stats::default());
    let subs = subjects(cli, &stats);
    if let Some(path) = &cli.replay {
        let rf = load_replay(path);
        for s in &subs {
            if s.name() == rf.subject {
                replay_and_exit(s, &rf);
            }
        }
        if rf.subject.starts_with("all small DA log sets") {
            let cfg: Cfg = serde_json::from_value(rf.history.clone()).unwrap_or_else(|e| machinery_failure(&format!("bad C29 sweep replay: {e}")));
            let s = RelayerSubject::new("layout-sweep".into(), cfg, stats.clone());
            match guarded(|| run_to_tip(&s)) {
                Ok(Ok(calls)) => {
                    println!("replay: synced with {calls} get_logs calls, no violation");
                    std::process::exit(0)
                }
                Ok(Err(v)) => {
                    println!("replay: violation {} / {}", v.sig, v.msg);
                    println!("VIOLATION property=C29 replay=(replayed)");
                    std::process::exit(1)
                }
                Err(p) => {
                    println!("replay: panic {p}");
                    println!("VIOLATION property=C29 replay=(replayed)");
                    std::process::exit(1)
                }
            }
        }
        machinery_failure("replay: unknown subject (replay with the tier the file was produced with)");
    }

    let mut run = Run::new(cli, "model_checking");
    let devs = cli.tier.pick(2, 3);
    // Subjects are independent: explore them in parallel, each search single-threaded
    // (deterministic per subject; no truncation by a shared clock).
    let wall = cli.tier.pick(50u64, 1400);
    let max_depth = 200;
    let mk_bounds = || {
        let mut b = Bounds::new(max_depth, cli).deviations(devs).wall(wall);
        b.threads = 1;
        b
    };
    let next = std::sync::atomic::AtomicUsize::new(0);
    let results: Mutex<Vec<(usize, Report)>> = Mutex::new(vec![]);
    std::thread::scope(|sc| {
        for _ in 0..cli.threads.max(1).min(subs.len()) {
            sc.spawn(|| loop {
                let i = next.fetch_add(1, Ordering::Relaxed);
                if i >= subs.len() {
                    break;
                }
                let r = explore(&subs[i], &mk_bounds());
                results.lock().unwrap().push((i, r));
            });
        }
    });
    let mut results = results.into_inner().unwrap();
    results.sort_by_key(|(i, _)| *i);
    let mut merged = Report { subject: String::new(), exhaustive: true, max_deviations: Some(devs), ..Default::default() };
    let mut shown = 0;
    let mut merged_n = 0;
    for (_, r) in results {
        let exhausted = r.exhaustive && r.depth_completed < max_depth;
        if !r.violations.is_empty() || !exhausted || shown < 2 {
            shown += 1;
            let mut r = r;
            if r.exhaustive && !exhausted {
                r.exhaustive = false;
                r.cap_hit = Some("depth bound reached with a non-empty frontier".into());
            }
            run.add(r);
        } else {
            merged_n += 1;
            merged.states += r.states;
            merged.transitions += r.transitions;
            merged.replayed_prefixes += r.replayed_prefixes;
            merged.depth_completed = merged.depth_completed.max(r.depth_completed);
            merged.max_depth_bound = r.max_depth_bound;
            merged.distinct_observations += r.distinct_observations;
            merged.interesting_transitions += r.interesting_transitions;
            merged.distinct_interesting += r.distinct_interesting;
            merged.terminal_states += r.terminal_states;
            for (k, v) in r.label_hits {
                *merged.label_hits.entry(k).or_default() += v;
            }
            if merged.samples.len() < 3 {
                merged.samples.extend(r.samples.into_iter().skip(2).take(1));
            }
            merged.wall_s += r.wall_s;
        }
    }
    if merged.transitions > 0 {
        merged.subject = format!("{merged_n} further relayer configurations (merged)");
        run.add(merged);
    }
    let sw = layout_sweep(cli, &stats);
    run.add_sweep(sw);

    // vacuity: the adaptive pager really shrank (both ways) and grew, failures hit mid-round
    let st = stats.json();
    let no_violation = run.reports.iter().all(|r| r.violations.is_empty()) && run.sweeps.iter().all(|s| s.violations.is_empty());
    if no_violation {
        for (k, v) in st.as_object().unwrap() {
            if v.as_u64() == Some(0) {
                machinery_failure(&format!("C29: vacuous exploration, '{k}' never happened"));
            }
        }
    }
    run.note("pager_and_fault_events", st);
    run.note("configurations", json!(subs.len()));
    run.assume("the DA node answers truthfully or fails: a successful get_logs lists exactly the logs of the requested block range for the contract (in a node-chosen order, not by log index); finalized blocks never change; the finalized height only grows");
    run.assume("the relayer is responsible for DA heights from max(da_deploy_height, 1) on (with da_deploy_height 0 the code starts at height 1; the DA genesis block cannot hold contract logs)");
    run.assume("storage = the real EventsHistory table and the real RelayerDb::insert_events over an in-memory key-value store that accepts every commit and records it; latest_da_height = highest committed height (fuel-core's Database<Relayer> additionally rejects non-consecutive heights, which would turn a skipped or rewritten height into a storage error instead)");
    run.assume("'written twice' is read literally: two commits of the same height are a violation whatever their content");
    run.assume("the grow threshold of the adaptive page sizer (50 in Task::into_task) is lowered through the verif-hooks constructor so that growth is reachable on a short chain; everything else is the production code path with retry_on_error = true");
    run.finish();
}
