//! vh-status — C22 (status subscriptions), C23 (status cache), C44 (delegated
//! preconfirmations) on the real `fuel-core-tx-status-manager`.
mod c22;
mod c23;
mod c44;
mod common;

fn main() {
    let cli = mcx::Cli::parse();
    match cli.property.as_str() {
        "C22" => c22::run(&cli),
        "C23" => c23::run(&cli),
        "C44" => c44::run(&cli),
        other => mcx::machinery_failure(&format!("vh-status does not serve {other}")),
    }
}
