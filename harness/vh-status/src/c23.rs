//! C23 — the status cache returns the latest published status until it expires.
//!
//! Real `TxStatusManager::status_update` / `status` (through the guarded
//! `verif_hooks::Manager` wrapper) on a paused tokio clock owned by the explorer.
use crate::common::*;
use fuel_core_tx_status_manager::verif_hooks::Manager;
use mcx::*;
use serde::{Deserialize, Serialize};
use std::time::Duration;

pub const TTL_MS: u64 = 4000;

static C_FORGOTTEN: Counter = Counter::new("expired status forgotten (None returned after ttl)");
static C_KEPT_AFTER_TTL: Counter = Counter::new("expired status still returned (allowed)");
static C_REPLACED: Counter = Counter::new("status replaced by a later publication for the same tx");
static C_SUBMITTED_OLD: Counter = Counter::new("submitted status returned at age >= ttl");
static C_BOUNDARY: Counter = Counter::new("non-submitted status queried at age ttl-1ms (must be present)");

#[derive(Clone, Debug, Serialize, Deserialize)]
pub enum CacheOp {
    Publish { tx: u8, kind: u8 },
    /// 0: ttl-1ms, 1: 1ms, 2: ttl
    Advance { d: u8 },
}

pub struct CacheWorld {
    rt: tokio::runtime::Runtime,
    mgr: Manager,
    now_ms: u64,
    /// per tx: last published (kind, id, at_ms)
    last: [Option<(u8, u64, u64)>; 2],
    /// per tx: every (kind, id) ever published (for messages only)
    count: [u64; 2],
}

pub struct CacheSubject {
    pub kinds_y: Vec<u8>,
}

fn adv_ms(d: u8) -> u64 {
    match d {
        0 => TTL_MS - 1,
        1 => 1,
        _ => TTL_MS,
    }
}

impl CacheSubject {
    fn query_and_check(&self, w: &CacheWorld) -> Result<String, Violation> {
        let mut out = vec![];
        for tx in 0..2u8 {
            let real = {
                let _g = w.rt.enter();
                w.mgr.status(&txid(tx))
            };
            let real = real.as_ref().map(decode);
            let shown = real.map(|(k, i)| show(k, i)).unwrap_or_else(|| "None".into());
            match w.last[tx as usize] {
                None => {
                    if real.is_some() {
                        return Err(viol(
                            "status-for-unpublished-tx",
                            format!("status(tx{tx}) = {shown} although nothing was published for it"),
                        ));
                    }
                    out.push("None".to_string());
                }
                Some((k, id, at)) => {
                    let age = w.now_ms - at;
                    let must = k == 0 || age < TTL_MS;
                    if real == Some((k, id)) {
                        if !must {
                            C_KEPT_AFTER_TTL.hit();
                        }
                        if k == 0 && age >= TTL_MS {
                            C_SUBMITTED_OLD.hit();
                        }
                        if k != 0 && age == TTL_MS - 1 {
                            C_BOUNDARY.hit();
                        }
                        out.push(format!("{shown}@{age}"));
                    } else if real.is_none() {
                        if must {
                            let sig = if k == 0 { "submitted-status-lost" } else { "status-lost-before-ttl" };
                            return Err(viol(
                                sig,
                                format!(
                                    "status(tx{tx}) = None, expected {} published {age} ms ago (ttl {TTL_MS} ms{})",
                                    show(k, id),
                                    if k == 0 { ", submitted statuses never expire" } else { "" }
                                ),
                            ));
                        }
                        C_FORGOTTEN.hit();
                        out.push(format!("forgot@{age}"));
                    } else {
                        return Err(viol(
                            "stale-status-returned",
                            format!(
                                "status(tx{tx}) = {shown}, but the most recently published status is {} ({age} ms ago)",
                                show(k, id)
                            ),
                        ));
                    }
                }
            }
        }
        Ok(out.join(" | "))
    }
}

impl Subject for CacheSubject {
    type World = CacheWorld;
    type Op = CacheOp;

    fn name(&self) -> String {
        "status-cache".into()
    }

    fn fresh(&self) -> CacheWorld {
        let rt = new_runtime();
        let mgr = {
            let _g = rt.enter();
            Manager::new(4, Duration::from_secs(3600), Duration::from_millis(TTL_MS))
        };
        CacheWorld { rt, mgr, now_ms: 0, last: [None, None], count: [0, 0] }
    }

    fn enabled(&self, _w: &CacheWorld) -> Vec<CacheOp> {
        let mut v = vec![];
        for kind in 0..7u8 {
            v.push(CacheOp::Publish { tx: 0, kind });
        }
        for &kind in &self.kinds_y {
            v.push(CacheOp::Publish { tx: 1, kind });
        }
        for d in 0..3u8 {
            v.push(CacheOp::Advance { d });
        }
        v
    }

    fn step(&self, w: &mut CacheWorld, op: &CacheOp) -> Result<String, Violation> {
        match op {
            CacheOp::Publish { tx, kind } => {
                let t = *tx as usize;
                w.count[t] += 1;
                let id = w.count[t];
                if w.last[t].is_some() {
                    C_REPLACED.hit();
                }
                {
                    let _g = w.rt.enter();
                    w.mgr.status_update(txid(*tx), mk_status(*kind, id));
                }
                w.last[t] = Some((*kind, id, w.now_ms));
            }
            CacheOp::Advance { d } => {
                let ms = adv_ms(*d);
                w.rt.block_on(tokio::time::advance(Duration::from_millis(ms)));
                w.now_ms += ms;
            }
        }
        self.query_and_check(w)
    }

    fn canon(&self, w: &CacheWorld) -> Vec<u8> {
        // real cache internals (ages relative to now) + model; publication ids are renamed
        // to their rank per tx (the code under test never inspects the payload)
        let (queue, prunable, non_prunable) = {
            let _g = w.rt.enter();
            w.mgr.dump()
        };
        let txn = |t: &fuel_core_types::fuel_tx::TxId| -> u8 { if *t == txid(0) { 0 } else { 1 } };
        let mut ids: [Vec<u64>; 2] = [vec![], vec![]];
        for (t, _, s) in &prunable {
            ids[txn(t) as usize].push(decode(s).1);
        }
        for (t, s) in &non_prunable {
            ids[txn(t) as usize].push(decode(s).1);
        }
        for t in 0..2 {
            if let Some((_, id, _)) = w.last[t] {
                ids[t].push(id);
            }
            ids[t].sort();
            ids[t].dedup();
        }
        let rank = |t: u8, id: u64| ids[t as usize].iter().position(|x| *x == id).unwrap_or(usize::MAX);
        let q: Vec<(u64, u8)> = queue.iter().map(|(age, t)| (age.as_millis() as u64, txn(t))).collect();
        let p: Vec<(u8, u64, u8, usize)> = prunable
            .iter()
            .map(|(t, age, s)| {
                let (k, id) = decode(s);
                (txn(t), age.as_millis() as u64, k, rank(txn(t), id))
            })
            .collect();
        let n: Vec<(u8, u8, usize)> = non_prunable
            .iter()
            .map(|(t, s)| {
                let (k, id) = decode(s);
                (txn(t), k, rank(txn(t), id))
            })
            .collect();
        let m: Vec<Option<(u8, usize, u64)>> = (0..2usize)
            .map(|t| w.last[t].map(|(k, id, at)| (k, rank(t as u8, id), w.now_ms - at)))
            .collect();
        serde_json::to_vec(&(q, p, n, m)).unwrap()
    }

    fn interesting(&self, op: &CacheOp, obs: &str) -> bool {
        matches!(op, CacheOp::Publish { .. }) || obs.contains("forgot")
    }

    fn required_labels(&self) -> Vec<String> {
        vec!["Publish".into(), "Advance".into()]
    }
}

pub fn run(cli: &Cli) {
    let thorough = cli.tier == Tier::Thorough;
    let subject = CacheSubject {
        kinds_y: if thorough { (0..7).collect() } else { vec![0, 1, 3, 4] },
    };
    if let Some(path) = &cli.replay {
        let rf = load_replay(path);
        replay_and_exit(&subject, &rf);
    }
    let mut run = Run::new(cli, "model_checking");
    let depth = cli.tier.pick(6, 8);
    let depth = depth_override(depth);
    let b = Bounds::new(depth, cli).wall(cli.tier.pick(50, 1200));
    let r = explore(&subject, &b);
    run.add(r);
    require_counters(&mut run, &[&C_FORGOTTEN, &C_REPLACED, &C_SUBMITTED_OLD, &C_BOUNDARY]);
    run.note("expired_status_still_returned_count", serde_json::json!(C_KEPT_AFTER_TTL.get()));
    run.assume("status cache ttl = 4000 ms; clock = tokio paused clock moved only by Advance letters (ttl-1 ms, 1 ms, ttl)");
    run.assume("oracle lower-bounds retention only: Submitted or age < ttl => status(tx) == last published; age >= ttl => None or the last published, never an older one");
    run.assume("status(tx) is queried for both transactions after every letter (it is a read-only call)");
    run.assume("canonical state = real cache internals (pruning queue, both maps, ages relative to now) + model; payload ids renamed to ranks (code is parametric in the payload)");
    run.finish();
}
