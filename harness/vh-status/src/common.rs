//! Shared helpers: status construction with embedded publication ids, the
//! paused single-thread runtime, counters for vacuity guards.
use fuel_core_types::{
    fuel_tx::TxId,
    services::transaction_status::{statuses, TransactionStatus},
    tai64::Tai64,
};
use std::sync::atomic::{AtomicU64, Ordering};
use std::sync::Arc;

pub const KINDS: [&str; 7] = [
    "Submitted",
    "PreconfSuccess",
    "PreconfFailure",
    "PreconfSqueezedOut",
    "Success",
    "Failure",
    "SqueezedOut",
];

/// The harness' own definition of "final" (success, failure or squeeze-out).
pub fn is_final_kind(k: u8) -> bool {
    matches!(k, 3..=6)
}

pub fn txid(i: u8) -> TxId {
    [i + 1; 32].into()
}

/// A status of the given kind whose payload carries `id`.
pub fn mk_status(kind: u8, id: u64) -> TransactionStatus {
    match kind {
        0 => TransactionStatus::Submitted(Arc::new(statuses::Submitted { timestamp: Tai64(id) })),
        1 => TransactionStatus::PreConfirmationSuccess(Arc::new(statuses::PreConfirmationSuccess {
            total_gas: id,
            ..Default::default()
        })),
        2 => TransactionStatus::PreConfirmationFailure(Arc::new(statuses::PreConfirmationFailure {
            total_gas: id,
            ..Default::default()
        })),
        3 => TransactionStatus::PreConfirmationSqueezedOut(Arc::new(statuses::PreConfirmationSqueezedOut {
            reason: format!("{id}"),
        })),
        4 => TransactionStatus::Success(Arc::new(statuses::Success { total_gas: id, ..Default::default() })),
        5 => TransactionStatus::Failure(Arc::new(statuses::Failure { total_gas: id, ..Default::default() })),
        6 => TransactionStatus::SqueezedOut(Arc::new(statuses::SqueezedOut::new(format!("{id}"), TxId::zeroed()))),
        _ => mcx::machinery_failure("bad status kind"),
    }
}

/// (kind, id) of a status built by `mk_status` (u64::MAX if the payload is not ours).
pub fn decode(s: &TransactionStatus) -> (u8, u64) {
    let num = |s: &str| s.split(' ').next().and_then(|x| x.parse::<u64>().ok()).unwrap_or(u64::MAX);
    match s {
        TransactionStatus::Submitted(s) => (0, s.timestamp.0),
        TransactionStatus::PreConfirmationSuccess(s) => (1, s.total_gas),
        TransactionStatus::PreConfirmationFailure(s) => (2, s.total_gas),
        TransactionStatus::PreConfirmationSqueezedOut(s) => (3, num(&s.reason)),
        TransactionStatus::Success(s) => (4, s.total_gas),
        TransactionStatus::Failure(s) => (5, s.total_gas),
        TransactionStatus::SqueezedOut(s) => (6, num(s.reason())),
    }
}

pub fn show(k: u8, id: u64) -> String {
    format!("{}#{}", KINDS.get(k as usize).copied().unwrap_or("?"), id)
}

pub fn new_runtime() -> tokio::runtime::Runtime {
    tokio::runtime::Builder::new_current_thread()
        .enable_time()
        .start_paused(true)
        .build()
        .unwrap_or_else(|e| mcx::machinery_failure(&format!("cannot build runtime: {e}")))
}

/// A named event counter (vacuity guards; counts include re-executions of prefixes).
pub struct Counter(pub &'static str, pub AtomicU64);

impl Counter {
    pub const fn new(name: &'static str) -> Self {
        Counter(name, AtomicU64::new(0))
    }
    pub fn hit(&self) {
        self.1.fetch_add(1, Ordering::Relaxed);
    }
    pub fn get(&self) -> u64 {
        self.1.load(Ordering::Relaxed)
    }
}

/// Record counters in the evidence; a zero counter means the exploration never exercised
/// the situation the check is about: machinery failure.
pub fn require_counters(run: &mut mcx::Run, counters: &[&Counter]) {
    // with violations on the table the verdict is "violated"; a situation that never
    // occurred may then be a consequence of the very defect found
    let violated = run.reports.iter().any(|r| !r.violations.is_empty());
    let mut m = serde_json::Map::new();
    for c in counters {
        m.insert(c.0.to_string(), serde_json::json!(c.get()));
    }
    run.note("situation_counters_including_replays", serde_json::Value::Object(m));
    for c in counters {
        if c.get() == 0 && !violated {
            mcx::machinery_failure(&format!("vacuous exploration: situation `{}` never occurred", c.0));
        }
    }
}

/// Debugging aid: `VH_DEPTH=n` overrides the depth bound (the bound actually used is
/// always recorded in the evidence).
pub fn depth_override(d: usize) -> usize {
    std::env::var("VH_DEPTH").ok().and_then(|s| s.parse().ok()).unwrap_or(d)
}
