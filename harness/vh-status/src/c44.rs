//! C44 — only properly delegated, unexpired preconfirmations are accepted from peers.
//!
//! The real service task (built by the guarded `verif_new_task`, same wiring as
//! `new_service`; the harness polls the real `RunnableTask::run` loop body itself
//! until it is pending, as `ServiceRunner` would, inside a paused single-thread
//! runtime context); harness P2P port (gossip fed through a channel-backed stream,
//! validity reports recorded), rotatable protocol key provider, `Tai64::now()`
//! seam owned by the explorer. Deterministic signing with fixed secret keys.
use crate::common::*;
use fuel_core_services::{stream::BoxStream, RunnableService, RunnableTask, State, StateWatcher, TaskNextAction};
use futures::task::noop_waker;
use std::future::Future;
use std::task::{Context, Poll};
use fuel_core_tx_status_manager::{
    config::Config,
    ports::{P2PPreConfirmationGossipData, P2PPreConfirmationMessage, P2PSubscriptions},
    service::{verif_new_task, ProtocolPublicKey},
    verif_hooks, SharedData, Task,
};
use fuel_core_types::{
    ed25519_dalek::{Signer, SigningKey},
    fuel_crypto::{Message, SecretKey, Signature},
    fuel_tx::{Address, Bytes64, Input, TxId},
    services::{
        p2p::{DelegatePreConfirmationKey, GossipData, GossipsubMessageAcceptance, GossipsubMessageInfo, Sealed},
        preconfirmation::{Preconfirmation, PreconfirmationStatus, Preconfirmations},
        transaction_status::{PreConfirmationStatus, TransactionStatus},
    },
    tai64::Tai64,
};
use mcx::*;
use serde::{Deserialize, Serialize};
use std::collections::BTreeSet;
use std::sync::atomic::{AtomicU8, Ordering};
use std::sync::{Arc, Mutex, OnceLock};
use std::time::Duration;
use tokio::sync::{broadcast, mpsc, watch};

/// expirations: index 0 is already in the past at the start
pub const EXPS: [u64; 3] = [900, 1010, 1020];
/// the clock walks through these values (start, == e1, just past e1, just past e2)
pub const CLOCK: [u64; 4] = [1000, 1010, 1011, 1021];

static C_ACCEPTED: Counter = Counter::new("valid batch accepted (statuses changed)");
static C_VALID_REJECTED: Counter = Counter::new("batch valid by the model but rejected by the service (not demanded by the statement)");
static C_REJ_EXPIRED: Counter = Counter::new("batch rejected: expiration passed (delegation had been registered)");
static C_REJ_UNREGISTERED: Counter = Counter::new("batch rejected: signer not registered for that expiration");
static C_REJ_TAMPERED: Counter = Counter::new("batch rejected: tampered payload under a registered delegation");
static C_DELEG_OK: Counter = Counter::new("delegation accepted");
static C_DELEG_BAD_SIGNER: Counter = Counter::new("delegation rejected: not signed by the current protocol key");
static C_DELEG_ROTATED_OUT: Counter = Counter::new("delegation rejected: signed by a rotated-out protocol key");
static C_DELEG_TAMPERED: Counter = Counter::new("delegation rejected: tampered entity");
static C_AT_BOUNDARY: Counter = Counter::new("batch handled at now == expiration");

#[derive(Clone, Debug, Serialize, Deserialize, PartialEq, Eq, PartialOrd, Ord)]
pub enum GossipOp {
    /// delegation of delegate key `key` for expiration `exp`, signed by protocol key `signer`
    Delegate { signer: u8, key: u8, exp: u8 },
    /// signed by `signer` over (D0, e1); the entity sent has field 0 = key or 1 = expiration replaced
    TamperedDelegate { signer: u8, field: u8 },
    /// batch for expiration `exp` signed by delegate `by`; tampered = payload changed after signing
    Preconf { by: u8, exp: u8, tampered: bool },
    RotateProtocolKey,
    AdvanceClock,
}

struct Keys {
    protocol: [SecretKey; 2],
    addresses: [Address; 2],
    delegates: [SigningKey; 2],
}

fn keys() -> &'static Keys {
    static K: OnceLock<Keys> = OnceLock::new();
    K.get_or_init(|| {
        let p = |b: u8| SecretKey::try_from(&[b; 32][..]).expect("valid secret key");
        let protocol = [p(0x11), p(0x22)];
        let addresses = [Input::owner(&protocol[0].public_key()), Input::owner(&protocol[1].public_key())];
        let delegates = [SigningKey::from_bytes(&[0x33; 32]), SigningKey::from_bytes(&[0x44; 32])];
        Keys { protocol, addresses, delegates }
    })
}

fn the_tx() -> TxId {
    [0xAB; 32].into()
}

fn payload_code(by: u8, exp: u8) -> u64 {
    1 + by as u64 * 3 + exp as u64
}

fn delegation(signer: u8, key: u8, exp: u8, tamper: Option<u8>) -> P2PPreConfirmationMessage {
    let k = keys();
    let mut entity = DelegatePreConfirmationKey {
        public_key: k.delegates[key as usize].verifying_key(),
        expiration: Tai64(EXPS[exp as usize]),
    };
    let bytes = postcard::to_allocvec(&entity).expect("serializable");
    let signature = Signature::sign(&k.protocol[signer as usize], &Message::new(&bytes));
    match tamper {
        Some(0) => entity.public_key = k.delegates[1 - key as usize].verifying_key(),
        Some(_) => entity.expiration = Tai64(EXPS[2]),
        None => {}
    }
    P2PPreConfirmationMessage::Delegate { seal: Sealed { entity, signature }, nonce: 0 }
}

fn batch(by: u8, exp: u8, tampered: bool) -> P2PPreConfirmationMessage {
    let k = keys();
    let mk = |gas: u64| Preconfirmations {
        expiration: Tai64(EXPS[exp as usize]),
        preconfirmations: vec![Preconfirmation {
            tx_id: the_tx(),
            status: PreconfirmationStatus::Success {
                tx_pointer: Default::default(),
                total_gas: gas,
                total_fee: 0,
                receipts: Default::default(),
                outputs: vec![],
            },
        }],
    };
    let signed = mk(payload_code(by, exp));
    let bytes = postcard::to_allocvec(&signed).expect("serializable");
    let signature = Bytes64::new(k.delegates[by as usize].sign(&bytes).to_bytes());
    let entity = if tampered { mk(payload_code(by, exp) + 100) } else { signed };
    P2PPreConfirmationMessage::Preconfirmations(Sealed { entity, signature })
}

/// All gossip messages are built (and signed) once; letters only clone them.
fn message(op: &GossipOp) -> P2PPreConfirmationMessage {
    static T: OnceLock<Vec<(GossipOp, P2PPreConfirmationMessage)>> = OnceLock::new();
    let t = T.get_or_init(|| {
        let mut v = vec![];
        for signer in 0..2u8 {
            for key in 0..2u8 {
                for exp in 0..3u8 {
                    v.push((GossipOp::Delegate { signer, key, exp }, delegation(signer, key, exp, None)));
                }
            }
            for field in 0..2u8 {
                v.push((GossipOp::TamperedDelegate { signer, field }, delegation(signer, 0, 1, Some(field))));
            }
        }
        for by in 0..2u8 {
            for exp in 0..3u8 {
                for tampered in [false, true] {
                    v.push((GossipOp::Preconf { by, exp, tampered }, batch(by, exp, tampered)));
                }
            }
        }
        v
    });
    t.iter()
        .find(|(o, _)| o == op)
        .map(|(_, m)| m.clone())
        .unwrap_or_else(|| machinery_failure("no gossip message for letter"))
}

type Reports = Arc<Mutex<Vec<(Vec<u8>, GossipsubMessageAcceptance)>>>;

struct HarnessP2P {
    gossip: Mutex<Option<mpsc::UnboundedReceiver<P2PPreConfirmationGossipData>>>,
    reports: Reports,
}

impl P2PSubscriptions for HarnessP2P {
    type GossipedStatuses = P2PPreConfirmationGossipData;

    fn gossiped_tx_statuses(&self) -> BoxStream<Self::GossipedStatuses> {
        let mut rx = self.gossip.lock().unwrap().take().expect("gossip stream requested once");
        Box::pin(futures::stream::poll_fn(move |cx| rx.poll_recv(cx)))
    }

    fn notify_gossip_transaction_validity(&self, info: GossipsubMessageInfo, validity: GossipsubMessageAcceptance) -> anyhow::Result<()> {
        self.reports.lock().unwrap().push((info.message_id, validity));
        Ok(())
    }
}

struct RotatableKey {
    current: Arc<AtomicU8>,
}

impl ProtocolPublicKey for RotatableKey {
    fn latest_address(&self) -> Address {
        keys().addresses[self.current.load(Ordering::SeqCst) as usize]
    }
}

pub struct GossipWorld {
    task: Task<RotatableKey, HarnessP2P>,
    watcher: StateWatcher,
    _state: watch::Sender<State>,
    shared: SharedData,
    listener: broadcast::Receiver<(TxId, PreConfirmationStatus)>,
    gossip: mpsc::UnboundedSender<P2PPreConfirmationGossipData>,
    reports: Reports,
    current: Arc<AtomicU8>,
    rt: tokio::runtime::Runtime,
    clock: usize,
    sent: u64,
    ever_current: [bool; 2],
    /// real delegate-key map after the last gossip message (expiration, key bytes)
    real_keys: Vec<(u64, [u8; 32])>,
    // --- model ---
    /// (exp, key) pairs registered by delegations that were signed by the protocol key
    /// current at the time and accepted
    registered: BTreeSet<(u8, u8)>,
    /// payload code of the last accepted batch
    status: Option<u64>,
}

pub struct GossipSubject {
    pub exps: Vec<u8>,
}

impl GossipSubject {
    fn now(w: &GossipWorld) -> u64 {
        CLOCK[w.clock]
    }

    /// Send one gossip message, drive the service until it has handled it, return
    /// (reports for it, status events emitted, status of the tx afterwards).
    #[allow(clippy::type_complexity)]
    fn deliver(&self, w: &mut GossipWorld, msg: P2PPreConfirmationMessage) -> Result<(Vec<GossipsubMessageAcceptance>, Vec<u64>, Option<u64>), Violation> {
        w.sent += 1;
        let message_id = w.sent.to_be_bytes().to_vec();
        verif_hooks::set_tai64_now(Some(Self::now(w)));
        if w.gossip.send(GossipData { data: Some(msg), peer_id: vec![7u8; 4].into(), message_id: message_id.clone() }).is_err() {
            return Err(viol("service-stopped", "the service dropped its gossip stream".to_string()));
        }
        // A read request is queued behind the gossip message; the real loop body is
        // `biased` (gossip stream before read requests). The task is polled until it is
        // pending, i.e. until it has consumed everything that was queued.
        let shared = w.shared.clone();
        let mut query = Box::pin(async move { shared.get_status(the_tx()).await });
        let waker = noop_waker();
        let mut cx = Context::from_waker(&waker);
        let _g = w.rt.enter();
        if query.as_mut().poll(&mut cx).is_ready() {
            return Err(viol("service-stopped", "status query failed before the service saw it".to_string()));
        }
        Self::drive(&mut w.task, &mut w.watcher)?;
        let status = match query.as_mut().poll(&mut cx) {
            Poll::Ready(Ok(s)) => s,
            Poll::Ready(Err(e)) => return Err(viol("service-stopped", format!("get_status failed after a gossip message: {e}"))),
            Poll::Pending => return Err(viol("service-stuck", "the service did not answer a status query after a gossip message".to_string())),
        };
        drop(_g);
        w.real_keys = verif_hooks::last_delegate_keys();
        let reports: Vec<_> = {
            let mut r = w.reports.lock().unwrap();
            let all: Vec<_> = r.drain(..).collect();
            if all.iter().any(|(id, _)| *id != message_id) {
                return Err(viol("report-for-unknown-message", format!("validity reports {all:?} while handling message {message_id:?}")));
            }
            all.into_iter().map(|(_, a)| a).collect()
        };
        let mut events = vec![];
        loop {
            match w.listener.try_recv() {
                Ok((tx, PreConfirmationStatus::Success(s))) if tx == the_tx() => events.push(s.total_gas),
                Ok((tx, other)) => return Err(viol("unexpected-status-event", format!("status event for {tx}: {other:?}"))),
                Err(broadcast::error::TryRecvError::Empty) => break,
                Err(e) => return Err(viol("status-event-stream-broken", format!("{e:?}"))),
            }
        }
        let status = match status {
            None => None,
            Some(TransactionStatus::PreConfirmationSuccess(s)) => Some(s.total_gas),
            Some(other) => return Err(viol("unexpected-status", format!("status of the tx is {other:?}"))),
        };
        Ok((reports, events, status))
    }

    /// Poll the real `run` loop body until it has nothing left to do.
    fn drive(task: &mut Task<RotatableKey, HarnessP2P>, watcher: &mut StateWatcher) -> Result<(), Violation> {
        let waker = noop_waker();
        let mut cx = Context::from_waker(&waker);
        for _ in 0..1000 {
            let mut fut = std::pin::pin!(task.run(watcher));
            match fut.as_mut().poll(&mut cx) {
                Poll::Pending => return Ok(()),
                Poll::Ready(TaskNextAction::Continue) => {}
                Poll::Ready(TaskNextAction::Stop) => return Err(viol("service-stopped", "the service loop asked to stop".to_string())),
                Poll::Ready(TaskNextAction::ErrorContinue(e)) => return Err(viol("service-error", format!("the service loop reported {e}"))),
            }
        }
        Err(viol("service-livelock", "the service loop did not become idle within 1000 iterations".to_string()))
    }

    fn only_reject(what: &str, why: (&str, &str), reports: &[GossipsubMessageAcceptance], events: &[u64], changed: bool) -> Result<(), Violation> {
        if !events.is_empty() || changed {
            return Err(viol(
                format!("invalid-{what}-changed-statuses:{}", why.0),
                format!("a {what} that must be rejected ({}) changed transaction statuses (events {events:?}, status changed: {changed})", why.1),
            ));
        }
        if reports != [GossipsubMessageAcceptance::Reject] {
            return Err(viol(
                format!("invalid-{what}-not-reported-as-invalid:{}", why.0),
                format!("a {what} that must be rejected ({}) was reported as {reports:?}, expected exactly one Reject", why.1),
            ));
        }
        Ok(())
    }
}

impl Subject for GossipSubject {
    type World = GossipWorld;
    type Op = GossipOp;

    fn name(&self) -> String {
        "preconfirmation-gossip".into()
    }

    fn fresh(&self) -> GossipWorld {
        let rt = new_runtime();
        let (gossip, gossip_rx) = mpsc::unbounded_channel();
        let reports: Reports = Default::default();
        let current = Arc::new(AtomicU8::new(0));
        verif_hooks::set_tai64_now(Some(CLOCK[0]));
        verif_hooks::record_delegate_keys(std::iter::empty());
        let p2p = HarnessP2P { gossip: Mutex::new(Some(gossip_rx)), reports: reports.clone() };
        let config = Config {
            max_tx_update_subscriptions: 64,
            subscription_ttl: Duration::from_secs(3600 * 24 * 365),
            status_cache_ttl: Duration::from_secs(3600 * 24 * 365),
            metrics: false,
        };
        let key = RotatableKey { current: current.clone() };
        let task = {
            let _g = rt.enter();
            verif_new_task(p2p, config, key)
        };
        let shared = task.shared_data();
        let listener = shared.preconfirmations_update_listener();
        let (state, state_rx) = watch::channel(State::Started);
        let watcher: StateWatcher = state_rx.into();
        GossipWorld {
            task,
            watcher,
            _state: state,
            shared,
            listener,
            gossip,
            reports,
            current,
            rt,
            clock: 0,
            sent: 0,
            ever_current: [true, false],
            real_keys: vec![],
            registered: BTreeSet::new(),
            status: None,
        }
    }

    fn enabled(&self, w: &GossipWorld) -> Vec<GossipOp> {
        let mut v = vec![];
        for &exp in &self.exps {
            for key in 0..2u8 {
                for signer in 0..2u8 {
                    v.push(GossipOp::Delegate { signer, key, exp });
                }
            }
        }
        for &exp in &self.exps {
            for by in 0..2u8 {
                for tampered in [false, true] {
                    v.push(GossipOp::Preconf { by, exp, tampered });
                }
            }
        }
        for signer in 0..2u8 {
            for field in 0..2u8 {
                v.push(GossipOp::TamperedDelegate { signer, field });
            }
        }
        v.push(GossipOp::RotateProtocolKey);
        if w.clock + 1 < CLOCK.len() {
            v.push(GossipOp::AdvanceClock);
        }
        v
    }

    fn step(&self, w: &mut GossipWorld, op: &GossipOp) -> Result<String, Violation> {
        use GossipsubMessageAcceptance::*;
        let cur = w.current.load(Ordering::SeqCst);
        match op {
            GossipOp::RotateProtocolKey => {
                w.current.store(1 - cur, Ordering::SeqCst);
                w.ever_current[(1 - cur) as usize] = true;
                Ok(format!("protocol key P{}", 1 - cur))
            }
            GossipOp::AdvanceClock => {
                w.clock += 1;
                verif_hooks::set_tai64_now(Some(Self::now(w)));
                Ok(format!("now {}", Self::now(w)))
            }
            GossipOp::Delegate { signer, key, exp } => {
                let (reports, events, status) = self.deliver(w, message(op))?;
                let changed = status != w.status;
                if !events.is_empty() || changed {
                    return Err(viol("delegation-changed-statuses", format!("a delegation message changed statuses (events {events:?})")));
                }
                if *signer != cur {
                    if w.ever_current[*signer as usize] {
                        // (a previously current key: e.g. a replay of an old, then valid, delegation)
                        C_DELEG_ROTATED_OUT.hit();
                    }
                    C_DELEG_BAD_SIGNER.hit();
                    Self::only_reject("delegation", ("wrong-protocol-key", "not signed by the current protocol key"), &reports, &events, changed)?;
                    return Ok("delegation rejected".into());
                }
                match reports[..] {
                    [Accept] => {
                        C_DELEG_OK.hit();
                        w.registered.insert((*exp, *key));
                        Ok("delegation accepted".into())
                    }
                    // nothing in the statement obliges the node to accept; it is then not registered
                    [Reject] | [Ignore] => Ok("valid delegation rejected".into()),
                    _ => Err(viol("gossip-report-count", format!("a delegation got the validity reports {reports:?}, expected exactly one"))),
                }
            }
            GossipOp::TamperedDelegate { .. } => {
                let (reports, events, status) = self.deliver(w, message(op))?;
                let changed = status != w.status;
                C_DELEG_TAMPERED.hit();
                Self::only_reject("delegation", ("tampered", "entity changed after signing"), &reports, &events, changed)?;
                Ok("tampered delegation rejected".into())
            }
            GossipOp::Preconf { by, exp, tampered } => {
                let now = Self::now(w);
                let e = EXPS[*exp as usize];
                let registered = w.registered.contains(&(*exp, *by));
                let why = if *tampered {
                    Some(("tampered", "payload changed after signing"))
                } else if now > e {
                    Some(("expired", "expiration has passed"))
                } else if !registered {
                    Some(("not-delegated", "signer not delegated for this expiration by the protocol key"))
                } else {
                    None
                };
                let (reports, events, status) = self.deliver(w, message(op))?;
                let changed = status != w.status;
                if now == e {
                    C_AT_BOUNDARY.hit();
                }
                if let Some(why) = why {
                    if *tampered && registered && now <= e {
                        C_REJ_TAMPERED.hit();
                    } else if now > e && registered {
                        C_REJ_EXPIRED.hit();
                    } else if !registered {
                        C_REJ_UNREGISTERED.hit();
                    }
                    Self::only_reject("batch", why, &reports, &events, changed)?;
                    return Ok(format!("batch rejected ({})", why.1));
                }
                // valid by the model: the service may apply it (then exactly its payload) ...
                let code = payload_code(*by, *exp);
                if events.is_empty() && !changed {
                    if reports.len() != 1 {
                        return Err(viol("gossip-report-count", format!("a batch got the validity reports {reports:?}, expected exactly one")));
                    }
                    C_VALID_REJECTED.hit();
                    return Ok(format!("valid batch not applied, reported {:?}", reports[0]));
                }
                if events != [code] || status != Some(code) {
                    return Err(viol(
                        "accepted-batch-applied-wrongly",
                        format!("accepted batch with payload {code}: events {events:?}, status afterwards {status:?}"),
                    ));
                }
                if reports.len() != 1 {
                    return Err(viol("gossip-report-count", format!("a batch got the validity reports {reports:?}, expected exactly one")));
                }
                C_ACCEPTED.hit();
                w.status = Some(code);
                Ok(format!("batch accepted, reported {:?}", reports[0]))
            }
        }
    }

    fn canon(&self, w: &GossipWorld) -> Vec<u8> {
        let k = keys();
        let real: Vec<(u64, u8)> = w
            .real_keys
            .iter()
            .map(|(e, key)| {
                let idx = k.delegates.iter().position(|d| d.verifying_key().to_bytes() == *key).map(|i| i as u8).unwrap_or(9);
                (*e, idx)
            })
            .collect();
        serde_json::to_vec(&(real, &w.registered, w.status, w.current.load(Ordering::SeqCst), w.clock)).unwrap()
    }

    fn interesting(&self, op: &GossipOp, obs: &str) -> bool {
        match op {
            GossipOp::Preconf { .. } => !obs.contains("signer not delegated"),
            _ => true,
        }
    }

    fn required_labels(&self) -> Vec<String> {
        ["Delegate", "TamperedDelegate", "Preconf", "RotateProtocolKey", "AdvanceClock"].iter().map(|s| s.to_string()).collect()
    }
}

/// The scripted witness for the interpretation note: does a delegation signed by a
/// protocol key that has since been rotated out stay effective until it expires?
fn rotation_witness(subject: &GossipSubject) -> serde_json::Value {
    let ops = vec![
        GossipOp::Delegate { signer: 0, key: 0, exp: 1 },
        GossipOp::RotateProtocolKey,
        GossipOp::Preconf { by: 0, exp: 1, tampered: false },
    ];
    match replay_history(subject, &ops) {
        Ok(obs) => serde_json::json!({"history": ops, "observations": obs}),
        Err((i, v)) => serde_json::json!({"history": ops, "violation_at": i, "sig": v.sig}),
    }
}

pub fn run(cli: &Cli) {
    let subject = GossipSubject { exps: vec![1, 0, 2] };
    if let Some(path) = &cli.replay {
        let rf = load_replay(path);
        replay_and_exit(&subject, &rf);
    }
    let mut run = Run::new(cli, "model_checking");
    // thorough: the reachable state space closes (empty frontier) at depth 13
    let depth = cli.tier.pick(6, 16);
    let depth = depth_override(depth);
    let b = Bounds::new(depth, cli).wall(cli.tier.pick(50, 1300));
    let r = explore(&subject, &b);
    run.add(r);
    require_counters(
        &mut run,
        &[
            &C_ACCEPTED,
            &C_REJ_EXPIRED,
            &C_REJ_UNREGISTERED,
            &C_REJ_TAMPERED,
            &C_DELEG_OK,
            &C_DELEG_BAD_SIGNER,
            &C_DELEG_ROTATED_OUT,
            &C_DELEG_TAMPERED,
            &C_AT_BOUNDARY,
        ],
    );
    run.note("valid_batches_not_applied_including_replays", serde_json::json!(C_VALID_REJECTED.get()));
    run.note("delegation_signed_by_rotated_out_key_stays_effective_witness", rotation_witness(&subject));
    run.assume("protocol keys {P0,P1} (secp256k1, fixed secrets), delegate keys {D0,D1} (ed25519, fixed secrets), expirations {900 (already past), 1010, 1020}, clock walks 1000 -> 1010 -> 1011 -> 1021; signing is deterministic so repeating a letter re-sends the byte-identical message (replay)");
    run.assume("model: set of (expiration, delegate key) registered by delegations signed by the protocol key that was current when the delegation was handled and reported Accept; a batch may change statuses only if untampered, now <= expiration and (expiration, signer) is in that set; everything else must change nothing and get exactly one Reject report");
    run.assume("interpretation: 'expiration has not passed' is now <= expiration (as the code reads it); a delegation signed by a protocol key that is rotated out afterwards is still 'a delegation signed by the current protocol key' at registration time (lenient reading; witness recorded in the evidence); overwriting a delegation for the same expiration is not required to revoke the older key; the converse direction (valid batches must be applied) is not demanded, only counted");
    run.assume("after every letter the real Task::run loop body is polled (noop waker) until it is pending, with a status query queued behind the gossip message; tokio clock paused; ServiceRunner's generic start/stop loop is not part of the check");
    run.assume("canonical state = real delegate-key map (hook dump) + model set + current protocol key + clock position + status of the tx");
    run.finish();
}
