//! C22 — status subscriptions deliver statuses in order, without duplicates,
//! and end after a final one.
//!
//! Real `TxStatusManager::tx_update_subscribe` + `status_update` (real
//! `UpdateSender`, `MpscChannel` with its buffer of 3) behind the guarded
//! `verif_hooks::Manager` wrapper; 2 subscription permits; paused tokio clock.
use crate::common::*;
use fuel_core_tx_status_manager::{verif_hooks::Manager, TxStatusMessage, TxStatusStream};
use futures::task::noop_waker;
use mcx::*;
use serde::{Deserialize, Serialize};
use std::task::{Context, Poll};
use std::time::Duration;

pub const SUB_TTL_S: u64 = 10;
pub const PERMITS: usize = 2;

static C_LIMIT: Counter = Counter::new("subscribe refused (permit limit)");
static C_FAILED_MARKER: Counter = Counter::new("FailedStatus marker received (buffer overflow)");
static C_END_AFTER_FINAL: Counter = Counter::new("stream ended after a final status");
static C_END_EXPIRED: Counter = Counter::new("stream of an expired subscription ended");
static C_COMPLETE_CHECKS: Counter = Counter::new("completeness checked on a draining subscriber");
static C_COMPLETE_FINAL: Counter = Counter::new("draining subscriber received the first final status and end-of-stream");
static C_REPUBLISH: Counter = Counter::new("identical status value republished");
static C_REPUBLISH_DELIVERED: Counter = Counter::new("draining subscriber received a republished identical value again");
static C_LOSSY: Counter = Counter::new("subscriber missed a status (not draining)");

// projected-history tokens (canonical state)
const T_GOT: u8 = 100;
const T_ADV: u8 = 101;
const T_TOUCH: u8 = 102;
const T_DROP: u8 = 103;
/// added to the kind for a republication of the identical value
const T_REPUB: u8 = 50;

#[derive(Clone, Debug, Serialize, Deserialize)]
pub enum SubOp {
    Publish { tx: u8, kind: u8 },
    /// three consecutive Submitted publications (resubmissions) for `tx`: fills a subscriber buffer
    Burst { tx: u8 },
    /// publish again exactly the status value last published for `tx` (identical bytes);
    /// it is a publication of its own
    Republish { tx: u8 },
    Subscribe { tx: u8 },
    /// one non-blocking poll of subscriber `sub`
    Recv { sub: u8 },
    /// poll subscriber `sub` until it is pending or ended
    Drain { sub: u8 },
    Drop { sub: u8 },
    /// advance the clock by the subscription ttl
    Advance,
}

struct Sub {
    tx: u8,
    stream: Option<TxStatusStream>,
    /// everything that happened to this subscription, in order (the canonical state)
    tokens: Vec<u8>,
    /// statuses published for `tx` after the subscription
    pubs: Vec<(u8, u64)>,
    got: Vec<(u8, u64)>,
    last_idx: Option<usize>,
    failed_marker: bool,
    /// the harness saw the stream empty since the last publication for `tx`
    drained: bool,
    /// drained before every publication so far, never expired
    qualified: bool,
    expired: bool,
}

pub struct SubWorld {
    rt: tokio::runtime::Runtime,
    mgr: Manager,
    subs: Vec<Sub>,
    attempts: u8,
    count: u64,
    /// per tx: the status value last published (kind, id)
    last: [Option<(u8, u64)>; 2],
}

pub struct SubSubject {
    pub name: String,
    pub kinds_x: Vec<u8>,
    pub kinds_y: Vec<u8>,
    pub max_attempts: u8,
}

enum Polled {
    Status(String),
    Marker,
    Pending,
    End,
}

fn first_final(pubs: &[(u8, u64)]) -> Option<usize> {
    pubs.iter().position(|(k, _)| is_final_kind(*k))
}

fn list(v: &[(u8, u64)]) -> String {
    format!("[{}]", v.iter().map(|(k, i)| show(*k, *i)).collect::<Vec<_>>().join(", "))
}

impl SubSubject {
    fn publish(w: &mut SubWorld, tx: u8, kind: u8) -> String {
        w.count += 1;
        let id = w.count * 2 + tx as u64;
        Self::publish_value(w, tx, kind, id, kind)
    }

    fn publish_value(w: &mut SubWorld, tx: u8, kind: u8, id: u64, token: u8) -> String {
        w.last[tx as usize] = Some((kind, id));
        for s in w.subs.iter_mut() {
            if s.tx == tx {
                s.pubs.push((kind, id));
                s.tokens.push(token);
                if s.stream.is_some() {
                    if !s.drained {
                        s.qualified = false;
                    }
                    s.drained = false;
                }
            } else if s.expired {
                // any send purges expired subscriptions of every tx
                s.tokens.push(T_TOUCH);
            }
        }
        {
            let _g = w.rt.enter();
            w.mgr.status_update(txid(tx), mk_status(kind, id));
        }
        show(kind, id)
    }

    /// One poll of subscriber `i` with all checks of the safety part.
    fn poll_once(&self, w: &mut SubWorld, i: usize) -> Result<Polled, Violation> {
        let polled = {
            let _g = w.rt.enter();
            let s = &mut w.subs[i];
            let waker = noop_waker();
            let mut cx = Context::from_waker(&waker);
            s.stream.as_mut().expect("live subscriber").as_mut().poll_next(&mut cx)
        };
        let s = &mut w.subs[i];
        match polled {
            Poll::Pending => {
                s.drained = true;
                if s.qualified {
                    C_COMPLETE_CHECKS.hit();
                    if let Some(f) = first_final(&s.pubs) {
                        return Err(viol(
                            "draining-subscriber-no-end-of-stream-after-final",
                            format!(
                                "subscriber of tx{} drained before every publication; published {} (first final {}), received {}, but the stream is still open",
                                s.tx,
                                list(&s.pubs),
                                show(s.pubs[f].0, s.pubs[f].1),
                                list(&s.got)
                            ),
                        ));
                    }
                    if s.got != s.pubs {
                        return Err(viol(
                            "draining-subscriber-missed-status",
                            format!(
                                "subscriber of tx{} drained before every publication; published {}, received {}",
                                s.tx,
                                list(&s.pubs),
                                list(&s.got)
                            ),
                        ));
                    }
                }
                if s.got == s.pubs && !s.failed_marker {
                    // clean point: everything published was delivered and the channel is
                    // empty; what remains of this subscription's real state (sender-side
                    // stream state, creation time) is in the senders dump of `canon`
                    s.tokens.clear();
                }
                Ok(Polled::Pending)
            }
            Poll::Ready(None) => {
                if s.qualified {
                    C_COMPLETE_CHECKS.hit();
                    match first_final(&s.pubs) {
                        None => {
                            return Err(viol(
                                "draining-subscriber-stream-ended-without-final",
                                format!(
                                    "subscriber of tx{} (not expired, drained before every publication) saw end-of-stream although no final status was published; published {}, received {}",
                                    s.tx,
                                    list(&s.pubs),
                                    list(&s.got)
                                ),
                            ))
                        }
                        Some(f) => {
                            if s.got[..] != s.pubs[..=f] {
                                return Err(viol(
                                    "draining-subscriber-missed-status",
                                    format!(
                                        "subscriber of tx{} drained before every publication; published {}, expected everything up to the first final one, received {} then end-of-stream",
                                        s.tx,
                                        list(&s.pubs),
                                        list(&s.got)
                                    ),
                                ));
                            }
                            C_COMPLETE_FINAL.hit();
                        }
                    }
                }
                if s.expired {
                    C_END_EXPIRED.hit();
                }
                if s.got.iter().any(|(k, _)| is_final_kind(*k)) {
                    C_END_AFTER_FINAL.hit();
                }
                if s.got.len() < s.pubs.len() && first_final(&s.pubs).map(|f| s.got.len() < f + 1).unwrap_or(true) {
                    C_LOSSY.hit();
                }
                // nothing after the end of the stream
                let again = {
                    let _g = w.rt.enter();
                    let waker = noop_waker();
                    let mut cx = Context::from_waker(&waker);
                    w.subs[i].stream.as_mut().unwrap().as_mut().poll_next(&mut cx)
                };
                if let Poll::Ready(Some(m)) = again {
                    return Err(viol("item-after-end-of-stream", format!("stream yielded {m:?} after it had ended")));
                }
                w.subs.remove(i);
                Ok(Polled::End)
            }
            Poll::Ready(Some(TxStatusMessage::FailedStatus)) => {
                s.tokens.push(T_GOT);
                s.failed_marker = true;
                C_FAILED_MARKER.hit();
                Ok(Polled::Marker)
            }
            Poll::Ready(Some(TxStatusMessage::Status(st))) => {
                s.tokens.push(T_GOT);
                let (k, id) = decode(&st);
                // identical values may have been published more than once: match the earliest
                // publication not yet accounted for (the lenient choice)
                let after = s.last_idx.map(|l| l + 1).unwrap_or(0);
                let found = s.pubs[after.min(s.pubs.len())..]
                    .iter()
                    .position(|p| *p == (k, id))
                    .map(|p| p + after)
                    .or_else(|| s.pubs.iter().position(|p| *p == (k, id)));
                let Some(pos) = found else {
                    return Err(viol(
                        "status-not-published-for-this-subscription",
                        format!(
                            "subscriber of tx{} received {} which was not published for its transaction after it subscribed (published since: {})",
                            s.tx,
                            show(k, id),
                            list(&s.pubs)
                        ),
                    ));
                };
                if let Some(l) = s.last_idx {
                    if pos == l {
                        return Err(viol("duplicate-status", format!("subscriber of tx{} received {} twice", s.tx, show(k, id))));
                    }
                    if pos < l {
                        return Err(viol(
                            "out-of-order-status",
                            format!("subscriber of tx{} received {} after {} (published {})", s.tx, show(k, id), list(&s.got), list(&s.pubs)),
                        ));
                    }
                }
                if let Some(f) = first_final(&s.pubs) {
                    if pos > f {
                        return Err(viol(
                            "status-after-final",
                            format!(
                                "subscriber of tx{} received {} which was published after the first final status {} (published {})",
                                s.tx,
                                show(k, id),
                                show(s.pubs[f].0, s.pubs[f].1),
                                list(&s.pubs)
                            ),
                        ));
                    }
                }
                if s.qualified && pos > 0 && s.pubs[pos - 1] == (k, id) {
                    C_REPUBLISH_DELIVERED.hit();
                }
                s.last_idx = Some(pos);
                s.got.push((k, id));
                Ok(Polled::Status(show(k, id)))
            }
        }
    }
}

impl Subject for SubSubject {
    type World = SubWorld;
    type Op = SubOp;

    fn name(&self) -> String {
        self.name.clone()
    }

    fn fresh(&self) -> SubWorld {
        let rt = new_runtime();
        let mgr = {
            let _g = rt.enter();
            Manager::new(PERMITS, Duration::from_secs(SUB_TTL_S), Duration::from_secs(3600))
        };
        SubWorld { rt, mgr, subs: vec![], attempts: 0, count: 0, last: [None, None] }
    }

    fn enabled(&self, w: &SubWorld) -> Vec<SubOp> {
        let mut v = vec![];
        for (i, s) in w.subs.iter().enumerate() {
            if s.stream.is_some() {
                v.push(SubOp::Drain { sub: i as u8 });
                v.push(SubOp::Recv { sub: i as u8 });
            }
        }
        for &kind in &self.kinds_x {
            v.push(SubOp::Publish { tx: 0, kind });
        }
        for &kind in &self.kinds_y {
            v.push(SubOp::Publish { tx: 1, kind });
        }
        v.push(SubOp::Burst { tx: 0 });
        for tx in 0..2u8 {
            if w.last[tx as usize].is_some() && (tx == 0 || !self.kinds_y.is_empty()) {
                v.push(SubOp::Republish { tx });
            }
        }
        if w.attempts < self.max_attempts {
            v.push(SubOp::Subscribe { tx: 0 });
            if !self.kinds_y.is_empty() {
                v.push(SubOp::Subscribe { tx: 1 });
            }
        }
        for (i, s) in w.subs.iter().enumerate() {
            if s.stream.is_some() {
                v.push(SubOp::Drop { sub: i as u8 });
            }
        }
        if !w.subs.is_empty() {
            v.push(SubOp::Advance);
        }
        v
    }

    fn deviation(&self, op: &SubOp) -> u32 {
        match op {
            SubOp::Advance => 1,
            _ => 0,
        }
    }

    fn step(&self, w: &mut SubWorld, op: &SubOp) -> Result<String, Violation> {
        match op {
            SubOp::Publish { tx, kind } => Ok(format!("published {}", Self::publish(w, *tx, *kind))),
            SubOp::Republish { tx } => match w.last[*tx as usize] {
                None => Ok("nothing-to-republish".into()),
                Some((kind, id)) => {
                    C_REPUBLISH.hit();
                    Ok(format!("republished {}", Self::publish_value(w, *tx, kind, id, T_REPUB + kind)))
                }
            },
            SubOp::Burst { tx } => {
                let a = Self::publish(w, *tx, 0);
                let b = Self::publish(w, *tx, 0);
                let c = Self::publish(w, *tx, 0);
                Ok(format!("published {a}, {b}, {c}"))
            }
            SubOp::Subscribe { tx } => {
                w.attempts += 1;
                for s in w.subs.iter_mut() {
                    if s.expired {
                        s.tokens.push(T_TOUCH);
                    }
                }
                let r = {
                    let _g = w.rt.enter();
                    w.mgr.tx_update_subscribe(txid(*tx))
                };
                match r {
                    Ok(stream) => {
                        w.subs.push(Sub {
                            tx: *tx,
                            stream: Some(stream),
                            tokens: vec![],
                            pubs: vec![],
                            got: vec![],
                            last_idx: None,
                            failed_marker: false,
                            drained: true,
                            qualified: true,
                            expired: false,
                        });
                        Ok("subscribed".into())
                    }
                    Err(_) => {
                        C_LIMIT.hit();
                        Ok("refused".into())
                    }
                }
            }
            SubOp::Recv { sub } => {
                let i = *sub as usize;
                if i >= w.subs.len() || w.subs[i].stream.is_none() {
                    return Ok("no-such-subscriber".into());
                }
                Ok(match self.poll_once(w, i)? {
                    Polled::Status(s) => s,
                    Polled::Marker => "FailedStatus".into(),
                    Polled::Pending => "pending".into(),
                    Polled::End => "end".into(),
                })
            }
            SubOp::Drain { sub } => {
                let i = *sub as usize;
                if i >= w.subs.len() || w.subs[i].stream.is_none() {
                    return Ok("no-such-subscriber".into());
                }
                let mut out = vec![];
                for _ in 0..64 {
                    match self.poll_once(w, i)? {
                        Polled::Status(s) => out.push(s),
                        Polled::Marker => out.push("FailedStatus".into()),
                        Polled::Pending => {
                            out.push("pending".into());
                            return Ok(out.join(","));
                        }
                        Polled::End => {
                            out.push("end".into());
                            return Ok(out.join(","));
                        }
                    }
                }
                Err(viol("endless-stream", "a subscriber yielded more than 64 items in one drain".to_string()))
            }
            SubOp::Drop { sub } => {
                let i = *sub as usize;
                if i >= w.subs.len() || w.subs[i].stream.is_none() {
                    return Ok("no-such-subscriber".into());
                }
                let s = &mut w.subs[i];
                s.stream = None;
                s.qualified = false;
                s.tokens.push(T_DROP);
                Ok("dropped".into())
            }
            SubOp::Advance => {
                w.rt.block_on(tokio::time::advance(Duration::from_secs(SUB_TTL_S)));
                for s in w.subs.iter_mut() {
                    s.expired = true;
                    s.qualified = false;
                    s.tokens.push(T_ADV);
                }
                Ok("advanced".into())
            }
        }
    }

    fn canon(&self, w: &SubWorld) -> Vec<u8> {
        // Each subscription's real state (sender-side stream state machine, channel
        // content, creation time, receiver) is a deterministic function of the events
        // that touched it since its last clean point (see `poll_once`); publication ids
        // are omitted (the code never inspects payloads). The sender side of every
        // subscription (stream state, age) is dumped from the real object.
        let subs: Vec<(u8, bool, &[u8], bool, bool, bool)> = w
            .subs
            .iter()
            .map(|s| (s.tx, s.stream.is_some(), &s.tokens[..], s.drained, s.qualified, s.expired))
            .collect();
        let senders: Vec<(u8, Vec<(String, u64)>)> = {
            let _g = w.rt.enter();
            w.mgr
                .senders_dump()
                .into_iter()
                .map(|(t, l)| (if t == txid(0) { 0 } else { 1 }, l.into_iter().map(|(st, age)| (st, age.as_millis() as u64)).collect()))
                .collect()
        };
        // what Republish does next depends on the kind last published per tx
        let last: Vec<Option<u8>> = w.last.iter().map(|l| l.map(|(k, _)| k)).collect();
        serde_json::to_vec(&(subs, senders, w.attempts, last)).unwrap()
    }

    fn interesting(&self, op: &SubOp, obs: &str) -> bool {
        match op {
            SubOp::Publish { .. } | SubOp::Burst { .. } | SubOp::Republish { .. } | SubOp::Advance | SubOp::Drop { .. } => true,
            SubOp::Subscribe { .. } => true,
            _ => obs != "pending",
        }
    }

    fn required_labels(&self) -> Vec<String> {
        ["Publish", "Burst", "Republish", "Subscribe", "Recv", "Drain", "Drop", "Advance"].iter().map(|s| s.to_string()).collect()
    }
}

pub fn run(cli: &Cli) {
    let thorough = cli.tier == Tier::Thorough;
    // (a) two transactions, all seven status kinds for tx0
    let wide = SubSubject {
        name: "status-subscriptions".into(),
        kinds_x: (0..7).collect(),
        kinds_y: if thorough { vec![0, 1, 4] } else { vec![0, 4] },
        max_attempts: 3,
    };
    // (b) thorough only: one transaction, one kind per class of the stream state machine
    // (submitted, preconfirmation, final, preconfirmation squeeze-out), at most 2 subscribe
    // calls, one level deeper
    let deep = SubSubject {
        name: "status-subscriptions-single-tx-deep".into(),
        kinds_x: vec![0, 1, 4, 3],
        kinds_y: vec![],
        max_attempts: 2,
    };
    if let Some(path) = &cli.replay {
        let rf = load_replay(path);
        if rf.subject == deep.name() {
            replay_and_exit(&deep, &rf);
        }
        replay_and_exit(&wide, &rf);
    }
    let mut run = Run::new(cli, "model_checking");
    let depth = depth_override(cli.tier.pick(6, 7));
    let b = Bounds::new(depth, cli)
        .deviations(1)
        .wall(cli.tier.pick(50, 900))
        .states(cli.tier.pick(2_000_000, 40_000_000));
    let r = explore(&wide, &b);
    run.add(r);
    if thorough {
        let b = Bounds::new(depth + 1, cli).deviations(1).wall(900).states(40_000_000);
        let r = explore(&deep, &b);
        run.add(r);
    }
    require_counters(
        &mut run,
        &[&C_REPUBLISH, &C_REPUBLISH_DELIVERED, &C_LIMIT, &C_FAILED_MARKER, &C_END_AFTER_FINAL, &C_END_EXPIRED, &C_COMPLETE_CHECKS, &C_COMPLETE_FINAL, &C_LOSSY],
    );
    run.assume("Republish(tx) publishes again the identical status value (same bytes) last published for tx; it is a publication of its own: a draining subscriber must receive it again; a received value is matched to the earliest publication of that value not yet accounted for");
    run.assume("2 subscription permits, subscription ttl 10 s (one Advance(ttl) per history), real MpscChannel buffer of 3, at most 3 subscribe calls per history (2 in the single-transaction exploration of the thorough tier)");
    run.assume("final = Success, Failure, SqueezedOut, PreConfirmationSqueezedOut (harness' own definition); 'nothing after the first final status' is read as: no status published after the first final status published since the subscription is ever delivered");
    run.assume("completeness clause is demanded only of subscribers that the harness saw empty (poll pending) before every publication for their tx and whose subscription has not reached the subscription ttl; FailedStatus markers are not statuses");
    run.assume("a refused subscribe (permit limit) is allowed at any time; the statement says nothing about when subscribing must succeed");
    run.assume("UpdateSender::send holds one mutex for the whole fan-out and the mpsc channel is linearizable, so letter-level interleaving of publisher and subscribers is the schedule space");
    run.assume("canonical state = real dump of all subscription senders (stream state, age) + per subscription the sequence of events that touched it since the harness last saw it empty with everything delivered (publications by kind, receives, drop, ttl advance, purge opportunities after expiry) + drained/qualified/expired flags + number of subscribe calls + kind of the status last published per tx (what Republish would send); republications carry their own event token");
    run.finish();
}
