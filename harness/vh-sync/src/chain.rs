//! Canonical test chain: real `SealedBlock`s / `SealedBlockHeader`s with correct
//! transaction roots and counts (built through the real `Block::new`).
use fuel_core_types::{
    blockchain::{
        block::Block,
        consensus::{poa::PoAConsensus, Consensus, Sealed},
        header::{BlockHeader, PartialBlockHeader},
        SealedBlock, SealedBlockHeader,
    },
    fuel_crypto::Signature,
    fuel_tx::{policies::Policies, Bytes32, Transaction},
    tai64::Tai64,
};

/// A distinguishable (not executable) script transaction.
pub fn tx(marker: u32) -> Transaction {
    Transaction::script(
        marker as u64,
        vec![],
        marker.to_be_bytes().to_vec(),
        Policies::new(),
        vec![],
        vec![],
        vec![],
    )
    .into()
}

pub fn seal(marker: u8) -> Consensus {
    Consensus::PoA(PoAConsensus::new(Signature::from_bytes([marker; 64])))
}

/// A sealed block at `height` whose header commits to `txs` (root and count).
/// `variant` only perturbs the timestamp so that two blocks of one height differ.
pub fn sealed_block(height: u32, variant: u32, txs: Vec<Transaction>, seal_marker: u8) -> SealedBlock {
    let header = BlockHeader::new_block(height.into(), Tai64::from_unix(1_000 + variant as i64));
    let partial: PartialBlockHeader = (&header).into();
    let block = Block::new(partial, txs, &[], Bytes32::zeroed()).expect("block header generation");
    Sealed { entity: block, consensus: seal(seal_marker) }
}

pub fn header_of(b: &SealedBlock) -> SealedBlockHeader {
    Sealed { entity: b.entity.header().clone(), consensus: b.consensus.clone() }
}

pub fn height_of_header(h: &SealedBlockHeader) -> u32 {
    **h.entity.height()
}

pub fn height_of_block(b: &SealedBlock) -> u32 {
    **b.entity.header().height()
}
