//! C28 — the sync status always describes the gap to the best known height.
//!
//! Explicit-state exploration of the real `fuel_core_sync::state::State`
//! (`new`, `observe`, `commit`, `failed_to_process`, `process_range`) against a
//! boring reference model (max committed, max observed).
use fuel_core_sync::state::State;
use mcx::*;
use serde::{Deserialize, Serialize};
use serde_json::json;
use stateright::{Checker, Model, Property};

#[derive(Clone, Debug, Serialize, Deserialize, PartialEq, Eq, Hash)]
pub enum Op {
    /// `State::new(committed, observed)`
    Init { committed: Option<u32>, observed: Option<u32> },
    Observe(u32),
    Commit(u32),
    Failed(u32, u32),
}

/// What the status is, recovered through the public API only.
#[derive(Clone, Debug, PartialEq, Eq, Hash)]
pub enum Shape {
    Uninitialized,
    Committed(u32),
    Processing(u32, u32),
    /// none of the three shapes could be recognised
    Unknown(String),
}

/// Public-API view of the status: `process_range()` shows a processing range;
/// otherwise the state equals `State::new(None, None)` (uninitialized) or
/// `State::new(c, None)` (committed at c) — `State: PartialEq`.
pub fn shape_of(s: &State, max_height: u32) -> Shape {
    if let Some(r) = s.process_range() {
        return Shape::Processing(*r.start(), *r.end());
    }
    if *s == State::new(None, None) {
        return Shape::Uninitialized;
    }
    for c in 0..=max_height + 1 {
        if *s == State::new(c, None) {
            return Shape::Committed(c);
        }
    }
    Shape::Unknown(format!("{s:?}"))
}

#[derive(Clone, Debug, PartialEq, Eq, Hash)]
pub struct World {
    real: Option<State>,
    // reference model
    committed: Option<u32>,
    observed: Option<u32>,
    /// true while the history since the last effective failure (or since a
    /// later event at/above every observed height) is failure-free, i.e. while
    /// the statement's exact formula is demanded
    exact: bool,
}

pub struct StateSubject {
    pub heights: u32, // heights 0..heights
}

fn formula(committed: Option<u32>, observed: Option<u32>) -> Shape {
    match (committed, observed) {
        (None, None) => Shape::Uninitialized,
        (Some(c), None) => Shape::Committed(c),
        (None, Some(o)) => Shape::Processing(0, o),
        (Some(c), Some(o)) => {
            if o > c {
                Shape::Processing(c + 1, o)
            } else {
                Shape::Committed(c)
            }
        }
    }
}

fn implied_committed(s: &Shape) -> Option<u32> {
    match s {
        Shape::Uninitialized | Shape::Unknown(_) => None,
        Shape::Committed(c) => Some(*c),
        Shape::Processing(a, _) => a.checked_sub(1),
    }
}

impl StateSubject {
    fn ops(&self) -> Vec<Op> {
        let mut v = vec![];
        for h in 0..self.heights {
            v.push(Op::Observe(h));
        }
        for h in 0..self.heights {
            v.push(Op::Commit(h));
        }
        for a in 0..self.heights {
            for b in a..self.heights {
                v.push(Op::Failed(a, b));
            }
        }
        // an empty failed range must be ignored
        v.push(Op::Failed(1, 0));
        v
    }

    fn inits(&self) -> Vec<Op> {
        let mut opts: Vec<Option<u32>> = vec![None];
        opts.extend((0..self.heights).map(Some));
        let mut v = vec![];
        for c in &opts {
            for o in &opts {
                v.push(Op::Init { committed: *c, observed: *o });
            }
        }
        v
    }

    /// Apply to real + model, then judge. Used by mcx and by stateright.
    pub fn apply(&self, w: &mut World, op: &Op) -> Result<String, Violation> {
        let before = w.real.as_ref().map(|s| shape_of(s, self.heights));
        let before_committed = before.as_ref().and_then(implied_committed);
        match op {
            Op::Init { committed, observed } => {
                w.real = Some(State::new(*committed, *observed));
                w.committed = *committed;
                w.observed = *observed;
                w.exact = true;
            }
            Op::Observe(h) => {
                let real = w.real.as_mut().expect("initialised");
                let top = w.observed.map(|o| *h >= o).unwrap_or(true);
                real.observe(*h);
                w.observed = Some(w.observed.map_or(*h, |o| o.max(*h)));
                if top {
                    // the new observation is the highest one: whatever an earlier
                    // failure cut off, the range must reach it again
                    w.exact = true;
                }
            }
            Op::Commit(h) => {
                let real = w.real.as_mut().expect("initialised");
                real.commit(*h);
                w.committed = Some(w.committed.map_or(*h, |c| c.max(*h)));
                if w.observed.map(|o| *h >= o).unwrap_or(true) {
                    // committed at/above everything observed: nothing left, exact again
                    w.exact = true;
                }
            }
            Op::Failed(a, b) => {
                let real = w.real.as_mut().expect("initialised");
                real.failed_to_process(*a..=*b);
                let after = shape_of(real, self.heights);
                if Some(&after) != before.as_ref() {
                    if a > b {
                        return Err(viol("empty-failed-range-changed-status", format!("failed_to_process({a}..={b}) (empty) changed the status {before:?} -> {after:?}")));
                    }
                    w.exact = false;
                }
            }
        }
        let real = w.real.as_ref().unwrap();
        let shape = shape_of(real, self.heights);
        // (1) one of the three shapes
        if let Shape::Unknown(d) = &shape {
            return Err(viol("status-shape-unknown", format!("status after {op:?} is none of uninitialized/committed/processing: {d}")));
        }
        // (2) the committed height never decreases
        let now_committed = implied_committed(&shape);
        if !matches!(op, Op::Init { .. }) {
            if let Some(bc) = before_committed {
                if now_committed.map(|c| c < bc).unwrap_or(true) {
                    return Err(viol(
                        "committed-height-decreased",
                        format!("{op:?}: status {before:?} -> {shape:?}: the committed height went from {bc} to {now_committed:?}"),
                    ));
                }
            }
        }
        // (3) the formula
        let want = formula(w.committed, w.observed);
        if w.exact {
            if shape != want {
                return Err(viol(
                    format!("status-differs-from-formula:{}", class(&shape, &want)),
                    format!(
                        "after {op:?} (no failure since the range last reached the highest observed height): status {shape:?}, expected {want:?} (highest committed {:?}, highest observed {:?}); previous status {before:?}",
                        w.committed, w.observed
                    ),
                ));
            }
        } else {
            // a failure shortened the range: the start is still pinned to the
            // committed height and the end cannot exceed what was observed
            let ok = match &shape {
                Shape::Uninitialized => w.committed.is_none(),
                Shape::Committed(c) => w.committed == Some(*c),
                Shape::Processing(a, b) => {
                    let start_ok = match w.committed {
                        None => *a == 0,
                        Some(c) => *a == c + 1,
                    };
                    start_ok && a <= b && w.observed.map(|o| *b <= o).unwrap_or(false)
                }
                Shape::Unknown(_) => false,
            };
            if !ok {
                return Err(viol(
                    format!("status-inconsistent-after-failure:{}", class(&shape, &want)),
                    format!(
                        "after {op:?}: status {shape:?} does not start right after the highest committed height {:?} / ends above the highest observed height {:?}; previous status {before:?}",
                        w.committed, w.observed
                    ),
                ));
            }
        }
        Ok(format!("{shape:?}"))
    }
}

fn class(got: &Shape, want: &Shape) -> &'static str {
    match (got, want) {
        (Shape::Processing(a, _), Shape::Processing(c, _)) if a != c => "processing-start",
        (Shape::Processing(_, b), Shape::Processing(_, d)) if b != d => "processing-end",
        (Shape::Committed(_), Shape::Committed(_)) => "committed-height",
        (Shape::Committed(_), Shape::Processing(..)) => "committed-but-gap-left",
        (Shape::Processing(..), Shape::Committed(_)) => "processing-but-nothing-left",
        (Shape::Uninitialized, _) => "uninitialized-but-heights-known",
        (_, Shape::Uninitialized) => "initialized-from-nothing",
        _ => "other",
    }
}

impl Subject for StateSubject {
    type World = World;
    type Op = Op;
    fn name(&self) -> String {
        format!("sync State over heights 0..{}", self.heights - 1)
    }
    fn fresh(&self) -> World {
        World { real: None, committed: None, observed: None, exact: true }
    }
    fn clone_world(&self, w: &World) -> Option<World> {
        Some(w.clone())
    }
    fn enabled(&self, w: &World) -> Vec<Op> {
        if w.real.is_none() {
            self.inits()
        } else {
            self.ops()
        }
    }
    fn step(&self, w: &mut World, op: &Op) -> Result<String, Violation> {
        self.apply(w, op)
    }
    fn canon(&self, w: &World) -> Vec<u8> {
        format!("{:?}|{:?}|{:?}|{}", w.real, w.committed, w.observed, w.exact).into_bytes()
    }
    fn interesting(&self, op: &Op, _obs: &str) -> bool {
        !matches!(op, Op::Init { .. })
    }
}

// ---- independent cross-check of the reachable-state count with stateright ----

struct SrModel {
    s: StateSubject,
}

impl Model for SrModel {
    type State = World;
    type Action = Op;
    fn init_states(&self) -> Vec<World> {
        vec![self.s.fresh()]
    }
    fn actions(&self, state: &World, actions: &mut Vec<Op>) {
        actions.extend(self.s.enabled(state));
    }
    fn next_state(&self, last: &World, action: Op) -> Option<World> {
        let mut w = last.clone();
        match self.s.apply(&mut w, &action) {
            Ok(_) => Some(w),
            Err(_) => None,
        }
    }
    fn properties(&self) -> Vec<Property<Self>> {
        // never falsified: keeps the checker running until the space is exhausted
        vec![Property::<Self>::always("true", |_, _| true)]
    }
}

pub fn c28(cli: &Cli) {
    let heights: u32 = cli.tier.pick(6, 12);
    let subject = StateSubject { heights };
    if let Some(p) = &cli.replay {
        let rf = load_replay(p);
        replay_and_exit(&subject, &rf);
    }
    let mut run = Run::new(cli, "model_checking");
    // one Init letter + up to `depth` events; the search stops earlier when no
    // new state appears (then every longer history is covered as well)
    let depth = 1 + cli.tier.pick(5, 7);
    let b = Bounds::new(depth + 6, cli);
    let rep = explore(&subject, &b);
    // the loop ends before the depth bound only when the frontier ran empty
    let fixpoint = rep.exhaustive && rep.depth_completed < depth + 6;
    let mcx_states = rep.states;
    let mcx_depth = rep.depth_completed;
    let clean = rep.violations.is_empty();
    if clean {
        // vacuity guard (only meaningful when no violation cut the search)
        for l in ["Init", "Observe", "Commit", "Failed"] {
            if !rep.label_hits.contains_key(l) {
                machinery_failure(&format!("C28: vacuous exploration, letter {l} never fired"));
            }
        }
    }
    run.add(rep);
    run.note("closed_under_all_letters", json!(fixpoint));
    run.note("requested_event_depth", json!(depth - 1));
    if mcx_depth < depth && !fixpoint {
        machinery_failure("C28: exploration stopped before the requested depth");
    }
    if clean {
        // stateright cross-check (same transition function, independent search)
        let checker = SrModel { s: StateSubject { heights } }.checker().threads(cli.threads.min(8)).spawn_bfs().join();
        let sr = checker.unique_state_count();
        run.note("stateright_unique_states", json!(sr));
        run.note("mcx_states", json!(mcx_states));
        println!("  stateright cross-check: unique states {sr} vs mcx {mcx_states}");
        if fixpoint && sr != mcx_states {
            machinery_failure(&format!("C28: reachable-state count differs: stateright {sr} vs mcx {mcx_states}"));
        }
    }
    run.assume("the exact formula (range starts right after the highest committed height, or at zero, and ends at the highest observed height) is demanded whenever no failed range changed the status since the status last accounted for the highest observed height; after a failure only: start pinned to the committed height, end <= highest observed, committed status = highest committed");
    run.assume("the status is read through the public API: process_range() and equality with State::new(..)");
    run.finish();
}
