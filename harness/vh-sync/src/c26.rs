//! C26 — sync imports network blocks in order and only after header checks.
//!
//! The real `Import::new` + `Import::import` run on a current-thread tokio
//! runtime with a paused clock against scripted ports.  The explorer owns the
//! environment: a *script* fixes, per port call (numbered in the order the real
//! code issues them), the answer of the environment; calls the script does not
//! mention get the benign default answer.  A letter of the alphabet is
//! "deviate at call #k with answer X" (k beyond every earlier deviation), so a
//! history is a set of deviations ordered by call number; every step re-runs
//! the whole scenario (all import rounds) from scratch with the real code.
use crate::chain::*;
use fuel_core_services::{stream::BoxStream, SharedMutex, StateWatcher};
use fuel_core_sync::{
    import::{Config, Import},
    ports::{BlockImporterPort, ConsensusPort, PeerReportReason, PeerToPeerPort},
    state::State,
};
use fuel_core_types::{
    blockchain::{primitives::DaBlockHeight, SealedBlock, SealedBlockHeader},
    fuel_types::BlockHeight,
    services::p2p::{PeerId, SourcePeer, Transactions},
};
use mcx::*;
use serde::{Deserialize, Serialize};
use serde_json::json;
use std::collections::{BTreeMap, BTreeSet};
use std::future::Future;
use std::ops::Range;
use std::sync::{Arc, Mutex};
use std::time::Duration;
use tokio::sync::Notify;

// ---------------------------------------------------------------------------
// alphabet
// ---------------------------------------------------------------------------

#[derive(Clone, Debug, Serialize, Deserialize, PartialEq, Eq, PartialOrd, Ord)]
pub enum Ans {
    // --- get_sealed_block_headers ---
    /// all requested headers (default)
    HAll,
    /// all requested headers, delivered late (virtual 1 s)
    HSlow,
    /// one header more than requested
    HExtra,
    /// the last requested header is missing
    HShort,
    /// `Some(vec![])`
    HEmpty,
    /// `None`
    HNone,
    /// header i is the (valid) header of the next / previous height
    HWrongHeight { i: usize, up: bool },
    /// header i carries a seal the consensus port rejects
    HBadSeal { i: usize },
    /// the request fails
    HErr,
    // --- get_transactions / get_transactions_from_peer ---
    /// matching transactions for every requested block (default)
    TMatch,
    TSlow,
    /// one `Transactions` entry more than requested
    TLong,
    /// `None`
    TMissing,
    /// the entry of the last block is missing
    TShort,
    /// the transactions of block i do not match its header
    TMismatch { i: usize },
    TErr,
    // --- execute_and_commit ---
    /// default
    EOk,
    ESlow,
    /// a new tip (highest tip + 1) is observed while the block executes
    EObserveOk,
    EErr,
}

#[derive(Clone, Copy, Debug, PartialEq, Eq)]
enum Kind {
    Headers,
    Txs,
    Exec,
}

impl Ans {
    fn kind(&self) -> Kind {
        use Ans::*;
        match self {
            HAll | HSlow | HExtra | HShort | HEmpty | HNone | HWrongHeight { .. } | HBadSeal { .. } | HErr => Kind::Headers,
            TMatch | TSlow | TLong | TMissing | TShort | TMismatch { .. } | TErr => Kind::Txs,
            EOk | ESlow | EObserveOk | EErr => Kind::Exec,
        }
    }
    /// the peer supplied bad data with this answer
    fn is_bad_data(&self) -> bool {
        use Ans::*;
        matches!(self, HShort | HEmpty | HNone | HWrongHeight { .. } | HBadSeal { .. } | TMissing | TShort | TMismatch { .. })
    }
    /// the peer answered exactly what was asked
    fn is_correct(&self) -> bool {
        use Ans::*;
        matches!(self, HAll | HSlow | TMatch | TSlow)
    }
    /// what was wrong with the data (signature text)
    fn what(&self) -> &'static str {
        use Ans::*;
        match self {
            HShort => "headers-list-shorter-than-request",
            HEmpty => "empty-headers-list",
            HNone => "no-headers",
            HWrongHeight { .. } => "header-of-the-wrong-height",
            HBadSeal { .. } => "header-with-rejected-seal",
            TMissing => "no-transactions",
            TShort => "transactions-list-shorter-than-request",
            TMismatch { .. } => "transactions-not-matching-the-header",
            _ => "not-bad",
        }
    }
    fn name(&self) -> &'static str {
        use Ans::*;
        match self {
            HAll => "HAll",
            HSlow => "HSlow",
            HExtra => "HExtra",
            HShort => "HShort",
            HEmpty => "HEmpty",
            HNone => "HNone",
            HWrongHeight { up: true, .. } => "HWrongHeightUp",
            HWrongHeight { up: false, .. } => "HWrongHeightDown",
            HBadSeal { .. } => "HBadSeal",
            HErr => "HErr",
            TMatch => "TMatch",
            TSlow => "TSlow",
            TLong => "TLong",
            TMissing => "TMissing",
            TShort => "TShort",
            TMismatch { .. } => "TMismatch",
            TErr => "TErr",
            EOk => "EOk",
            ESlow => "ESlow",
            EObserveOk => "EObserveOk",
            EErr => "EErr",
        }
    }
}

#[derive(Clone, Debug, Serialize, Deserialize)]
pub enum Op {
    /// run the scenario with the script as it stands (root only: all defaults)
    Run,
    /// answer port call number `call` with `ans` instead of the default
    Dev { call: usize, ans: Ans },
}

// ---------------------------------------------------------------------------
// configuration and canonical chain
// ---------------------------------------------------------------------------

#[derive(Clone, Debug)]
pub struct Cfg {
    pub batch: usize,
    pub buffer: usize,
    pub init_committed: Option<u32>,
    /// tip observed before each import round (round 0: `State::new(init, tips[0])`)
    pub tips: Vec<u32>,
    /// false: every block has no transactions (neighbouring blocks share a
    /// transaction list); true: every block has its own transactions
    pub distinct_txs: bool,
    pub thorough_alphabet: bool,
}

impl Cfg {
    fn name(&self) -> String {
        format!(
            "import[batch={},buffer={},committed={:?},tips={:?},txs={}]",
            self.batch,
            self.buffer,
            self.init_committed,
            self.tips,
            if self.distinct_txs { "distinct" } else { "empty" }
        )
    }
}

pub struct Chain {
    blocks: Vec<SealedBlock>,
    headers: Vec<SealedBlockHeader>,
}

impl Chain {
    fn new(len: u32, distinct: bool) -> Chain {
        let mut blocks = vec![];
        for h in 0..len {
            let txs = if distinct { (0..1 + h % 2).map(|j| tx(h * 10 + j)).collect() } else { vec![] };
            blocks.push(sealed_block(h, 0, txs, 7));
        }
        let headers = blocks.iter().map(header_of).collect();
        Chain { blocks, headers }
    }
    fn header(&self, h: u32) -> SealedBlockHeader {
        self.headers[h as usize].clone()
    }
    fn txs(&self, h: u32) -> Transactions {
        Transactions(self.blocks[h as usize].entity.transactions().to_vec())
    }
    fn is_canonical(&self, hd: &SealedBlockHeader) -> bool {
        let h = height_of_header(hd) as usize;
        h < self.headers.len() && self.headers[h] == *hd
    }
}

// ---------------------------------------------------------------------------
// scripted environment
// ---------------------------------------------------------------------------

#[derive(Clone, Debug, PartialEq, Eq)]
pub enum Ev {
    Headers { call: usize, start: u32, end: u32, peer: usize, ans: Ans },
    Txs { call: usize, start: u32, end: u32, peer: usize, from_peer: bool, ans: Ans },
    Check { height: u32, valid: bool },
    Exec { call: usize, height: u32, canonical_header: bool, checked: bool, txs_match: bool, ans: Ans },
    Report { peer: usize, reason: PeerReportReason },
    Round { round: usize, ok: bool, hung: bool, state: String },
}

struct EnvInner {
    script: BTreeMap<usize, Ans>,
    next_call: usize,
    log: Vec<Ev>,
    checked_ok: BTreeSet<u32>,
    top_tip: u32,
    fault: Option<String>,
}

pub struct Env {
    chain: Arc<Chain>,
    state: SharedMutex<State>,
    inner: Mutex<EnvInner>,
}

fn peer_id(n: usize) -> PeerId {
    PeerId::from(vec![0xC2, 0x6, (n >> 8) as u8, n as u8])
}

fn peer_no(p: &PeerId) -> usize {
    let b: &[u8] = p.as_ref();
    ((b[2] as usize) << 8) | b[3] as usize
}

impl Env {
    fn take(&self, kind: Kind, default: Ans) -> (usize, Ans) {
        let mut g = self.inner.lock().unwrap();
        let call = g.next_call;
        g.next_call += 1;
        let ans = g.script.get(&call).cloned().unwrap_or_else(|| default.clone());
        if ans.kind() != kind {
            // never panic inside a tokio task (the runtime would swallow it): record and fail after the run
            g.fault.get_or_insert(format!("script names a {:?} answer for call #{call}, which is a {kind:?} call (non-deterministic call order?)", ans.kind()));
            return (call, default);
        }
        (call, ans)
    }
    fn log(&self, ev: Ev) {
        self.inner.lock().unwrap().log.push(ev);
    }
}

struct P2p(Arc<Env>);
struct Cons(Arc<Env>);
struct Exec(Arc<Env>);

#[async_trait::async_trait]
impl PeerToPeerPort for P2p {
    fn height_stream(&self) -> BoxStream<BlockHeight> {
        Box::pin(futures::stream::pending())
    }

    async fn get_sealed_block_headers(&self, range: Range<u32>) -> anyhow::Result<SourcePeer<Option<Vec<SealedBlockHeader>>>> {
        let env = &self.0;
        let (call, ans) = env.take(Kind::Headers, Ans::HAll);
        let peer = call;
        env.log(Ev::Headers { call, start: range.start, end: range.end, peer, ans: ans.clone() });
        let all: Vec<SealedBlockHeader> = range.clone().map(|h| env.chain.header(h)).collect();
        let data = match &ans {
            Ans::HAll => Some(all),
            Ans::HSlow => {
                tokio::time::sleep(Duration::from_secs(1)).await;
                Some(all)
            }
            Ans::HExtra => {
                let mut v = all;
                v.push(env.chain.header(range.end));
                Some(v)
            }
            Ans::HShort => {
                let mut v = all;
                v.pop();
                Some(v)
            }
            Ans::HEmpty => Some(vec![]),
            Ans::HNone => None,
            Ans::HWrongHeight { i, up } => {
                let mut v = all;
                let h = range.start + *i as u32;
                v[*i] = env.chain.header(if *up { h + 1 } else { h - 1 });
                Some(v)
            }
            Ans::HBadSeal { i } => {
                let mut v = all;
                v[*i].consensus = seal(0xBD);
                Some(v)
            }
            Ans::HErr => return Err(anyhow::anyhow!("scripted: header request failed")),
            other => unreachable!("{other:?}"),
        };
        Ok(peer_id(peer).bind(data))
    }

    async fn get_transactions(&self, range: Range<u32>) -> anyhow::Result<SourcePeer<Option<Vec<Transactions>>>> {
        let env = &self.0;
        let (call, ans) = env.take(Kind::Txs, Ans::TMatch);
        let peer = call;
        env.log(Ev::Txs { call, start: range.start, end: range.end, peer, from_peer: false, ans: ans.clone() });
        let data = txs_answer(env, &ans, range).await?;
        Ok(peer_id(peer).bind(data))
    }

    async fn get_transactions_from_peer(&self, req: SourcePeer<Range<u32>>) -> anyhow::Result<Option<Vec<Transactions>>> {
        let env = &self.0;
        let (call, ans) = env.take(Kind::Txs, Ans::TMatch);
        let peer = peer_no(&req.peer_id);
        let range = req.data;
        env.log(Ev::Txs { call, start: range.start, end: range.end, peer, from_peer: true, ans: ans.clone() });
        txs_answer(env, &ans, range).await
    }

    fn report_peer(&self, peer: PeerId, report: PeerReportReason) -> anyhow::Result<()> {
        self.0.log(Ev::Report { peer: peer_no(&peer), reason: report });
        Ok(())
    }
}

async fn txs_answer(env: &Arc<Env>, ans: &Ans, range: Range<u32>) -> anyhow::Result<Option<Vec<Transactions>>> {
    let all: Vec<Transactions> = range.clone().map(|h| env.chain.txs(h)).collect();
    Ok(match ans {
        Ans::TMatch => Some(all),
        Ans::TSlow => {
            tokio::time::sleep(Duration::from_secs(1)).await;
            Some(all)
        }
        Ans::TLong => {
            let mut v = all;
            v.push(env.chain.txs(range.end));
            Some(v)
        }
        Ans::TMissing => None,
        Ans::TShort => {
            let mut v = all;
            v.pop();
            Some(v)
        }
        Ans::TMismatch { i } => {
            let mut v = all;
            v[*i].0.push(tx(9_999));
            Some(v)
        }
        Ans::TErr => return Err(anyhow::anyhow!("scripted: transactions request failed")),
        other => unreachable!("{other:?}"),
    })
}

impl ConsensusPort for Cons {
    fn check_sealed_header(&self, header: &SealedBlockHeader) -> anyhow::Result<bool> {
        // the consensus port accepts exactly the canonical sealed header of a height
        let valid = self.0.chain.is_canonical(header);
        let height = height_of_header(header);
        let mut g = self.0.inner.lock().unwrap();
        if valid {
            g.checked_ok.insert(height);
        }
        g.log.push(Ev::Check { height, valid });
        Ok(valid)
    }
    fn await_da_height(&self, _da_height: &DaBlockHeight) -> impl Future<Output = anyhow::Result<()>> + Send {
        async { Ok(()) }
    }
}

impl BlockImporterPort for Exec {
    fn committed_height_stream(&self) -> BoxStream<BlockHeight> {
        Box::pin(futures::stream::pending())
    }
    fn execute_and_commit(&self, block: SealedBlock) -> impl Future<Output = anyhow::Result<()>> + Send {
        let env = self.0.clone();
        async move {
            let (call, ans) = env.take(Kind::Exec, Ans::EOk);
            let hd = header_of(&block);
            let height = height_of_block(&block);
            let canonical_header = env.chain.is_canonical(&hd);
            let txs_match = block.entity.header().validate_transactions(block.entity.transactions());
            {
                let mut g = env.inner.lock().unwrap();
                let checked = canonical_header && g.checked_ok.contains(&height);
                g.log.push(Ev::Exec { call, height, canonical_header, checked, txs_match, ans: ans.clone() });
            }
            match ans {
                Ans::EOk => Ok(()),
                Ans::ESlow => {
                    tokio::time::sleep(Duration::from_secs(1)).await;
                    Ok(())
                }
                Ans::EObserveOk => {
                    let tip = {
                        let mut g = env.inner.lock().unwrap();
                        g.top_tip += 1;
                        g.top_tip
                    };
                    env.state.apply(|s| s.observe(tip));
                    Ok(())
                }
                Ans::EErr => Err(anyhow::anyhow!("scripted: execution failed")),
                other => unreachable!("{other:?}"),
            }
        }
    }
}

// ---------------------------------------------------------------------------
// one scenario = all import rounds, real code, from scratch
// ---------------------------------------------------------------------------

pub fn run_scenario(cfg: &Cfg, chain: &Arc<Chain>, script: &BTreeMap<usize, Ans>) -> Vec<Ev> {
    let rt = tokio::runtime::Builder::new_current_thread().enable_time().start_paused(true).build().expect("runtime");
    let state = SharedMutex::new(State::new(cfg.init_committed, cfg.tips[0]));
    let env = Arc::new(Env {
        chain: chain.clone(),
        state: state.clone(),
        inner: Mutex::new(EnvInner { script: script.clone(), next_call: 0, log: vec![], checked_ok: BTreeSet::new(), top_tip: *cfg.tips.iter().max().unwrap(), fault: None }),
    });
    let env2 = env.clone();
    let cfg = cfg.clone();
    rt.block_on(async move {
        let env = env2;
        let notify = Arc::new(Notify::new());
        let params = Config { block_stream_buffer_size: cfg.buffer, header_batch_size: cfg.batch };
        let mut import = Import::new(state.clone(), notify.clone(), params, Arc::new(P2p(env.clone())), Arc::new(Exec(env.clone())), Arc::new(Cons(env.clone())));
        let (_tx, rx) = tokio::sync::watch::channel(fuel_core_services::State::Started);
        let mut watcher: StateWatcher = rx.into();
        for (round, tip) in cfg.tips.iter().enumerate() {
            if round > 0 {
                // the sync task saw the tip (again) on the height stream
                state.apply(|s| s.observe(*tip));
            }
            notify.notify_one();
            let r = tokio::time::timeout(Duration::from_secs(86_400), import.import(&mut watcher)).await;
            let (ok, hung) = match r {
                Ok(Ok(_)) => (true, false),
                Ok(Err(_)) => (false, false),
                Err(_) => (false, true),
            };
            let st = state.apply(|s| format!("{s:?}"));
            env.log(Ev::Round { round, ok, hung, state: st });
            if hung {
                break;
            }
        }
        // let every detached fetch task finish (virtual time)
        tokio::time::sleep(Duration::from_secs(3_600)).await;
    });
    drop(rt);
    let mut g = env.inner.lock().unwrap_or_else(|e| e.into_inner());
    if let Some(f) = g.fault.take() {
        machinery_failure(&format!("C26 harness: {f}"));
    }
    std::mem::take(&mut g.log)
}

// ---------------------------------------------------------------------------
// oracle
// ---------------------------------------------------------------------------

fn bad_reason(r: &PeerReportReason) -> bool {
    !matches!(r, PeerReportReason::SuccessfulBlockImport)
}

/// Judges a complete run. Returns the observation string.
pub fn judge(cfg: &Cfg, log: &[Ev]) -> Result<String, Violation> {
    let mut committed = cfg.init_committed;
    let mut obs = String::new();
    // per peer: answers given, reports received
    let mut answers: BTreeMap<usize, Vec<Ans>> = BTreeMap::new();
    let mut reports: BTreeMap<usize, Vec<PeerReportReason>> = BTreeMap::new();
    let mut executed_this_round: BTreeSet<u32> = BTreeSet::new();
    let mut fetched_this_round: Vec<(u32, u32)> = vec![];
    for ev in log {
        match ev {
            Ev::Headers { peer, ans, start, end, .. } => {
                answers.entry(*peer).or_default().push(ans.clone());
                fetched_this_round.push((*start, *end));
                obs.push_str(&format!("H{start}..{end}:{} ", ans.name()));
            }
            Ev::Txs { peer, ans, start, end, from_peer, .. } => {
                answers.entry(*peer).or_default().push(ans.clone());
                obs.push_str(&format!("T{}{start}..{end}:{} ", if *from_peer { "p" } else { "" }, ans.name()));
            }
            Ev::Check { height, valid } => obs.push_str(&format!("c{height}{} ", if *valid { "" } else { "!" })),
            Ev::Report { peer, reason } => {
                reports.entry(*peer).or_default().push(*reason);
                obs.push_str(&format!("R{peer}:{reason:?} "));
            }
            Ev::Round { round, ok, hung, state } => {
                if *hung {
                    machinery_failure(&format!("C26: import round {round} did not finish within a virtual day (hang) — log: {obs}"));
                }
                obs.push_str(&format!("|round{round}:{} {state}| ", if *ok { "ok" } else { "err" }));
                executed_this_round.clear();
                fetched_this_round.clear();
            }
            Ev::Exec { height, canonical_header, checked, txs_match, ans, .. } => {
                obs.push_str(&format!("X{height}:{} ", ans.name()));
                let expected = committed.map_or(0, |c| c + 1);
                if *height != expected {
                    let class = if committed.map(|c| *height <= c).unwrap_or(false) {
                        // witness class: was this height executed earlier in the SAME round, after a
                        // header request of this round had (re)fetched it?  (a cached block served
                        // again behind a network chunk that overlaps it)
                        if executed_this_round.contains(height) && fetched_this_round.iter().any(|(s, e)| s <= height && height < e) {
                            "re-executes-a-committed-height:cached-block-after-the-same-height-was-refetched-in-this-round"
                        } else {
                            "re-executes-a-committed-height:other"
                        }
                    } else if *height > expected {
                        "skips-a-height"
                    } else {
                        "other"
                    };
                    return Err(viol(
                        format!("execution-order:{class}"),
                        format!("execute_and_commit was called for height {height} while the committed height is {committed:?} (expected height {expected}); run: {obs}"),
                    ));
                }
                executed_this_round.insert(*height);
                if !*canonical_header {
                    return Err(viol("executed-block-whose-header-consensus-rejects", format!("execute_and_commit got a block at height {height} whose sealed header the consensus port marks invalid; run: {obs}")));
                }
                if !*checked {
                    return Err(viol("executed-block-whose-header-was-never-checked", format!("execute_and_commit got a block at height {height} whose sealed header never passed check_sealed_header; run: {obs}")));
                }
                if !*txs_match {
                    return Err(viol("executed-block-with-mismatching-transactions", format!("execute_and_commit got a block at height {height} whose transactions do not match its header; run: {obs}")));
                }
                if !matches!(ans, Ans::EErr) {
                    committed = Some(*height);
                }
            }
        }
    }
    for (peer, given) in &answers {
        let got = reports.get(peer).cloned().unwrap_or_default();
        let reported_bad = got.iter().any(bad_reason);
        if let Some(bad) = given.iter().find(|a| a.is_bad_data()) {
            if !reported_bad {
                return Err(viol(
                    format!("bad-peer-not-reported:{}", bad.what()),
                    format!("peer {peer} supplied bad data ({bad:?}) but was never reported with a negative reason (reports: {got:?}); run: {obs}"),
                ));
            }
        } else if given.iter().all(|a| a.is_correct()) && reported_bad {
            return Err(viol(
                format!("correct-peer-reported-bad:{:?}", got.iter().find(|r| bad_reason(r)).unwrap()),
                format!("peer {peer} answered every request correctly ({given:?}) but was reported {got:?}; run: {obs}"),
            ));
        }
    }
    for peer in reports.keys() {
        if !answers.contains_key(peer) {
            return Err(viol("unknown-peer-reported", format!("a report names peer {peer}, which never answered anything; run: {obs}")));
        }
    }
    Ok(obs)
}

// ---------------------------------------------------------------------------
// subject
// ---------------------------------------------------------------------------

#[derive(Clone)]
pub struct World {
    script: BTreeMap<usize, Ans>,
    /// the calls of the latest run: (call number, kind, start, end)
    calls: Vec<(usize, Kind, u32, u32)>,
    ran: bool,
}

pub struct ImportSubject {
    pub cfg: Cfg,
    pub chain: Arc<Chain>,
}

impl ImportSubject {
    pub fn new(cfg: Cfg) -> ImportSubject {
        let top = *cfg.tips.iter().max().unwrap();
        // room for observed-while-executing tips, "extra" and "wrong height" answers
        let chain = Arc::new(Chain::new(top + 6, cfg.distinct_txs));
        ImportSubject { cfg, chain }
    }

    fn alternatives(&self, kind: Kind, start: u32, end: u32) -> Vec<Ans> {
        let len = (end - start) as usize;
        let mut v = vec![];
        match kind {
            Kind::Headers => {
                v.push(Ans::HErr);
                if len > 0 {
                    v.push(Ans::HShort);
                    v.push(Ans::HEmpty);
                    if self.cfg.thorough_alphabet {
                        v.push(Ans::HNone);
                    }
                    for i in 0..len {
                        v.push(Ans::HBadSeal { i });
                    }
                    for i in 0..len {
                        v.push(Ans::HWrongHeight { i, up: true });
                        if self.cfg.thorough_alphabet && start + i as u32 > 0 {
                            v.push(Ans::HWrongHeight { i, up: false });
                        }
                    }
                }
                v.push(Ans::HExtra);
                v.push(Ans::HSlow);
            }
            Kind::Txs => {
                v.push(Ans::TErr);
                v.push(Ans::TMissing);
                if len > 0 {
                    v.push(Ans::TShort);
                    for i in 0..len {
                        v.push(Ans::TMismatch { i });
                    }
                }
                v.push(Ans::TLong);
                v.push(Ans::TSlow);
            }
            Kind::Exec => {
                v.push(Ans::EErr);
                v.push(Ans::EObserveOk);
                v.push(Ans::ESlow);
            }
        }
        v
    }
}

impl Subject for ImportSubject {
    type World = World;
    type Op = Op;
    fn name(&self) -> String {
        self.cfg.name()
    }
    fn fresh(&self) -> World {
        World { script: BTreeMap::new(), calls: vec![], ran: false }
    }
    fn clone_world(&self, w: &World) -> Option<World> {
        Some(w.clone())
    }
    fn enabled(&self, w: &World) -> Vec<Op> {
        if !w.ran {
            return vec![Op::Run];
        }
        let after = w.script.keys().next_back().copied();
        let mut v = vec![];
        for (call, kind, start, end) in &w.calls {
            if after.map(|a| *call > a).unwrap_or(true) {
                for ans in self.alternatives(*kind, *start, *end) {
                    v.push(Op::Dev { call: *call, ans });
                }
            }
        }
        v
    }
    fn deviation(&self, op: &Op) -> u32 {
        match op {
            Op::Run => 0,
            Op::Dev { .. } => 1,
        }
    }
    fn label(&self, op: &Op) -> String {
        match op {
            Op::Run => "Run".into(),
            Op::Dev { ans, .. } => ans.name().into(),
        }
    }
    fn step(&self, w: &mut World, op: &Op) -> Result<String, Violation> {
        if let Op::Dev { call, ans } = op {
            w.script.insert(*call, ans.clone());
        }
        let log = run_scenario(&self.cfg, &self.chain, &w.script);
        w.ran = true;
        w.calls = log
            .iter()
            .filter_map(|e| match e {
                Ev::Headers { call, start, end, .. } => Some((*call, Kind::Headers, *start, *end)),
                Ev::Txs { call, start, end, .. } => Some((*call, Kind::Txs, *start, *end)),
                Ev::Exec { call, height, .. } => Some((*call, Kind::Exec, *height, *height + 1)),
                _ => None,
            })
            .collect();
        w.calls.sort_by_key(|c| c.0);
        // every scripted deviation must have been consumed by the run
        for k in w.script.keys() {
            if !w.calls.iter().any(|c| c.0 == *k) {
                panic!("scripted call #{k} was never issued (non-deterministic run?)");
            }
        }
        judge(&self.cfg, &log)
    }
    fn canon(&self, w: &World) -> Vec<u8> {
        // two different scripts are two different environment behaviours
        serde_json::to_vec(&(w.ran, &w.script)).unwrap()
    }
    fn interesting(&self, op: &Op, _obs: &str) -> bool {
        matches!(op, Op::Dev { .. })
    }
}

/// Letters that must have fired in a violation-free exploration (vacuity
/// guard; applied by `c26` itself because a violation legitimately cuts
/// branches, e.g. when the all-default run already violates).
fn required_letters() -> Vec<&'static str> {
    vec!["Run", "HErr", "HShort", "HEmpty", "HBadSeal", "HWrongHeightUp", "HExtra", "HSlow", "TErr", "TMissing", "TShort", "TMismatch", "TLong", "TSlow", "EErr", "EObserveOk", "ESlow"]
}

pub fn configs(cli: &Cli) -> Vec<Cfg> {
    let thorough = cli.tier == Tier::Thorough;
    let mut v = vec![];
    let rounds = if thorough { 3 } else { 2 };
    // thorough: also one batch that spans the whole range
    let batches: Vec<usize> = if thorough { vec![1, 2, 3, 7] } else { vec![1, 2, 3] };
    for batch in batches {
        for buffer in [1usize, 2] {
            if batch == 7 && buffer == 2 {
                continue; // a single batch: the buffer size cannot matter
            }
            for distinct_txs in [false, true] {
                // committed 0, observed 6: heights 1..=6
                v.push(Cfg { batch, buffer, init_committed: Some(0), tips: vec![6; rounds], distinct_txs, thorough_alphabet: thorough });
                // nothing committed: the range starts at zero
                v.push(Cfg { batch, buffer, init_committed: None, tips: vec![if thorough { 5 } else { 4 }; rounds], distinct_txs, thorough_alphabet: thorough });
                if thorough {
                    // the tip grows between the rounds
                    v.push(Cfg { batch, buffer, init_committed: Some(0), tips: vec![5, 6, 8], distinct_txs, thorough_alphabet: thorough });
                }
            }
        }
    }
    v
}

pub fn c26(cli: &Cli) {
    let subjects: Vec<ImportSubject> = configs(cli).into_iter().map(ImportSubject::new).collect();
    if let Some(path) = &cli.replay {
        let rf = load_replay(path);
        // replay files may come from the other tier: rebuild that tier's configurations as well
        let mut all: Vec<ImportSubject> = subjects;
        for t in [Tier::Quick, Tier::Thorough] {
            let mut c = cli.clone();
            c.tier = t;
            all.extend(configs(&c).into_iter().map(ImportSubject::new));
        }
        for s in &all {
            if s.name() == rf.subject {
                replay_and_exit(s, &rf);
            }
        }
        machinery_failure("replay: unknown subject");
    }
    let mut run = Run::new(cli, "model_checking");
    // VERIF_C26_DEVS overrides the deviation bound for experiments only (the registered tiers never set it)
    let devs: u32 = std::env::var("VERIF_C26_DEVS").ok().and_then(|s| s.parse().ok()).unwrap_or(cli.tier.pick(2, 3));
    let per_cap = cli.tier.pick(45u64, 1300);
    let t0 = std::time::Instant::now();
    let mut total = Report { subject: format!("{} import configurations (merged)", subjects.len()), exhaustive: true, max_depth_bound: 1 + devs as usize, max_deviations: Some(devs), ..Default::default() };
    let mut shown = 0;
    let mut any_violation = false;
    // one witness per signature (the first configuration that shows it); the
    // per-configuration picture goes into the evidence note below
    let mut seen_sigs: BTreeSet<String> = BTreeSet::new();
    let mut by_config: BTreeMap<String, Vec<String>> = BTreeMap::new();
    for s in &subjects {
        let left = per_cap.saturating_sub(t0.elapsed().as_secs()).max(1);
        let b = Bounds::new(1 + devs as usize, cli).deviations(devs).wall(left);
        let mut r = explore(s, &b);
        for v in &r.violations {
            by_config.entry(v.sig.clone()).or_default().push(s.name());
        }
        if r.violations.is_empty() {
            for l in required_letters() {
                if !r.label_hits.contains_key(l) {
                    machinery_failure(&format!("{}: vacuous exploration, letter {l} never fired", s.name()));
                }
            }
        }
        let had_violation = !r.violations.is_empty();
        any_violation |= had_violation;
        r.violations.retain(|v| seen_sigs.insert(v.sig.clone()));
        if !r.violations.is_empty() || !r.exhaustive || (shown < 2 && !had_violation) {
            shown += 1;
            run.add(r);
        } else {
            total.states += r.states;
            total.transitions += r.transitions;
            total.replayed_prefixes += r.replayed_prefixes;
            total.depth_completed = total.depth_completed.max(r.depth_completed);
            total.distinct_observations += r.distinct_observations;
            total.interesting_transitions += r.interesting_transitions;
            total.distinct_interesting += r.distinct_interesting;
            total.terminal_states += r.terminal_states;
            for (k, v) in r.label_hits {
                *total.label_hits.entry(k).or_default() += v;
            }
            if total.samples.len() < 3 {
                total.samples.extend(r.samples.into_iter().rev().take(1));
            }
            total.wall_s += r.wall_s;
        }
    }
    if total.transitions > 0 && (total.distinct_observations >= 2 || !any_violation) {
        run.add(total);
    } else if total.transitions > 0 {
        // (nearly) every configuration violated right away: the merged rest is too small to be a report of its own
        run.note("merged_rest", json!({"states": total.states, "transitions": total.transitions}));
    }
    run.note("configurations", json!(subjects.iter().map(|s| s.name()).collect::<Vec<_>>()));
    run.note("violating_configurations_by_signature", json!(by_config));
    run.assume("a state is an environment script (set of non-default answers keyed by port-call number); each transition re-runs all import rounds from scratch on the real Import with a fresh runtime (current-thread, paused clock), so every explored history is executed by the real code");
    run.assume("the consensus port is a pure function: it accepts exactly the canonical sealed header of a height; await_da_height always succeeds; no shutdown is signalled");
    run.assume("a peer 'supplied bad data' if one of its answers was short/empty/None headers, a header of the wrong height, a header with a rejected seal, None transactions, a transactions list shorter than the request, or transactions not matching the header; any negative report reason counts as reported; failed (Err) and over-long answers are judged neither way");
    run.finish();
}
