//! vh-sync — C26 (sync import order / header checks / peer reports),
//! C27 (batching partitions ranges), C28 (sync status describes the gap)
//! on the real `fuel-core-sync` crate.
mod c26;
mod c27;
mod c28;
mod chain;

fn main() {
    let cli = mcx::Cli::parse();
    match cli.property.as_str() {
        "C26" => c26::c26(&cli),
        "C27" => c27::c27(&cli),
        "C28" => c28::c28(&cli),
        other => mcx::machinery_failure(&format!("vh-sync does not serve {other}")),
    }
}
