//! C27 — sync batching partitions every requested range exactly.
//!
//! Exhaustive input sweep over the REAL private `Cache::get_chunks`
//! (through `fuel_core_sync::import::verif_hooks::get_chunks`).
use crate::chain::*;
use fuel_core_sync::import::verif_hooks::{get_chunks, CachedItem, ChunkView};
use fuel_core_types::blockchain::{SealedBlock, SealedBlockHeader};
use mcx::*;
use serde_json::{json, Value};
use std::num::NonZeroU32;
use std::ops::Range;

pub struct Universe {
    pub offset: u32,
    pub n: u32,
    headers: Vec<SealedBlockHeader>,
    blocks: Vec<SealedBlock>,
}

impl Universe {
    pub fn new(offset: u32, n: u32) -> Universe {
        let mut headers = vec![];
        let mut blocks = vec![];
        for i in 0..n {
            let h = offset + i;
            // the cached *header* of a height and the cached *block* of that
            // height are different objects (different time stamp, seal and
            // transactions), so a chunk of the wrong kind or with a foreign
            // item cannot compare equal by accident
            headers.push(header_of(&sealed_block(h, 1, vec![], 1)));
            blocks.push(sealed_block(h, 2, vec![tx(i)], 2));
        }
        Universe { offset, n, headers, blocks }
    }
}

fn pow3(n: u32) -> usize {
    3usize.pow(n)
}

fn decode_cache(mut code: usize, n: u32) -> Vec<u8> {
    let mut v = vec![];
    for _ in 0..n {
        v.push((code % 3) as u8);
        code /= 3;
    }
    v
}

fn view_range(v: &ChunkView) -> Range<u32> {
    match v {
        ChunkView::Missing(r) => r.clone(),
        ChunkView::Headers { range, .. } => range.clone(),
        ChunkView::Blocks { range, .. } => range.clone(),
    }
}

fn view_str(v: &ChunkView) -> String {
    match v {
        ChunkView::Missing(r) => format!("None({}..{})", r.start, r.end),
        ChunkView::Headers { range, items, .. } => format!(
            "Headers({}..{} items@{:?})",
            range.start,
            range.end,
            items.iter().map(height_of_header).collect::<Vec<_>>()
        ),
        ChunkView::Blocks { range, items, .. } => format!(
            "Blocks({}..{} items@{:?})",
            range.start,
            range.end,
            items.iter().map(height_of_block).collect::<Vec<_>>()
        ),
    }
}

pub fn chunks_str(c: &[ChunkView]) -> String {
    c.iter().map(view_str).collect::<Vec<_>>().join(", ")
}

/// Runs the real code on one input. `cache[i]`: 0 absent, 1 header, 2 block
/// for height `offset+i`; range `[a,b]` (absolute heights), batch size `s`.
pub fn run_real(u: &Universe, cache: &[u8], a: u32, b: u32, s: u32) -> Vec<ChunkView> {
    let mut items = vec![];
    for (i, k) in cache.iter().enumerate() {
        match k {
            1 => items.push(CachedItem::Header(u.headers[i].clone())),
            2 => items.push(CachedItem::Block(u.blocks[i].clone())),
            _ => {}
        }
    }
    get_chunks(items, a..=b, NonZeroU32::new(s).expect("batch size >= 1"))
}

/// The oracle, as the statement puts it.  Returns (outcome class, verdict).
pub fn oracle(u: &Universe, cache: &[u8], a: u32, b: u32, s: u32, chunks: &[ChunkView]) -> (String, Result<(), Violation>) {
    let kind_at = |h: u32| -> u8 {
        if h < u.offset || h - u.offset >= u.n {
            0
        } else {
            cache[(h - u.offset) as usize]
        }
    };
    let describe = || {
        format!(
            "range {a}..={b}, batch {s}, cache {:?} (heights {}..; 0 absent 1 header 2 block) -> [{}]",
            cache,
            u.offset,
            chunks_str(chunks)
        )
    };
    let end_excl = b as u64 + 1;
    let mut class = String::new();
    let mut n_missing = 0;
    let mut n_hdr = 0;
    let mut n_blk = 0;
    let mut has_empty = false;
    // 1. consecutive, non-overlapping, covering exactly [a,b] in order
    let mut expected_start = a as u64;
    for (i, c) in chunks.iter().enumerate() {
        let r = view_range(c);
        match c {
            ChunkView::Missing(_) => n_missing += 1,
            ChunkView::Headers { .. } => n_hdr += 1,
            ChunkView::Blocks { .. } => n_blk += 1,
        }
        if r.start >= r.end {
            has_empty = true;
        }
        if (r.start as u64) < expected_start {
            let prev_missing = i > 0 && matches!(chunks[i - 1], ChunkView::Missing(_));
            let this_cached = !matches!(c, ChunkView::Missing(_));
            let sig = if prev_missing && this_cached {
                "overlap:missing-chunk-runs-past-next-cached-height"
            } else {
                "overlap:other"
            };
            return (
                "violation".into(),
                Err(viol(
                    sig,
                    format!(
                        "chunk {i} starts at {} but the previous chunk already covers heights up to {} (expected consecutive, non-overlapping batches): {}",
                        r.start,
                        expected_start - 1,
                        describe()
                    ),
                )),
            );
        }
        if (r.start as u64) > expected_start {
            return (
                "violation".into(),
                Err(viol("gap", format!("chunk {i} starts at {} but height {} is not covered yet: {}", r.start, expected_start, describe()))),
            );
        }
        expected_start = (r.end as u64).max(expected_start);
        // 2. size
        if (r.end.saturating_sub(r.start)) > s {
            return (
                "violation".into(),
                Err(viol("chunk-larger-than-batch-size", format!("chunk {i} has {} heights > batch size {s}: {}", r.end - r.start, describe()))),
            );
        }
    }
    if expected_start < end_excl {
        return (
            "violation".into(),
            Err(viol("range-not-covered-to-the-end", format!("chunks end at {} but the range ends at {b}: {}", expected_start as i64 - 1, describe()))),
        );
    }
    if expected_start > end_excl {
        return (
            "violation".into(),
            Err(viol("chunks-run-past-range-end", format!("chunks cover up to {} but the range ends at {b}: {}", expected_start - 1, describe()))),
        );
    }
    // 3. cached batches carry exactly the cached items of their heights
    for (i, c) in chunks.iter().enumerate() {
        match c {
            ChunkView::Missing(_) => {}
            ChunkView::Headers { range, items, .. } => {
                let want: Vec<Option<&SealedBlockHeader>> = range
                    .clone()
                    .map(|h| if kind_at(h) == 1 { Some(&u.headers[(h - u.offset) as usize]) } else { None })
                    .collect();
                let ok = want.len() == items.len() && want.iter().zip(items.iter()).all(|(w, g)| w.map(|w| w == g).unwrap_or(false));
                if !ok {
                    return (
                        "violation".into(),
                        Err(viol(
                            "cached-header-batch-content",
                            format!("header chunk {i} does not carry exactly the cached headers of its heights (cached kinds there: {:?}): {}", range.clone().map(kind_at).collect::<Vec<_>>(), describe()),
                        )),
                    );
                }
            }
            ChunkView::Blocks { range, items, .. } => {
                let want: Vec<Option<&SealedBlock>> = range
                    .clone()
                    .map(|h| if kind_at(h) == 2 { Some(&u.blocks[(h - u.offset) as usize]) } else { None })
                    .collect();
                let ok = want.len() == items.len() && want.iter().zip(items.iter()).all(|(w, g)| w.map(|w| w == g).unwrap_or(false));
                if !ok {
                    return (
                        "violation".into(),
                        Err(viol(
                            "cached-block-batch-content",
                            format!("block chunk {i} does not carry exactly the cached blocks of its heights (cached kinds there: {:?}): {}", range.clone().map(kind_at).collect::<Vec<_>>(), describe()),
                        )),
                    );
                }
            }
        }
    }
    // outcome class (coverage statistics only)
    let refetch = chunks.iter().any(|c| matches!(c, ChunkView::Missing(r) if r.clone().any(|h| kind_at(h) != 0)));
    class.push_str(&format!(
        "{}{}{}{}{}",
        if n_missing > 0 { "N" } else { "-" },
        if n_hdr > 0 { "H" } else { "-" },
        if n_blk > 0 { "B" } else { "-" },
        if has_empty { "+empty-chunk" } else { "" },
        if refetch { "+cached-height-inside-missing-chunk" } else { "" },
    ));
    (class, Ok(()))
}

/// Violations found by a sweep, one per signature: the *smallest* witness
/// (fewest cached items, shortest range, smallest batch) so that the reported
/// counterexample does not depend on thread timing.
type Best = std::sync::Mutex<std::collections::BTreeMap<String, ((u32, u32, u32, usize), Violation, Value)>>;

fn sweep_universe(cli: &Cli, u: &Universe, name: &str, run: &mut Run) {
    let n = u.n;
    let best: Best = Default::default();
    let sw = par_sweep(
        name,
        "every cache content (each height absent/header/block) x every range [a,b] x every batch size 1..=len+1 on the real Cache::get_chunks; non-trivial = the requested range holds both cached and missing heights; distinct by (range, batch size, cache content inside the range)",
        pow3(n),
        cli.threads,
        |code, sw| {
            let cache = decode_cache(code, n);
            let cached_items = cache.iter().filter(|k| **k != 0).count() as u32;
            for ai in 0..n {
                for bi in ai..n {
                    let len = bi - ai + 1;
                    let (a, b) = (u.offset + ai, u.offset + bi);
                    let inside = &cache[ai as usize..=bi as usize];
                    let mixed = inside.iter().any(|k| *k != 0) && inside.iter().any(|k| *k == 0);
                    for s in 1..=len + 1 {
                        let r = guarded(|| run_real(u, &cache, a, b, s));
                        let input = || json!({"offset": u.offset, "n": n, "cache": cache, "range": [a, b], "batch": s});
                        let nontrivial = if mixed { Some(hash_of(&(ai, bi, s, inside))) } else { None };
                        let (class, res) = match r {
                            Err(p) => ("panic".to_string(), Err(viol("panic", format!("get_chunks panicked: {p}")))),
                            Ok(chunks) => oracle(u, &cache, a, b, s, &chunks),
                        };
                        match res {
                            Ok(()) => sw.case(nontrivial, &class, input, Ok(())),
                            Err(v) => {
                                sw.case(nontrivial, &format!("VIOLATION {}", v.sig), input, Ok(()));
                                let rank = (cached_items, len, s, code);
                                let mut g = best.lock().unwrap();
                                let better = g.get(&v.sig).map(|(r, _, _)| rank < *r).unwrap_or(true);
                                if better {
                                    g.insert(v.sig.clone(), (rank, v, input()));
                                }
                            }
                        }
                    }
                }
            }
        },
    );
    run.add_sweep(sw);
    for (_, (_, v, input)) in best.into_inner().unwrap() {
        run.violation(name, v, input);
    }
}

fn replay(cli: &Cli) -> ! {
    let rf = load_replay(cli.replay.as_ref().unwrap());
    let h: &Value = &rf.history;
    let offset = h["offset"].as_u64().unwrap() as u32;
    let n = h["n"].as_u64().unwrap() as u32;
    let cache: Vec<u8> = h["cache"].as_array().unwrap().iter().map(|x| x.as_u64().unwrap() as u8).collect();
    let a = h["range"][0].as_u64().unwrap() as u32;
    let b = h["range"][1].as_u64().unwrap() as u32;
    let s = h["batch"].as_u64().unwrap() as u32;
    let u = Universe::new(offset, n);
    match guarded(|| run_real(&u, &cache, a, b, s)) {
        Err(p) => {
            println!("replay: get_chunks panicked: {p}");
            println!("VIOLATION property=C27 replay=(replayed)");
            std::process::exit(1)
        }
        Ok(chunks) => {
            println!("replay: range {a}..={b} batch {s} cache {cache:?} -> [{}]", chunks_str(&chunks));
            match oracle(&u, &cache, a, b, s, &chunks).1 {
                Ok(()) => {
                    println!("replay: no violation");
                    std::process::exit(0)
                }
                Err(v) => {
                    println!("replay: violation {} / {}", v.sig, v.msg);
                    println!("VIOLATION property=C27 replay=(replayed)");
                    std::process::exit(1)
                }
            }
        }
    }
}

pub fn c27(cli: &Cli) {
    if cli.replay.is_some() {
        replay(cli);
    }
    let mut run = Run::new(cli, "exploration");
    let n: u32 = cli.tier.pick(8, 11);
    let low = Universe::new(0, n);
    sweep_universe(cli, &low, &format!("get_chunks over heights 0..{}", n - 1), &mut run);
    // the same universe shifted to the top of the height space (largest range
    // whose exclusive end is still representable): exercises the saturating
    // arithmetic of get_chunks / push_missing_chunks
    let top_n: u32 = cli.tier.pick(6, 9);
    let top = Universe::new(u32::MAX - top_n, top_n);
    sweep_universe(cli, &top, &format!("get_chunks over heights (u32::MAX-{top_n})..(u32::MAX-1)"), &mut run);
    // informational: a range that ends at u32::MAX itself cannot be expressed
    // by the exclusive `Range<u32>` chunks at all; recorded, not judged
    let edge = Universe::new(u32::MAX - 2, 3);
    let chunks = guarded(|| run_real(&edge, &[0, 0, 0], u32::MAX - 2, u32::MAX, 2));
    run.note(
        "informational_range_ending_at_u32_max",
        json!({"input": "range (u32::MAX-2)..=u32::MAX, batch 2, empty cache", "chunks": chunks.map(|c| chunks_str(&c)).unwrap_or_else(|p| format!("panic: {p}")), "judged": false}),
    );
    run.assume("cached items are inserted one by one through the real insert_headers/insert_blocks; one item per height (a BTreeMap keyed by height cannot hold two)");
    run.assume("a missing (None) chunk that contains a cached height is judged only through the overlap/coverage clauses; the statement does not oblige the cache to be used");
    run.assume("ranges ending at u32::MAX itself are not judged: the chunk type Range<u32> cannot include that height");
    run.finish();
}
