//! vh-storage: C10 (storage transactions), C13 (block Merkle accumulator),
//! C14 (sparse Merkle roots) on the real fuel-core-storage code.
mod c10;
mod c13;
mod c14;
mod kv;

use mcx::*;

/// Vacuity guard: every letter class must have fired — unless violations were
/// found (a violation ends its branch, so letters behind it may be unreachable;
/// the verdict is then the violation, not a machinery failure).
pub fn require_labels(r: &Report, labels: &[&str]) {
    if !r.violations.is_empty() {
        return;
    }
    for l in labels {
        if !r.label_hits.contains_key(*l) {
            machinery_failure(&format!("{}: vacuous exploration, letter {l} never fired", r.subject));
        }
    }
}

fn main() {
    let cli = Cli::parse();
    match cli.property.as_str() {
        "C10" => c10::run(&cli),
        "C13" => c13::run(&cli),
        "C14" => c14::run(&cli),
        other => machinery_failure(&format!("vh-storage does not serve {other}")),
    }
}
