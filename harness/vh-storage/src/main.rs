//! vh-storage: C10 (storage transactions), C13 (block Merkle accumulator),
//! C14 (sparse Merkle roots) on the real fuel-core-storage code.
mod c10;
mod c13;
mod c14;
mod kv;

use mcx::*;

fn main() {
    let cli = Cli::parse();
    match cli.property.as_str() {
        "C10" => c10::run(&cli),
        "C13" => c13::run(&cli),
        "C14" => c14::run(&cli),
        other => machinery_failure(&format!("vh-storage does not serve {other}")),
    }
}
