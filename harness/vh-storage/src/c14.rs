//! C14 — sparse Merkle roots always match the table contents.
//!
//! In this tree the only tables on the `Sparse` blueprint are the
//! compression-service registry tables `Merkleized<T>` (one sparse tree per
//! table; primary key = the table's column id; all roots live in one shared
//! `MerkleMetadata` column). `ContractsState` / `ContractsAssets` are `Plain`
//! here and carry no root.
//!
//! Real code: `StorageTransaction<&MemKv<MerkleizedColumn<CompressionColumn>>>`
//! and `StorageMutate` / `StorageBatchMutate` / `MerkleRootStorage` of the
//! real tables. Reference: `sparse::in_memory::MerkleTree::root_from_set` over
//! the raw (key bytes, value bytes) entries currently in the table's column.
use crate::kv::{apply_changes, digest_state, Flat, MemKv};
use fuel_core_compression_service::storage::{
    self as cs,
    column::CompressionColumn,
    timestamps::{TimestampKey, TimestampKeyspace},
};
use fuel_core_storage::{
    kv_store::StorageColumn,
    merkle::column::MerkleizedColumn,
    structured_storage::TableWithBlueprint,
    transactional::{Changes, ConflictPolicy, StorageTransaction},
    MerkleRootStorage, StorageBatchMutate, StorageInspect, StorageMutate,
};
use fuel_core_types::{
    fuel_compression::RegistryKey,
    fuel_merkle::sparse::{in_memory::MerkleTree as RefTree, MerkleTreeKey},
    fuel_tx::{Address, ScriptCode},
    tai64::Tai64,
};
use mcx::*;
use serde::{Deserialize, Serialize};
use std::collections::BTreeMap;

type Col = MerkleizedColumn<CompressionColumn>;
type Base = MemKv<Col>;
type Tx<'a> = StorageTransaction<&'a Base>;

const TABLE_NAMES: [&str; 3] = ["Address", "ScriptCode", "Timestamps"];

fn reg_key(i: u8) -> RegistryKey {
    let raw: u32 = match i {
        0 => 0,
        1 => 1,
        2 => 0x00_01_00,
        _ => 0x00_FF_FF_FE, // RegistryKey::MAX_WRITABLE
    };
    RegistryKey::try_from(raw).unwrap()
}

// ---- alphabets of the three real tables ------------------------------------------

fn address_key(i: u8) -> RegistryKey {
    reg_key(i)
}
fn address_val(i: u8) -> Address {
    Address::new([0x11 * (i + 1); 32])
}
fn script_key(i: u8) -> RegistryKey {
    reg_key(i)
}
fn script_val(i: u8) -> ScriptCode {
    // variant 1 is the EMPTY value
    ScriptCode::new(if i == 0 { vec![0xAA, 0xBB, 0xCC] } else { vec![] })
}
fn ts_key(i: u8) -> TimestampKey {
    match i {
        0 => TimestampKey { keyspace: TimestampKeyspace::Address, key: reg_key(0) },
        1 => TimestampKey { keyspace: TimestampKeyspace::Address, key: reg_key(1) },
        2 => TimestampKey { keyspace: TimestampKeyspace::ScriptCode, key: reg_key(0) },
        _ => TimestampKey { keyspace: TimestampKeyspace::PredicateCode, key: reg_key(3) },
    }
}
fn ts_val(i: u8) -> Tai64 {
    Tai64(1_000 + i as u64)
}

/// `with_table!(t, |T, keyf, valf| body)` — run `body` with the concrete table.
macro_rules! with_table {
    ($t:expr, |$T:ident, $keyf:ident, $valf:ident| $body:expr) => {
        match $t {
            0 => {
                type $T = cs::Address;
                let $keyf = address_key;
                let $valf = address_val;
                $body
            }
            1 => {
                type $T = cs::ScriptCode;
                let $keyf = script_key;
                let $valf = script_val;
                $body
            }
            2 => {
                type $T = cs::Timestamps;
                let $keyf = ts_key;
                let $valf = ts_val;
                $body
            }
            _ => unreachable!("table index"),
        }
    };
}

#[derive(Clone, Debug, Serialize, Deserialize, PartialEq)]
pub enum Op14 {
    Insert { t: u8, k: u8, v: u8 },
    Replace { t: u8, k: u8, v: u8 },
    Remove { t: u8, k: u8 },
    Take { t: u8, k: u8 },
    InitStorage { t: u8, items: Vec<(u8, u8)> },
    InsertBatch { t: u8, items: Vec<(u8, u8)> },
    RemoveBatch { t: u8, ks: Vec<u8> },
    /// commit the pending transaction into the base and open a new one
    Commit,
}

#[derive(Clone)]
pub struct W14 {
    base: Base,
    pending: Changes,
    /// model: table -> key index -> value index
    model: Vec<BTreeMap<u8, u8>>,
}

pub struct S14 {
    name: String,
    /// indices (into TABLE_NAMES) of the tables this subject operates on
    tables: Vec<u8>,
    keys: u8,
    /// richer batch menu (duplicate keys, empty batches)
    rich: bool,
    depth: usize,
}

fn hx(b: &[u8; 32]) -> String {
    hex::encode(&b[..6])
}

fn table_column_id(t: u8) -> u32 {
    with_table!(t, |T, _k, _v| <T as TableWithBlueprint>::column().id())
}

impl S14 {
    pub fn new(tables: &[u8], keys: u8, rich: bool, depth: usize) -> S14 {
        let names: Vec<&str> = tables.iter().map(|t| TABLE_NAMES[*t as usize]).collect();
        S14 { name: format!("Merkleized registry tables {names:?} keys={keys} rich={rich} depth={depth}"), tables: tables.to_vec(), keys, rich, depth }
    }

    /// The subjects of a tier: deep single-table runs (incremental vs batched
    /// updates of one tree) and shallower multi-table runs (independence of the
    /// primary keys, which share the metadata column).
    pub fn subjects(thorough: bool) -> Vec<S14> {
        if thorough {
            vec![S14::new(&[1], 4, true, 6), S14::new(&[0], 3, false, 7), S14::new(&[0, 1, 2], 3, false, 5), S14::new(&[2, 1], 2, true, 5)]
        } else {
            vec![S14::new(&[0], 3, false, 5), S14::new(&[1, 0], 2, false, 4)]
        }
    }

    fn pos(&self, t: u8) -> usize {
        self.tables.iter().position(|x| *x == t).unwrap()
    }

    /// Recorded roots of all tables, through the real `MerkleRootStorage`.
    fn roots(&self, tx: &Tx<'_>) -> Result<Vec<[u8; 32]>, Violation> {
        let mut out = vec![];
        for t in self.tables.iter().copied() {
            let pk = table_column_id(t);
            let r = with_table!(t, |T, _k, _v| MerkleRootStorage::<u32, T>::root(tx, &pk));
            out.push(r.map_err(|e| viol("root-unreadable", format!("root of table {} cannot be read: {e:?}", TABLE_NAMES[t as usize])))?);
        }
        Ok(out)
    }

    /// Typed contents for the alphabet keys: table -> key idx -> Some(value idx) / None; `Err` if a value is unknown.
    fn typed_contents(&self, tx: &Tx<'_>) -> Result<Vec<BTreeMap<u8, u8>>, Violation> {
        let mut out = vec![];
        for t in self.tables.iter().copied() {
            let mut m = BTreeMap::new();
            // all four key indices: batches may use keys beyond `self.keys`
            for k in 0..4u8 {
                let got: Option<u8> = with_table!(t, |T, keyf, valf| {
                    let v = StorageInspect::<T>::get(tx, &keyf(k)).map_err(|e| viol("storage-error", format!("get: {e:?}")))?;
                    match v {
                        None => None,
                        Some(v) => {
                            let v = v.into_owned();
                            let idx = (0..2u8).find(|i| valf(*i) == v);
                            match idx {
                                Some(i) => Some(i),
                                None => return Err(viol("contents-mismatch", format!("table {} key #{k} holds a value that was never written: {v:?}", TABLE_NAMES[t as usize]))),
                            }
                        }
                    }
                });
                if let Some(v) = got {
                    m.insert(k, v);
                }
            }
            out.push(m);
        }
        Ok(out)
    }

    /// From-scratch reference root over the raw entries of table `t` in `flat`.
    fn reference_root(&self, flat: &Flat, t: u8) -> ([u8; 32], usize) {
        let col = table_column_id(t);
        let entries: Vec<(&Vec<u8>, &Vec<u8>)> = flat.range((col, vec![])..).take_while(|((c, _), _)| *c == col).map(|((_, k), v)| (k, v)).collect();
        let root = RefTree::root_from_set(entries.iter().map(|(k, v)| (MerkleTreeKey::new(k.as_slice()), v.as_slice())));
        (root, entries.len())
    }

    fn exec<T>(&self, w: &mut W14, f: impl FnOnce(&mut Tx<'_>) -> T) -> Result<(Vec<[u8; 32]>, T, Vec<[u8; 32]>, Vec<BTreeMap<u8, u8>>), Violation> {
        let mut tx: Tx<'_> = StorageTransaction::transaction(&w.base, ConflictPolicy::Overwrite, std::mem::take(&mut w.pending));
        let before = self.roots(&tx);
        let r = f(&mut tx);
        let after = self.roots(&tx);
        let contents = self.typed_contents(&tx);
        w.pending = tx.into_changes();
        Ok((before?, r, after?, contents?))
    }

    /// The oracle proper.
    fn check(&self, w: &W14, touched: Option<u8>, before: &[[u8; 32]], after: &[[u8; 32]], contents: &[BTreeMap<u8, u8>], what: &str) -> Result<String, Violation> {
        // current entries = committed base overlaid with the pending changes
        let mut flat = w.base.map.clone();
        apply_changes(&mut flat, &w.pending);
        let mut obs = String::new();
        for (i, t) in self.tables.iter().copied().enumerate() {
            let (want, n) = self.reference_root(&flat, t);
            let got = after[i];
            if got != want {
                return Err(viol(
                    "root-mismatch",
                    format!(
                        "after {what}: root recorded for table {} (primary key {}) is {}, the sparse Merkle root from scratch over its {n} current entries is {}; model contents {:?}",
                        TABLE_NAMES[t as usize],
                        table_column_id(t),
                        hx(&got),
                        hx(&want),
                        w.model[i]
                    ),
                ));
            }
            if Some(t) != touched && before[i] != got {
                return Err(viol(
                    "other-root-changed",
                    format!("{what} changed the root of the untouched table {}: {} -> {}", TABLE_NAMES[t as usize], hx(&before[i]), hx(&got)),
                ));
            }
            // the model (what the operations are meant to do) agrees with the table
            if contents[i] != w.model[i] {
                return Err(viol("contents-mismatch", format!("after {what}: table {} holds {:?} (key idx -> value idx), the model has {:?}", TABLE_NAMES[t as usize], contents[i], w.model[i])));
            }
            if n != w.model[i].len() {
                return Err(viol("contents-mismatch", format!("after {what}: table {} has {n} raw entries, the model has {}", TABLE_NAMES[t as usize], w.model[i].len())));
            }
            obs.push_str(&hx(&got)[..6]);
            obs.push(' ');
        }
        Ok(obs)
    }
}

impl Subject for S14 {
    type World = W14;
    type Op = Op14;

    fn name(&self) -> String {
        self.name.clone()
    }

    fn fresh(&self) -> W14 {
        W14 { base: Base::default(), pending: Changes::default(), model: vec![BTreeMap::new(); self.tables.len()] }
    }

    fn clone_world(&self, w: &W14) -> Option<W14> {
        Some(w.clone())
    }

    fn enabled(&self, _w: &W14) -> Vec<Op14> {
        let mut v = vec![];
        for t in self.tables.iter().copied() {
            for k in 0..self.keys {
                for val in 0..2u8 {
                    v.push(Op14::Insert { t, k, v: val });
                }
            }
        }
        for t in self.tables.iter().copied() {
            for k in 0..self.keys {
                for val in 0..2u8 {
                    v.push(Op14::Replace { t, k, v: val });
                }
            }
        }
        for t in self.tables.iter().copied() {
            for k in 0..self.keys {
                v.push(Op14::Remove { t, k });
                v.push(Op14::Take { t, k });
            }
        }
        for t in self.tables.iter().copied() {
            let mut inits: Vec<Vec<(u8, u8)>> = vec![vec![(0, 0), (1, 1)], vec![(2, 0), (1, 0), (0, 1)]];
            let mut ins: Vec<Vec<(u8, u8)>> = vec![vec![(0, 1), (1, 0)], vec![(1, 1), (2, 1)], vec![(2, 0)]];
            let mut rem: Vec<Vec<u8>> = vec![vec![0, 1], vec![1, 2], vec![2, 1, 0]];
            if self.rich {
                inits.push(vec![(3, 0), (3, 1)]); // the same key twice: the last one wins
                inits.push(vec![]);
                ins.push(vec![(0, 0), (0, 1), (3, 0)]);
                ins.push(vec![]);
                rem.push(vec![3, 3, 0]);
                rem.push(vec![]);
            }
            for items in inits {
                v.push(Op14::InitStorage { t, items });
            }
            for items in ins {
                v.push(Op14::InsertBatch { t, items });
            }
            for ks in rem {
                v.push(Op14::RemoveBatch { t, ks });
            }
        }
        v.push(Op14::Commit);
        v
    }

    fn step(&self, w: &mut W14, op: &Op14) -> Result<String, Violation> {
        let what = format!("{op:?}");
        match op {
            Op14::Commit => {
                let tx = StorageTransaction::transaction(&mut w.base, ConflictPolicy::Overwrite, std::mem::take(&mut w.pending));
                tx.commit().map_err(|e| viol("commit-failed", format!("{e:?}")))?;
                let (before, _, after, contents) = self.exec(w, |_| ())?;
                let obs = self.check(w, None, &before, &after, &contents, &what)?;
                Ok(format!("commit {obs}"))
            }
            Op14::Insert { t, k, v } | Op14::Replace { t, k, v } => {
                let is_insert = matches!(op, Op14::Insert { .. });
                let (before, r, after, contents) = self.exec(w, |tx| {
                    with_table!(*t, |T, keyf, valf| {
                        if is_insert {
                            StorageMutate::<T>::insert(tx, &keyf(*k), &valf(*v)).map(|_| String::new())
                        } else {
                            StorageMutate::<T>::replace(tx, &keyf(*k), &valf(*v)).map(|p| format!("prev={}", p.is_some()))
                        }
                    })
                })?;
                let r = r.map_err(|e| viol("op-failed", format!("{what} failed: {e:?}")))?;
                w.model[self.pos(*t)].insert(*k, *v);
                let obs = self.check(w, Some(*t), &before, &after, &contents, &what)?;
                Ok(format!("{r} {obs}"))
            }
            Op14::Remove { t, k } | Op14::Take { t, k } => {
                let is_take = matches!(op, Op14::Take { .. });
                let (before, r, after, contents) = self.exec(w, |tx| {
                    with_table!(*t, |T, keyf, _valf| {
                        if is_take {
                            StorageMutate::<T>::take(tx, &keyf(*k)).map(|p| format!("prev={}", p.is_some()))
                        } else {
                            StorageMutate::<T>::remove(tx, &keyf(*k)).map(|_| String::new())
                        }
                    })
                })?;
                let r = r.map_err(|e| viol("op-failed", format!("{what} failed: {e:?}")))?;
                w.model[self.pos(*t)].remove(k);
                let obs = self.check(w, Some(*t), &before, &after, &contents, &what)?;
                Ok(format!("{r} {obs}"))
            }
            Op14::InitStorage { t, items } | Op14::InsertBatch { t, items } => {
                let is_init = matches!(op, Op14::InitStorage { .. });
                let (before, r, after, contents) = self.exec(w, |tx| {
                    with_table!(*t, |T, keyf, valf| {
                        let keys: Vec<_> = items.iter().map(|(k, _)| keyf(*k)).collect();
                        let vals: Vec<_> = items.iter().map(|(_, v)| valf(*v)).collect();
                        let mut it = keys.iter().zip(vals.iter());
                        if is_init {
                            StorageBatchMutate::<T>::init_storage(tx, &mut it)
                        } else {
                            StorageBatchMutate::<T>::insert_batch(tx, &mut it)
                        }
                    })
                })?;
                match r {
                    Ok(()) => {
                        for (k, v) in items {
                            w.model[self.pos(*t)].insert(*k, *v);
                        }
                        let obs = self.check(w, Some(*t), &before, &after, &contents, &what)?;
                        Ok(format!("batch ok {obs}"))
                    }
                    Err(e) if is_init => {
                        // `init_storage` refuses an already initialised tree; the
                        // statement does not say what a refusal leaves behind, so the
                        // model adopts the table as it is and the root oracle decides
                        w.model[self.pos(*t)] = contents[self.pos(*t)].clone();
                        let obs = self.check(w, Some(*t), &before, &after, &contents, &what)?;
                        let _ = e;
                        Ok(format!("init refused {obs}"))
                    }
                    Err(e) => Err(viol("op-failed", format!("{what} failed: {e:?}"))),
                }
            }
            Op14::RemoveBatch { t, ks } => {
                let (before, r, after, contents) = self.exec(w, |tx| {
                    with_table!(*t, |T, keyf, _valf| {
                        let keys: Vec<_> = ks.iter().map(|k| keyf(*k)).collect();
                        StorageBatchMutate::<T>::remove_batch(tx, &mut keys.iter())
                    })
                })?;
                r.map_err(|e| viol("op-failed", format!("{what} failed: {e:?}")))?;
                for k in ks {
                    w.model[self.pos(*t)].remove(k);
                }
                let obs = self.check(w, Some(*t), &before, &after, &contents, &what)?;
                Ok(format!("batch removed {obs}"))
            }
        }
    }

    fn canon(&self, w: &W14) -> Vec<u8> {
        let mut out = serde_json::to_vec(&w.model).unwrap();
        out.extend(digest_state(&w.base.map, &[&w.pending]));
        out
    }

    fn interesting(&self, _op: &Op14, _obs: &str) -> bool {
        true
    }

}

pub fn run(cli: &Cli) {
    if let Some(path) = &cli.replay {
        let rf = load_replay(path);
        for t in [false, true] {
            for s in S14::subjects(t) {
                if s.name() == rf.subject {
                    replay_and_exit(&s, &rf);
                }
            }
        }
        machinery_failure("replay: unknown subject");
    }
    let thorough = cli.tier == Tier::Thorough;
    let mut run = Run::new(cli, "model_checking");
    let subjects = S14::subjects(thorough);
    let n = subjects.len() as u64;
    for s in subjects {
        let b = Bounds::new(s.depth, cli).states(cli.tier.pick(400_000, 4_000_000)).wall(cli.tier.pick(50, 1500) / n);
        let r = explore(&s, &b);
        crate::require_labels(&r, &["Insert", "Replace", "Remove", "Take", "InitStorage", "InsertBatch", "RemoveBatch", "Commit"]);
        run.add(r);
    }
    run.assume("sparse-merklized tables of this tree = the compression-service registry tables Merkleized<T> (primary key = table column id, one tree per table); ContractsState/ContractsAssets are Plain here and have no root");
    run.assume("reference = fuel_merkle::sparse::in_memory::MerkleTree::root_from_set (trusted) over the raw entries of the table's column in (base + pending changes), leaf key = MerkleTreeKey::new(encoded key)");
    run.assume("a refused init_storage (tree already initialised) is legitimate; afterwards roots must still equal the from-scratch roots of whatever the tables hold");
    run.finish();
}
