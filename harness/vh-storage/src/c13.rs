//! C13 — the block Merkle accumulator (`FuelBlocks`, blueprint `Merklized`) is
//! append-only and exact.
//!
//! Real code: `StorageTransaction<MemKv<Column>>` (= `StructuredStorage` over
//! `InMemoryTransaction`) with the tables `FuelBlocks`,
//! `FuelBlockMerkleMetadata`, `FuelBlockMerkleData`; every mutation goes
//! through `StorageMutate` / `StorageBatchMutate` of `FuelBlocks`.
//! Reference: `fuel_merkle::binary::in_memory::MerkleTree` over the block ids
//! in the model's insertion order.
use crate::kv::{digest_state, MemKv};
use fuel_core_storage::{
    column::Column,
    tables::{
        merkle::{DenseMetadataKey, FuelBlockMerkleMetadata},
        FuelBlocks,
    },
    transactional::{Changes, ConflictPolicy, StorageTransaction},
    MerkleRootStorage, StorageAsRef, StorageBatchMutate, StorageInspect, StorageMutate,
};
use fuel_core_types::{
    blockchain::{
        block::{CompressedBlock, PartialFuelBlock},
        header::{ConsensusHeader, PartialBlockHeader},
        primitives::Empty,
    },
    fuel_merkle::binary::in_memory::MerkleTree as RefTree,
    fuel_types::{BlockHeight, ChainId},
    tai64::Tai64,
};
use mcx::*;
use serde::{Deserialize, Serialize};
use std::collections::BTreeMap;

type Tx<'a> = StorageTransaction<&'a MemKv<Column>>;

#[derive(Clone, Debug, Serialize, Deserialize, PartialEq)]
pub enum Op13 {
    Insert { h: u32, v: u8 },
    Replace { h: u32, v: u8 },
    Take { h: u32 },
    Remove { h: u32 },
    InsertBatch { items: Vec<(u32, u8)> },
    InitStorage { items: Vec<(u32, u8)> },
    RemoveBatch { hs: Vec<u32> },
    /// commit the pending transaction into the base and open a new one
    Commit,
}

#[derive(Clone)]
pub struct W13 {
    /// committed contents
    base: MemKv<Column>,
    /// pending changes of the open block transaction (re-materialised as a real
    /// `StorageTransaction` over `&base` for every operation)
    pending: Changes,
    /// model: (height, variant) in insertion order
    order: Vec<(u32, u8)>,
    /// model: height -> variant currently stored
    stored: BTreeMap<u32, u8>,
}

pub struct S13 {
    name: String,
    heights: u32,
    thorough: bool,
    /// blocks[h][v]
    blocks: Vec<Vec<CompressedBlock>>,
    /// ids[h][v] — the leaf data (`BlockEncoder` encodes the block id)
    ids: Vec<Vec<[u8; 32]>>,
}

/// Everything observable that a refused operation must leave untouched.
#[derive(Clone, PartialEq, Debug)]
struct Snapshot {
    roots: Vec<Option<[u8; 32]>>,
    latest: Option<([u8; 32], u64)>,
    stored: Vec<Option<[u8; 32]>>,
}

fn hx(b: &[u8; 32]) -> String {
    hex::encode(&b[..6])
}

impl S13 {
    pub fn new(thorough: bool) -> S13 {
        let heights = if thorough { 5 } else { 4 };
        let mut blocks = vec![];
        let mut ids = vec![];
        for h in 0..heights {
            let mut bs = vec![];
            let mut is = vec![];
            for v in 0..2u64 {
                let header = PartialBlockHeader {
                    application: Default::default(),
                    consensus: ConsensusHeader::<Empty> {
                        height: h.into(),
                        time: Tai64(4611686018427387914 + v),
                        ..Default::default()
                    },
                };
                let block = PartialFuelBlock::new(header, vec![])
                    .generate(&[], Default::default())
                    .expect("valid block");
                let id: [u8; 32] = *fuel_core_types::fuel_types::Bytes32::from(block.id());
                bs.push(block.compress(&ChainId::default()));
                is.push(id);
            }
            blocks.push(bs);
            ids.push(is);
        }
        S13 { name: format!("FuelBlocks accumulator [{}]", if thorough { "thorough" } else { "quick" }), heights, thorough, blocks, ids }
    }

    fn ref_root(&self, order: &[(u32, u8)]) -> [u8; 32] {
        let mut t = RefTree::new();
        for (h, v) in order {
            t.push(&self.ids[*h as usize][*v as usize]);
        }
        t.root()
    }

    fn snapshot(&self, tx: &Tx<'_>) -> Result<Snapshot, Violation> {
        let mut roots = vec![];
        let mut stored = vec![];
        for h in 0..self.heights {
            let height: BlockHeight = h.into();
            let r: Result<[u8; 32], _> = MerkleRootStorage::<BlockHeight, FuelBlocks>::root(tx, &height);
            roots.push(r.ok());
            let b = StorageInspect::<FuelBlocks>::get(tx, &height).map_err(|e| viol("storage-error", format!("get block {h}: {e:?}")))?;
            stored.push(b.map(|b| *fuel_core_types::fuel_types::Bytes32::from(b.id())));
        }
        let latest = tx
            .storage_as_ref::<FuelBlockMerkleMetadata>()
            .get(&DenseMetadataKey::Latest)
            .map_err(|e| viol("storage-error", format!("get Latest metadata: {e:?}")))?
            .map(|m| (*m.root(), m.version()));
        Ok(Snapshot { roots, latest, stored })
    }

    /// The universal invariant: recorded roots are exact.
    fn check_exact(&self, w: &W13, snap: &Snapshot) -> Result<(), Violation> {
        for (i, (h, _)) in w.order.iter().enumerate() {
            let want = self.ref_root(&w.order[..=i]);
            match snap.roots[*h as usize] {
                Some(got) if got == want => {}
                got => {
                    return Err(viol(
                        "root-mismatch",
                        format!(
                            "root recorded for block #{i} (height {h}) is {:?}, expected the binary Merkle root over blocks 0..={i} in insertion order {}; insertion order = {:?}",
                            got.map(|g| hx(&g)),
                            hx(&want),
                            w.order
                        ),
                    ))
                }
            }
        }
        let want = self.ref_root(&w.order);
        match snap.latest {
            None if w.order.is_empty() => {}
            Some((got, _)) if got == want => {}
            got => {
                return Err(viol(
                    "latest-root-mismatch",
                    format!("Latest root is {:?}, expected the root over all {} inserted blocks {}; insertion order = {:?}", got.map(|g| hx(&g.0)), w.order.len(), hx(&want), w.order),
                ))
            }
        }
        for h in 0..self.heights {
            let want = w.stored.get(&h).map(|v| self.ids[h as usize][*v as usize]);
            if snap.stored[h as usize] != want {
                return Err(viol(
                    "stored-block-mismatch",
                    format!("block stored at height {h} is {:?}, the model has {:?}", snap.stored[h as usize].map(|g| hx(&g)), want.map(|g| hx(&g))),
                ));
            }
        }
        Ok(())
    }

    /// Outcome classification for an operation aimed at an already stored block.
    fn refused_or_violation(&self, opname: &str, h: u32, ok: bool, before: &Snapshot, after: &Snapshot) -> Result<(), Violation> {
        let value_changed = before.stored != after.stored;
        let roots_changed = before.roots != after.roots || before.latest != after.latest;
        let what = format!(
            "{opname} aimed at the already stored block at height {h}: returned {}, stored blocks {} ({:?} -> {:?}), recorded roots {} (root({h}) {:?} -> {:?}, Latest {:?} -> {:?})",
            if ok { "Ok" } else { "Err" },
            if value_changed { "CHANGED" } else { "unchanged" },
            before.stored[h as usize].map(|g| hx(&g)),
            after.stored[h as usize].map(|g| hx(&g)),
            if roots_changed { "CHANGED" } else { "unchanged" },
            before.roots[h as usize].map(|g| hx(&g)),
            after.roots[h as usize].map(|g| hx(&g)),
            before.latest.map(|g| hx(&g.0)),
            after.latest.map(|g| hx(&g.0)),
        );
        match (ok, value_changed, roots_changed) {
            (false, false, false) => Ok(()),
            (true, false, false) => Err(viol(format!("{opname}-existing-not-refused"), what)),
            (true, _, _) => Err(viol(format!("{opname}-existing-overwrites"), what)),
            (false, true, _) => Err(viol(format!("{opname}-err-but-value-changed"), what)),
            (false, false, true) => Err(viol(format!("{opname}-err-but-roots-changed"), what)),
        }
    }

    /// Materialise the open block transaction over `&base`, run `f` on it and
    /// return (snapshot before, result, snapshot after).
    fn exec<T>(&self, w: &mut W13, f: impl FnOnce(&mut Tx<'_>) -> T) -> Result<(Snapshot, T, Snapshot), Violation> {
        let mut tx: Tx<'_> = StorageTransaction::transaction(&w.base, ConflictPolicy::Overwrite, std::mem::take(&mut w.pending));
        let before = self.snapshot(&tx);
        let r = f(&mut tx);
        let after = self.snapshot(&tx);
        w.pending = tx.into_changes();
        Ok((before?, r, after?))
    }

    /// Batched insert (`insert_batch` / `init_storage`).
    fn batch_insert(&self, w: &mut W13, items: &[(u32, u8)], init: bool) -> Result<String, Violation> {
        let opname = "replace"; // both batch entry points call `Merklized::replace` per entry
        let label = if init { "init_storage" } else { "insert_batch" };
        // first entry (in order) that hits an already stored height
        let mut seen = w.stored.clone();
        let mut conflict_at = None;
        for (j, (h, v)) in items.iter().enumerate() {
            if seen.contains_key(h) {
                conflict_at = Some(j);
                break;
            }
            seen.insert(*h, *v);
        }
        let keys: Vec<BlockHeight> = items.iter().map(|(h, _)| (*h).into()).collect();
        let vals: Vec<&CompressedBlock> = items.iter().map(|(h, v)| &self.blocks[*h as usize][*v as usize]).collect();
        let (before, r, after) = self.exec(w, |tx| {
            let mut it = keys.iter().zip(vals.iter().copied());
            if init {
                StorageBatchMutate::<FuelBlocks>::init_storage(tx, &mut it)
            } else {
                StorageBatchMutate::<FuelBlocks>::insert_batch(tx, &mut it)
            }
        })?;
        match conflict_at {
            None => {
                if let Err(e) = r {
                    return Err(viol("insert-vacant-failed", format!("{label}{items:?} into vacant heights failed: {e:?}")));
                }
                for (h, v) in items {
                    w.order.push((*h, *v));
                    w.stored.insert(*h, *v);
                }
                self.check_exact(w, &after)?;
                Ok(format!("{label} ok {}", items.len()))
            }
            Some(j) => {
                let (hc, _) = items[j];
                // the entries before the conflicting one were vacant; the batch is
                // not required to be atomic: accept any prefix of them applied
                let mut applied = 0;
                for (h, _) in &items[..j] {
                    if after.stored[*h as usize].is_some() {
                        applied += 1;
                    } else {
                        break;
                    }
                }
                for (h, v) in &items[..applied] {
                    w.order.push((*h, *v));
                    w.stored.insert(*h, *v);
                }
                // judge the conflicting entry against the state just before it:
                // `before` plus the legitimately applied prefix
                let mut mid = before.clone();
                if applied > 0 {
                    // whatever the applied prefix recorded (its exactness, and that of
                    // Latest, is judged by `check_exact` below, not here)
                    for (k, (h, v)) in items[..applied].iter().enumerate() {
                        if *h == hc {
                            // the conflicting entry aims at a block stored by this very
                            // batch: what must survive is that block and its exact root
                            let upto = w.order.len() - applied + k + 1;
                            mid.stored[*h as usize] = Some(self.ids[*h as usize][*v as usize]);
                            mid.roots[*h as usize] = Some(self.ref_root(&w.order[..upto]));
                        } else {
                            mid.stored[*h as usize] = after.stored[*h as usize];
                            mid.roots[*h as usize] = after.roots[*h as usize];
                        }
                    }
                    mid.latest = after.latest;
                }
                self.refused_or_violation(opname, hc, r.is_ok(), &mid, &after).map_err(|mut v| {
                    v.msg = format!("{label}{items:?}, entry #{j}: {}", v.msg);
                    v
                })?;
                self.check_exact(w, &after)?;
                Ok(format!("{label} refused at {j}, {applied} applied"))
            }
        }
    }
}

impl Subject for S13 {
    type World = W13;
    type Op = Op13;

    fn name(&self) -> String {
        self.name.clone()
    }

    fn fresh(&self) -> W13 {
        W13 { base: MemKv::default(), pending: Changes::default(), order: vec![], stored: BTreeMap::new() }
    }

    fn clone_world(&self, w: &W13) -> Option<W13> {
        Some(w.clone())
    }

    fn enabled(&self, w: &W13) -> Vec<Op13> {
        let mut v = vec![];
        // on an occupied height the *other* block comes first, so that the shortest
        // witness of an overwrite shows a really different block
        let variants = |h: u32| if w.stored.get(&h) == Some(&0) { [1u8, 0] } else { [0u8, 1] };
        for h in 0..self.heights {
            for var in variants(h) {
                v.push(Op13::Insert { h, v: var });
            }
        }
        for h in 0..self.heights {
            for var in variants(h) {
                v.push(Op13::Replace { h, v: var });
            }
        }
        for h in 0..self.heights {
            v.push(Op13::Take { h });
        }
        for h in 0..self.heights {
            v.push(Op13::Remove { h });
        }
        let mut batches: Vec<Vec<(u32, u8)>> = vec![vec![(0, 0), (1, 0)], vec![(1, 0), (2, 0)], vec![(2, 1), (3, 1)], vec![(0, 1), (0, 0)], vec![(1, 1), (0, 0), (2, 0)]];
        if self.thorough {
            batches.push(vec![(3, 0), (4, 1)]);
            batches.push(vec![(4, 0), (3, 1), (2, 1), (1, 0)]);
            batches.push(vec![]);
        }
        for items in batches {
            v.push(Op13::InsertBatch { items });
        }
        v.push(Op13::InitStorage { items: vec![(0, 0), (1, 1)] });
        v.push(Op13::InitStorage { items: vec![(3, 0)] });
        let mut rb: Vec<Vec<u32>> = vec![vec![0], vec![1, 2], vec![0, 3], vec![0, 1, 2, 3]];
        if self.thorough {
            rb.push(vec![4, 0]);
        }
        for hs in rb {
            v.push(Op13::RemoveBatch { hs });
        }
        v.push(Op13::Commit);
        v
    }

    fn step(&self, w: &mut W13, op: &Op13) -> Result<String, Violation> {
        match op {
            Op13::Insert { h, v } | Op13::Replace { h, v } => {
                let is_insert = matches!(op, Op13::Insert { .. });
                let opname = if is_insert { "insert" } else { "replace" };
                let existed = w.stored.contains_key(h);
                let height: BlockHeight = (*h).into();
                let block = &self.blocks[*h as usize][*v as usize];
                let (before, (ok, detail), after) = self.exec(w, |tx| {
                    if is_insert {
                        let r = StorageMutate::<FuelBlocks>::insert(tx, &height, block);
                        (r.is_ok(), format!("{:?}", r.err().map(|e| e.to_string())))
                    } else {
                        match StorageMutate::<FuelBlocks>::replace(tx, &height, block) {
                            Ok(prev) => (true, format!("prev={:?}", prev.map(|b| hx(&fuel_core_types::fuel_types::Bytes32::from(b.id()))))),
                            Err(e) => (false, e.to_string()),
                        }
                    }
                })?;
                if existed {
                    self.refused_or_violation(opname, *h, ok, &before, &after)?;
                    self.check_exact(w, &after)?;
                    Ok(format!("{opname} refused"))
                } else {
                    if !ok {
                        return Err(viol("insert-vacant-failed", format!("{opname}({h},{v}) into a vacant height failed: {detail}")));
                    }
                    w.order.push((*h, *v));
                    w.stored.insert(*h, *v);
                    self.check_exact(w, &after)?;
                    Ok(format!("{opname} ok #{} {}", w.order.len(), hx(&after.latest.map(|l| l.0).unwrap_or_default())))
                }
            }
            Op13::Take { h } | Op13::Remove { h } => {
                let is_take = matches!(op, Op13::Take { .. });
                let opname = if is_take { "take" } else { "remove" };
                let existed = w.stored.contains_key(h);
                let height: BlockHeight = (*h).into();
                let (before, ok, after) = self.exec(w, |tx| {
                    if is_take {
                        StorageMutate::<FuelBlocks>::take(tx, &height).is_ok()
                    } else {
                        StorageMutate::<FuelBlocks>::remove(tx, &height).is_ok()
                    }
                })?;
                if existed {
                    self.refused_or_violation(opname, *h, ok, &before, &after)?;
                    self.check_exact(w, &after)?;
                    Ok(format!("{opname} refused"))
                } else {
                    // nothing stored there: whatever it answers, the accumulator stays exact
                    self.check_exact(w, &after)?;
                    Ok(format!("{opname} vacant ok={ok}"))
                }
            }
            Op13::InsertBatch { items } => self.batch_insert(w, items, false),
            Op13::InitStorage { items } => self.batch_insert(w, items, true),
            Op13::RemoveBatch { hs } => {
                let first_existing = hs.iter().copied().find(|h| w.stored.contains_key(h));
                let keys: Vec<BlockHeight> = hs.iter().map(|h| (*h).into()).collect();
                let (before, ok, after) = self.exec(w, |tx| StorageBatchMutate::<FuelBlocks>::remove_batch(tx, &mut keys.iter()).is_ok())?;
                match first_existing {
                    Some(h) => {
                        self.refused_or_violation("remove", h, ok, &before, &after).map_err(|mut v| {
                            v.msg = format!("remove_batch{hs:?}: {}", v.msg);
                            v
                        })?;
                        self.check_exact(w, &after)?;
                        Ok("remove_batch refused".into())
                    }
                    None => {
                        self.check_exact(w, &after)?;
                        Ok(format!("remove_batch vacant ok={ok}"))
                    }
                }
            }
            Op13::Commit => {
                // the real `StorageTransaction::commit` into the (mutable) base
                let tx = StorageTransaction::transaction(&mut w.base, ConflictPolicy::Overwrite, std::mem::take(&mut w.pending));
                tx.commit().map_err(|e| viol("commit-failed", format!("commit of the block transaction failed: {e:?}")))?;
                let (_, _, snap) = self.exec(w, |_| ())?;
                self.check_exact(w, &snap)?;
                Ok("commit".into())
            }
        }
    }

    fn canon(&self, w: &W13) -> Vec<u8> {
        let mut out = serde_json::to_vec(&(&w.order, &w.stored)).unwrap();
        out.extend(digest_state(&w.base.map, &[&w.pending]));
        out
    }

    fn interesting(&self, _op: &Op13, obs: &str) -> bool {
        // a refusal of an existing block, or a real insertion
        obs.contains("refused") || obs.contains(" ok ")
    }

}

pub fn run(cli: &Cli) {
    if let Some(path) = &cli.replay {
        let rf = load_replay(path);
        for t in [false, true] {
            let s = S13::new(t);
            if s.name() == rf.subject {
                replay_and_exit(&s, &rf);
            }
        }
        machinery_failure("replay: unknown subject");
    }
    let thorough = cli.tier == Tier::Thorough;
    let mut run = Run::new(cli, "model_checking");
    let s = S13::new(thorough);
    let b = Bounds::new(cli.tier.pick(5, 7), cli);
    let r = explore(&s, &b);
    crate::require_labels(&r, &["Insert", "Replace", "Take", "Remove", "InsertBatch", "InitStorage", "RemoveBatch", "Commit"]);
    run.add(r);
    run.assume("leaf data of block i = its block id (BlockEncoder); reference = fuel_merkle::binary::in_memory::MerkleTree (trusted)");
    run.assume("'fail' is read as: the call returns Err AND the stored block and every recorded root (per-height and Latest) are unchanged; StorageMutate::insert on an occupied height counts as an attempt to replace");
    run.assume("batched inserts are not required to be atomic: entries before the first conflicting one may or may not be applied");
    run.finish();
}
