//! A boring, deterministic, `BTreeMap`-backed key-value base that the real
//! `StorageTransaction`s of fuel-core-storage are stacked on.
use fuel_core_storage::{
    kv_store::{KeyValueInspect, StorageColumn, Value, WriteOperation},
    transactional::{Changes, Modifiable},
    Result as StorageResult,
};
use std::collections::BTreeMap;
use std::marker::PhantomData;

/// `(column id, key bytes) -> value bytes`.
pub type Flat = BTreeMap<(u32, Vec<u8>), Vec<u8>>;

#[derive(Debug)]
pub struct MemKv<C> {
    pub map: Flat,
    _c: PhantomData<C>,
}

impl<C> Clone for MemKv<C> {
    fn clone(&self) -> Self {
        MemKv { map: self.map.clone(), _c: PhantomData }
    }
}

impl<C> Default for MemKv<C> {
    fn default() -> Self {
        MemKv { map: BTreeMap::new(), _c: PhantomData }
    }
}

impl<C> MemKv<C> {
    pub fn from_flat(map: Flat) -> Self {
        MemKv { map, _c: PhantomData }
    }
}

// Only `get` is provided: `exists`, `size_of_value`, `read_exact` and
// `read_zerofill` are the default methods of the REAL trait in kv_store.rs.
impl<C: StorageColumn> KeyValueInspect for MemKv<C> {
    type Column = C;
    fn get(&self, key: &[u8], column: C) -> StorageResult<Option<Value>> {
        Ok(self.map.get(&(column.id(), key.to_vec())).map(|v| Value::from(v.as_slice())))
    }
}

impl<C> Modifiable for MemKv<C> {
    fn commit_changes(&mut self, changes: Changes) -> StorageResult<()> {
        apply_changes(&mut self.map, &changes);
        Ok(())
    }
}

/// Apply a change set to a flat map (insert / remove), column order irrelevant.
pub fn apply_changes(map: &mut Flat, changes: &Changes) {
    for (col, tree) in changes.iter() {
        for (k, op) in tree.iter() {
            let key: &Vec<u8> = k;
            match op {
                WriteOperation::Insert(v) => {
                    map.insert((*col, key.clone()), v.to_vec());
                }
                WriteOperation::Remove => {
                    map.remove(&(*col, key.clone()));
                }
            }
        }
    }
}

/// Deterministic (sorted) rendering of a change set: `None` = removal.
pub fn sorted_changes(changes: &Changes) -> BTreeMap<(u32, Vec<u8>), Option<Vec<u8>>> {
    let mut out = BTreeMap::new();
    for (col, tree) in changes.iter() {
        for (k, op) in tree.iter() {
            let key: &Vec<u8> = k;
            out.insert(
                (*col, key.clone()),
                match op {
                    WriteOperation::Insert(v) => Some(v.to_vec()),
                    WriteOperation::Remove => None,
                },
            );
        }
    }
    out
}

/// Canonical bytes of (base contents, pending changes).
pub fn digest_state(base: &Flat, pending: &[&Changes]) -> Vec<u8> {
    let mut out = Vec::new();
    let put = |out: &mut Vec<u8>, b: &[u8]| {
        out.extend_from_slice(&(b.len() as u32).to_le_bytes());
        out.extend_from_slice(b);
    };
    out.extend_from_slice(&(base.len() as u32).to_le_bytes());
    for ((c, k), v) in base {
        out.extend_from_slice(&c.to_le_bytes());
        put(&mut out, k);
        put(&mut out, v);
    }
    for p in pending {
        let s = sorted_changes(p);
        out.extend_from_slice(b"|L");
        out.extend_from_slice(&(s.len() as u32).to_le_bytes());
        for ((c, k), v) in s {
            out.extend_from_slice(&c.to_le_bytes());
            put(&mut out, &k);
            match v {
                Some(v) => {
                    out.push(1);
                    put(&mut out, &v);
                }
                None => out.push(0),
            }
        }
    }
    out
}
