//! C10 — storage transactions: read-your-writes at any nesting depth, exact
//! commit, harmless drop, sibling merge under the fail-on-conflict policy.
//!
//! Real code: `StorageTransaction` (= `StructuredStorage<InMemoryTransaction>`)
//! stacked up to three deep over a `BTreeMap` base. A transaction's whole state
//! is `(changes, policy, parent)`, so the world keeps one `Changes` per open
//! transaction and re-materialises the real nested transactions (through
//! `StorageTransaction::transaction`, `read_transaction`, `with_changes`) for
//! every operation; commits go through the real `StorageTransaction::commit`
//! / `Modifiable::commit_changes`.
//! Model: a stack of `BTreeMap<(col,key), Option<value>>` layers over a map.
use crate::kv::{digest_state, MemKv};
use fuel_core_storage::{
    kv_store::{KeyValueInspect, KeyValueMutate, StorageColumn, Value},
    transactional::{Changes, ConflictPolicy, Modifiable, ReadTransaction, StorageTransaction},
};
use fuel_core_storage::StorageReadError;
use mcx::*;
use serde::{Deserialize, Serialize};
use serde_json::json;
use std::collections::BTreeMap;
use std::sync::atomic::{AtomicU64, Ordering};

#[derive(Copy, Clone, Debug, PartialEq, Eq)]
pub enum Col {
    C1,
    C2,
}

impl StorageColumn for Col {
    fn name(&self) -> String {
        format!("{self:?}")
    }
    fn id(&self) -> u32 {
        match self {
            Col::C1 => 1,
            Col::C2 => 2,
        }
    }
}

const COLS: [Col; 2] = [Col::C1, Col::C2];
const KEYS: [&[u8]; 2] = [&[0x0A], &[0x0A, 0x0B]];
const VALS: [&[u8]; 3] = [b"", b"abcd", b"ab"];
const MAX_DEPTH: usize = 3;

type Base = MemKv<Col>;
/// model layer: every mutating call leaves an entry (`None` = removal)
type MLayer = BTreeMap<(u8, u8), Option<Vec<u8>>>;
type MView = BTreeMap<(u8, u8), Vec<u8>>;

static READS_COMPARED: AtomicU64 = AtomicU64::new(0);

#[derive(Clone, Debug, Serialize, Deserialize, PartialEq)]
pub enum Op10 {
    Put { c: u8, k: u8, v: u8 },
    Replace { c: u8, k: u8, v: u8 },
    Write { c: u8, k: u8, v: u8 },
    Take { c: u8, k: u8 },
    Delete { c: u8, k: u8 },
    /// open a child transaction on top of the current one
    Open,
    /// commit the top transaction into its parent (real `commit()`)
    Commit,
    /// drop the top transaction (or both siblings of an open fork)
    Drop,
    /// open two sibling transactions over a fresh merge parent with the given policy
    Fork { fail: bool },
    /// continue writing in the second sibling
    Switch,
    /// merge sibling A, then sibling B into the merge parent
    Merge,
}

#[derive(Clone)]
struct Fork {
    fail: bool,
    a: Changes,
    b: Changes,
    active: u8,
    ma: MLayer,
    mb: MLayer,
}

#[derive(Clone)]
pub struct W10 {
    base: Base,
    layers: Vec<Changes>,
    fork: Option<Fork>,
    m_base: MView,
    m_layers: Vec<MLayer>,
}

pub struct S10 {
    name: String,
    thorough: bool,
}

fn policy(fail: bool) -> ConflictPolicy {
    if fail {
        ConflictPolicy::Fail
    } else {
        ConflictPolicy::Overwrite
    }
}

fn tx_over<'a, S: KeyValueInspect<Column = Col>>(s: &'a S, ch: &Changes) -> StorageTransaction<&'a S> {
    s.read_transaction().with_changes(ch.clone())
}

/// Materialise the nested real transactions for `layers` over `base` and run
/// `body` with `top` bound to a reference to the innermost one.
macro_rules! with_stack {
    ($base:expr, $layers:expr, |$top:ident| $body:expr) => {{
        let layers: &[Changes] = $layers;
        let base: &Base = $base;
        match layers.len() {
            0 => {
                let $top = base;
                $body
            }
            1 => {
                let t1 = tx_over(base, &layers[0]);
                let $top = &t1;
                $body
            }
            2 => {
                let t1 = tx_over(base, &layers[0]);
                let t2 = tx_over(&t1, &layers[1]);
                let $top = &t2;
                $body
            }
            3 => {
                let t1 = tx_over(base, &layers[0]);
                let t2 = tx_over(&t1, &layers[1]);
                let t3 = tx_over(&t2, &layers[2]);
                let $top = &t3;
                $body
            }
            _ => unreachable!("nesting deeper than {MAX_DEPTH}"),
        }
    }};
}

fn overlay(view: &mut MView, layer: &MLayer) {
    for (k, v) in layer {
        match v {
            Some(v) => {
                view.insert(*k, v.clone());
            }
            None => {
                view.remove(k);
            }
        }
    }
}

impl W10 {
    fn m_view(&self, upto: usize) -> MView {
        let mut v = self.m_base.clone();
        for l in &self.m_layers[..upto] {
            overlay(&mut v, l);
        }
        v
    }
}

// ---- boring reference semantics of reads over a plain value --------------------

#[derive(Debug, PartialEq, Clone, Copy)]
enum Class {
    Ok,
    NotFound,
    OutOfBounds,
}

/// `read_exact`: all `buf.len()` bytes starting at `off`, or out of bounds.
fn ref_read_exact(val: Option<&Vec<u8>>, off: usize, buf: &mut [u8]) -> Class {
    match val {
        None => Class::NotFound,
        Some(v) => {
            if off > v.len() || buf.len() > v.len() - off {
                Class::OutOfBounds
            } else {
                buf.copy_from_slice(&v[off..off + buf.len()]);
                Class::Ok
            }
        }
    }
}

/// `read_zerofill`: the bytes from `off` on, the rest of the buffer zeroed;
/// out of bounds only when `off` lies beyond the end of the value.
fn ref_read_zerofill(val: Option<&Vec<u8>>, off: usize, buf: &mut [u8]) -> Class {
    match val {
        None => Class::NotFound,
        Some(v) => {
            if off > v.len() {
                Class::OutOfBounds
            } else {
                let n = buf.len().min(v.len() - off);
                buf[..n].copy_from_slice(&v[off..off + n]);
                buf[n..].fill(0);
                Class::Ok
            }
        }
    }
}

fn class_of(r: &Result<usize, StorageReadError>) -> Class {
    match r {
        Ok(_) => Class::Ok,
        Err(StorageReadError::KeyNotFound) => Class::NotFound,
        Err(StorageReadError::OutOfBounds) => Class::OutOfBounds,
    }
}

const OFFS: [usize; 5] = [0, 1, 4, 5, usize::MAX];
const LENS: [usize; 4] = [0, 1, 2, 4];
const FILL: u8 = 0xEE;

/// Compare every read of `real` with the model view; fold the answers into `acc`.
fn probe_view<S: KeyValueInspect<Column = Col>>(real: &S, model: &MView, level: &str, acc: &mut Vec<u8>) -> Result<(), Violation> {
    // a plain store holding exactly the model's view: the "underlying storage"
    // answer for the same data, through the real default trait methods
    let mut flat = crate::kv::Flat::new();
    for ((c, k), v) in model {
        flat.insert((COLS[*c as usize].id(), KEYS[*k as usize].to_vec()), v.clone());
    }
    let plain = Base::from_flat(flat);
    let se = |what: &str, e: fuel_core_storage::Error| viol("storage-error", format!("{what} at {level}: {e:?}"));
    let mut n = 0u64;
    for (ci, col) in COLS.iter().enumerate() {
        for (ki, key) in KEYS.iter().enumerate() {
            let want = model.get(&(ci as u8, ki as u8));
            let at = || format!("{level} ({col:?},{})", hex::encode(key));
            let got = real.get(key, *col).map_err(|e| se("get", e))?;
            if got.as_deref() != want.map(|v| v.as_slice()) {
                return Err(viol("get-mismatch", format!("get at {}: got {:?}, expected {:?}", at(), got.as_deref().map(hex::encode), want.map(hex::encode))));
            }
            let ex = real.exists(key, *col).map_err(|e| se("exists", e))?;
            if ex != want.is_some() {
                return Err(viol("exists-mismatch", format!("exists at {}: got {ex}, expected {}", at(), want.is_some())));
            }
            let sz = real.size_of_value(key, *col).map_err(|e| se("size_of_value", e))?;
            if sz != want.map(|v| v.len()) {
                return Err(viol("size-mismatch", format!("size_of_value at {}: got {sz:?}, expected {:?}", at(), want.map(|v| v.len()))));
            }
            acc.push(ex as u8);
            acc.extend_from_slice(got.as_deref().unwrap_or(&[0xFF]));
            n += 3;
            for off in OFFS {
                for len in LENS {
                    for zerofill in [false, true] {
                        let name = if zerofill { "read_zerofill" } else { "read_exact" };
                        let (mut buf, mut ebuf, mut pbuf) = ([FILL; 4], [FILL; 4], [FILL; 4]);
                        let (r, exp, pr) = if zerofill {
                            (
                                real.read_zerofill(key, *col, off, &mut buf[..len]).map_err(|e| se(name, e))?,
                                ref_read_zerofill(want, off, &mut ebuf[..len]),
                                plain.read_zerofill(key, *col, off, &mut pbuf[..len]).map_err(|e| se(name, e))?,
                            )
                        } else {
                            (
                                real.read_exact(key, *col, off, &mut buf[..len]).map_err(|e| se(name, e))?,
                                ref_read_exact(want, off, &mut ebuf[..len]),
                                plain.read_exact(key, *col, off, &mut pbuf[..len]).map_err(|e| se(name, e))?,
                            )
                        };
                        let got = class_of(&r);
                        // the buffer content is specified only for successful reads
                        if got != exp || (exp == Class::Ok && buf != ebuf) {
                            return Err(viol(
                                format!("{name}-mismatch"),
                                format!("{name}(off={off},len={len}) at {}: got {got:?} buf={}, expected {exp:?} buf={} (value {:?})", at(), hex::encode(&buf[..len]), hex::encode(&ebuf[..len]), want.map(hex::encode)),
                            ));
                        }
                        if pr != r || (exp == Class::Ok && pbuf != buf) {
                            return Err(viol(
                                format!("{name}-differs-from-plain-storage"),
                                format!("{name}(off={off},len={len}) at {}: through the transaction {r:?} buf={}, from a plain store holding the same value {pr:?} buf={}", at(), hex::encode(&buf[..len]), hex::encode(&pbuf[..len])),
                            ));
                        }
                        match r {
                            Ok(c) => {
                                acc.push(0);
                                acc.extend_from_slice(&(c as u64).to_le_bytes());
                                acc.extend_from_slice(&buf[..len]);
                            }
                            Err(_) => acc.push(got as u8 + 1),
                        }
                        n += 1;
                    }
                }
            }
        }
    }
    READS_COMPARED.fetch_add(n, Ordering::Relaxed);
    Ok(())
}

/// The views of both siblings of a fork opened over `top`.
fn probe_fork<S: KeyValueInspect<Column = Col>>(top: &S, f: &Fork, top_view: &MView, acc: &mut Vec<u8>) -> Result<(), Violation> {
    let m = StorageTransaction::transaction(top, policy(f.fail), Changes::default());
    let a = m.read_transaction().with_changes(f.a.clone());
    let b = m.read_transaction().with_changes(f.b.clone());
    let mut va = top_view.clone();
    overlay(&mut va, &f.ma);
    let mut vb = top_view.clone();
    overlay(&mut vb, &f.mb);
    probe_view(&a, &va, "sibling A", acc)?;
    probe_view(&b, &vb, "sibling B", acc)?;
    Ok(())
}

#[derive(Debug)]
enum MutOut {
    Unit,
    Written(usize),
    Prev(Option<Vec<u8>>),
}

fn mutate(t: &mut dyn KeyValueMutate<Column = Col>, op: &Op10) -> Result<MutOut, fuel_core_storage::Error> {
    Ok(match op {
        Op10::Put { c, k, v } => {
            t.put(KEYS[*k as usize], COLS[*c as usize], Value::from(VALS[*v as usize]))?;
            MutOut::Unit
        }
        Op10::Write { c, k, v } => MutOut::Written(t.write(KEYS[*k as usize], COLS[*c as usize], VALS[*v as usize])?),
        Op10::Replace { c, k, v } => MutOut::Prev(t.replace(KEYS[*k as usize], COLS[*c as usize], Value::from(VALS[*v as usize]))?.map(|v| v.to_vec())),
        Op10::Take { c, k } => MutOut::Prev(t.take(KEYS[*k as usize], COLS[*c as usize])?.map(|v| v.to_vec())),
        Op10::Delete { c, k } => {
            t.delete(KEYS[*k as usize], COLS[*c as usize])?;
            MutOut::Unit
        }
        _ => unreachable!(),
    })
}

impl S10 {
    pub fn new(thorough: bool) -> S10 {
        S10 { name: format!("nested StorageTransaction [{}]", if thorough { "thorough" } else { "quick" }), thorough }
    }

    /// Probe every level of the stack (base, each open transaction, siblings).
    fn probe_all(&self, w: &W10) -> Result<String, Violation> {
        let mut acc = vec![];
        for upto in 0..=w.layers.len() {
            let view = w.m_view(upto);
            let level = if upto == 0 { "base".to_string() } else { format!("transaction depth {upto}") };
            with_stack!(&w.base, &w.layers[..upto], |top| probe_view(top, &view, &level, &mut acc))?;
        }
        if let Some(f) = &w.fork {
            let view = w.m_view(w.layers.len());
            with_stack!(&w.base, &w.layers, |top| probe_fork(top, f, &view, &mut acc))?;
        }
        Ok(hex::encode(&mcx::hash_of(&acc).to_le_bytes()[..4]))
    }

    /// Apply a mutating letter to the real top transaction (or active sibling).
    fn real_mutate(&self, w: &mut W10, op: &Op10) -> Result<MutOut, fuel_core_storage::Error> {
        if let Some(f) = w.fork.as_mut() {
            let ch = std::mem::take(if f.active == 0 { &mut f.a } else { &mut f.b });
            let fail = f.fail;
            let (r, ch) = with_stack!(&w.base, &w.layers, |top| {
                let m = StorageTransaction::transaction(top, policy(fail), Changes::default());
                let mut s = m.read_transaction().with_changes(ch);
                let r = mutate(&mut s, op);
                (r, s.into_changes())
            });
            let f = w.fork.as_mut().unwrap();
            *(if f.active == 0 { &mut f.a } else { &mut f.b }) = ch;
            r
        } else {
            let n = w.layers.len();
            let ch = std::mem::take(&mut w.layers[n - 1]);
            let (r, ch) = with_stack!(&w.base, &w.layers[..n - 1], |parent| {
                let mut t = StorageTransaction::transaction(parent, ConflictPolicy::Overwrite, ch);
                let r = mutate(&mut t, op);
                (r, t.into_changes())
            });
            w.layers[n - 1] = ch;
            r
        }
    }
}

impl Subject for S10 {
    type World = W10;
    type Op = Op10;

    fn name(&self) -> String {
        self.name.clone()
    }

    fn fresh(&self) -> W10 {
        // a non-empty underlying storage, so that shadowing/removal of committed
        // data is reachable within few letters
        let mut base = Base::default();
        let mut m_base = MView::new();
        base.map.insert((Col::C1.id(), KEYS[0].to_vec()), b"ab".to_vec());
        m_base.insert((0, 0), b"ab".to_vec());
        W10 { base, layers: vec![], fork: None, m_base, m_layers: vec![] }
    }

    fn clone_world(&self, w: &W10) -> Option<W10> {
        Some(w.clone())
    }

    fn enabled(&self, w: &W10) -> Vec<Op10> {
        let mut v = vec![];
        let can_write = w.fork.is_some() || !w.layers.is_empty();
        if can_write {
            let nvals: u8 = if self.thorough { 3 } else { 2 };
            for c in 0..2u8 {
                for k in 0..2u8 {
                    for val in 0..nvals {
                        v.push(Op10::Put { c, k, v: val });
                    }
                    for val in 0..nvals {
                        v.push(Op10::Replace { c, k, v: val });
                    }
                    if self.thorough {
                        for val in 0..nvals {
                            v.push(Op10::Write { c, k, v: val });
                        }
                    } else {
                        v.push(Op10::Write { c, k, v: 2 });
                    }
                    v.push(Op10::Take { c, k });
                    v.push(Op10::Delete { c, k });
                }
            }
        }
        match &w.fork {
            None => {
                if w.layers.len() < MAX_DEPTH {
                    v.push(Op10::Open);
                }
                if !w.layers.is_empty() {
                    v.push(Op10::Commit);
                    v.push(Op10::Drop);
                }
                // merge parent at depth <= 2, siblings at depth <= 3
                if w.layers.len() + 2 <= MAX_DEPTH {
                    v.push(Op10::Fork { fail: true });
                    v.push(Op10::Fork { fail: false });
                }
            }
            Some(f) => {
                if f.active == 0 {
                    v.push(Op10::Switch);
                }
                v.push(Op10::Merge);
                v.push(Op10::Drop);
            }
        }
        v
    }

    fn step(&self, w: &mut W10, op: &Op10) -> Result<String, Violation> {
        let head = match op {
            Op10::Put { c, k, v } | Op10::Replace { c, k, v } | Op10::Write { c, k, v } => {
                let val = VALS[*v as usize].to_vec();
                // expected previous value through every level below
                let mut view = w.m_view(w.layers.len());
                if let Some(f) = &w.fork {
                    overlay(&mut view, if f.active == 0 { &f.ma } else { &f.mb });
                }
                let prev = view.get(&(*c, *k)).cloned();
                let out = self.real_mutate(w, op).map_err(|e| viol("storage-error", format!("{op:?}: {e:?}")))?;
                match (&out, op) {
                    (MutOut::Unit, Op10::Put { .. }) => {}
                    (MutOut::Written(n), Op10::Write { .. }) if *n == val.len() => {}
                    (MutOut::Prev(p), Op10::Replace { .. }) if *p == prev => {}
                    (MutOut::Prev(p), Op10::Replace { .. }) => {
                        return Err(viol("replace-prev-mismatch", format!("{op:?} returned previous value {:?}, expected {:?}", p.as_ref().map(hex::encode), prev.as_ref().map(hex::encode))))
                    }
                    _ => return Err(viol("write-result-mismatch", format!("{op:?} returned {out:?}"))),
                }
                let layer = match w.fork.as_mut() {
                    Some(f) => {
                        if f.active == 0 {
                            &mut f.ma
                        } else {
                            &mut f.mb
                        }
                    }
                    None => w.m_layers.last_mut().unwrap(),
                };
                layer.insert((*c, *k), Some(val));
                format!("{out:?}")
            }
            Op10::Take { c, k } | Op10::Delete { c, k } => {
                let mut view = w.m_view(w.layers.len());
                if let Some(f) = &w.fork {
                    overlay(&mut view, if f.active == 0 { &f.ma } else { &f.mb });
                }
                let prev = view.get(&(*c, *k)).cloned();
                let out = self.real_mutate(w, op).map_err(|e| viol("storage-error", format!("{op:?}: {e:?}")))?;
                match (&out, op) {
                    (MutOut::Unit, Op10::Delete { .. }) => {}
                    (MutOut::Prev(p), Op10::Take { .. }) if *p == prev => {}
                    (MutOut::Prev(p), Op10::Take { .. }) => return Err(viol("take-prev-mismatch", format!("{op:?} returned {:?}, expected {:?}", p.as_ref().map(hex::encode), prev.as_ref().map(hex::encode)))),
                    _ => return Err(viol("write-result-mismatch", format!("{op:?} returned {out:?}"))),
                }
                let layer = match w.fork.as_mut() {
                    Some(f) => {
                        if f.active == 0 {
                            &mut f.ma
                        } else {
                            &mut f.mb
                        }
                    }
                    None => w.m_layers.last_mut().unwrap(),
                };
                layer.insert((*c, *k), None);
                format!("{out:?}")
            }
            Op10::Open => {
                w.layers.push(Changes::default());
                w.m_layers.push(MLayer::new());
                "open".to_string()
            }
            Op10::Commit => {
                let n = w.layers.len();
                let child = w.layers.pop().unwrap();
                let mchild = w.m_layers.pop().unwrap();
                if n == 1 {
                    // parent is the underlying storage
                    let t = StorageTransaction::transaction(&mut w.base, ConflictPolicy::Overwrite, child);
                    t.commit().map_err(|e| viol("commit-failed", format!("commit into the base failed: {e:?}")))?;
                    overlay(&mut w.m_base, &mchild);
                } else {
                    let parent_ch = std::mem::take(&mut w.layers[n - 2]);
                    let r = with_stack!(&w.base, &w.layers[..n - 2], |gp| {
                        let mut parent = StorageTransaction::transaction(gp, ConflictPolicy::Overwrite, parent_ch);
                        let t = StorageTransaction::transaction(&mut parent, ConflictPolicy::Overwrite, child);
                        let r = t.commit().map(|_| ());
                        (r, parent.into_changes())
                    });
                    w.layers[n - 2] = r.1;
                    r.0.map_err(|e| viol("commit-failed", format!("commit into the parent transaction (overwrite policy) failed: {e:?}")))?;
                    let mp = w.m_layers.last_mut().unwrap();
                    for (k, v) in mchild {
                        mp.insert(k, v);
                    }
                }
                format!("commit{n}")
            }
            Op10::Drop => {
                if w.fork.is_some() {
                    w.fork = None;
                    "drop-fork".to_string()
                } else {
                    // `into_inner` hands back the parent and the never-applied changes
                    let ch = w.layers.pop().unwrap();
                    w.m_layers.pop();
                    let n = w.layers.len();
                    with_stack!(&w.base, &w.layers, |parent| {
                        let t = StorageTransaction::transaction(parent, ConflictPolicy::Overwrite, ch);
                        let (_parent, changes) = t.into_inner();
                        drop(changes);
                    });
                    format!("drop{}", n + 1)
                }
            }
            Op10::Fork { fail } => {
                w.fork = Some(Fork { fail: *fail, a: Changes::default(), b: Changes::default(), active: 0, ma: MLayer::new(), mb: MLayer::new() });
                format!("fork fail={fail}")
            }
            Op10::Switch => {
                w.fork.as_mut().unwrap().active = 1;
                "switch".to_string()
            }
            Op10::Merge => {
                let f = w.fork.take().unwrap();
                let conflict = f.ma.keys().any(|k| f.mb.contains_key(k));
                let (ra, rb, merged) = with_stack!(&w.base, &w.layers, |top| {
                    let mut m = StorageTransaction::transaction(top, policy(f.fail), Changes::default());
                    let ra = m.commit_changes(f.a.clone());
                    let rb = m.commit_changes(f.b.clone());
                    (ra, rb, m.into_changes())
                });
                if let Err(e) = ra {
                    return Err(viol("merge-first-sibling-rejected", format!("merging the first sibling into an empty parent failed: {e:?}")));
                }
                let wrote = |l: &MLayer| l.keys().map(|(c, k)| format!("{:?}/{}", COLS[*c as usize], hex::encode(KEYS[*k as usize]))).collect::<Vec<_>>();
                match (f.fail, conflict, rb.is_ok()) {
                    (true, true, true) => {
                        return Err(viol("merge-conflict-accepted", format!("fail-on-conflict merge accepted although both siblings wrote the same key: A wrote {:?}, B wrote {:?}", wrote(&f.ma), wrote(&f.mb))))
                    }
                    (true, false, false) => {
                        return Err(viol("merge-disjoint-rejected", format!("fail-on-conflict merge rejected although the siblings wrote disjoint keys: A wrote {:?}, B wrote {:?}: {:?}", wrote(&f.ma), wrote(&f.mb), rb.err())))
                    }
                    (false, _, false) => return Err(viol("merge-overwrite-rejected", format!("merge under the overwrite policy failed: {:?}", rb.err()))),
                    (true, true, false) => {
                        // rejected: the merge parent is abandoned (its partially merged
                        // changes are discarded with it); nothing below may change
                        format!("merge rejected")
                    }
                    (_, _, true) => {
                        // accepted: the merge parent carries exactly A overlaid by B
                        let mut ml = f.ma.clone();
                        for (k, v) in &f.mb {
                            ml.insert(*k, v.clone());
                        }
                        w.layers.push(merged);
                        w.m_layers.push(ml);
                        format!("merge ok fail={} overlap={conflict}", f.fail)
                    }
                }
            }
        };
        let reads = self.probe_all(w)?;
        Ok(format!("{head} r={reads}"))
    }

    fn canon(&self, w: &W10) -> Vec<u8> {
        let mut pend: Vec<&Changes> = w.layers.iter().collect();
        let mut out = serde_json::to_vec(&(&w.m_base.iter().collect::<Vec<_>>(), &w.m_layers.iter().map(|l| l.iter().collect::<Vec<_>>()).collect::<Vec<_>>())).unwrap();
        if let Some(f) = &w.fork {
            out.extend(serde_json::to_vec(&(f.fail, f.active, f.ma.iter().collect::<Vec<_>>(), f.mb.iter().collect::<Vec<_>>())).unwrap());
            pend.push(&f.a);
            pend.push(&f.b);
        }
        out.extend(digest_state(&w.base.map, &pend));
        out
    }

    fn interesting(&self, op: &Op10, obs: &str) -> bool {
        match op {
            Op10::Commit | Op10::Merge | Op10::Drop => true,
            Op10::Replace { .. } | Op10::Take { .. } => obs.contains("Some"),
            _ => false,
        }
    }

}

/// One fixed scenario, reported as a note (the statement does not ask for it):
/// is a rejected fail-on-conflict merge atomic?
fn rejected_merge_probe() -> serde_json::Value {
    let base = Base::default();
    let mut m = StorageTransaction::transaction(&base, ConflictPolicy::Fail, Changes::default());
    let mut a = m.read_transaction();
    let mut b = m.read_transaction();
    a.put(&[2], Col::C1, Value::from(&b"A"[..])).unwrap();
    b.put(&[1], Col::C1, Value::from(&b"B"[..])).unwrap();
    b.put(&[2], Col::C1, Value::from(&b"B"[..])).unwrap();
    let (a, b) = (a.into_changes(), b.into_changes());
    m.commit_changes(a).unwrap();
    let rejected = m.commit_changes(b).is_err();
    let leaked = m.get(&[1], Col::C1).unwrap().is_some();
    json!({"scenario": "parent(Fail) <- A{k2}; then B{k1,k2}", "second_merge_rejected": rejected, "rejected_merge_left_B_k1_in_parent": leaked})
}

pub fn run(cli: &Cli) {
    if let Some(path) = &cli.replay {
        let rf = load_replay(path);
        for t in [false, true] {
            let s = S10::new(t);
            if s.name() == rf.subject {
                replay_and_exit(&s, &rf);
            }
        }
        machinery_failure("replay: unknown subject");
    }
    let thorough = cli.tier == Tier::Thorough;
    let mut run = Run::new(cli, "model_checking");
    let s = S10::new(thorough);
    let b = Bounds::new(cli.tier.pick(5, 7), cli).states(cli.tier.pick(400_000, 8_000_000));
    let r = explore(&s, &b);
    crate::require_labels(&r, &["Put", "Replace", "Write", "Take", "Delete", "Open", "Commit", "Drop", "Fork", "Switch", "Merge"]);
    run.add(r);
    run.note("reads_compared_with_model", json!(READS_COMPARED.load(Ordering::Relaxed)));
    run.note("rejected_merge_atomicity_probe", rejected_merge_probe());
    run.assume("reads (get/exists/size_of_value/read_exact/read_zerofill over all keys, columns, offsets {0,1,4,5,MAX} x lengths {0,1,2,4}) are pure (&self) and are compared at EVERY nesting level after EVERY letter instead of being separate letters");
    run.assume("'wrote the same key' = any mutating call (put/replace/write/take/delete) on the same (column,key) in both siblings; siblings are read_transactions of a fresh merge parent carrying the policy, merged A then B via Modifiable::commit_changes");
    run.assume("sequential nested commits are exercised under the default overwrite policy; a rejected fail-on-conflict merge abandons the merge parent (atomicity of a rejected merge is not demanded, see note)");
    run.assume("byte counts returned by read_exact/read_zerofill are only required to equal what a plain store holding the same value answers through the default KeyValueInspect methods");
    run.finish();
}
