//! C33 — DA-compressed blocks decompress to the original blocks, even when
//! registry entries are reused, evicted, overwritten or expire.
//!
//! Real code on both sides: `fuel_core_compression::{compress, decompress}`
//! over the real merkleized temporal-registry tables of
//! `fuel-core-compression-service` (`CompressionContext` /
//! `DecompressionContext` on in-memory storage transactions).  Two separate
//! databases; the decompressor only ever sees the compressed blocks (read back
//! from the real postcard-encoded `CompressedBlocks` table) plus a boring
//! model of the on-chain coin / message / block-id tables.
mod blocks;
mod model;

use blocks::{block_predicates, build_block, normalise_tx, Alphabet, TEMPLATES};
use fuel_core_compression::{
    compress::compress,
    decompress::decompress,
    ports::{EvictorDb, TemporalRegistry, UtxoIdToPointer},
    Config, VersionedCompressedBlock,
};
use fuel_core_compression_service::{
    storage::{
        column::CompressionColumn,
        evictor_cache::MetadataKey,
        CompressedBlocks, EvictorCache,
    },
    temporal_registry::{CompressionContext, CompressionStorageWrapper, DecompressionContext},
};
use fuel_core_storage::{
    merkle::column::MerkleizedColumn,
    structured_storage::test::InMemoryStorage,
    transactional::{ReadTransaction, WriteTransaction},
    StorageAsMut, StorageAsRef,
};
use fuel_core_types::{
    blockchain::{block::Block, header::PartialBlockHeader},
    fuel_compression::RegistryKey,
    fuel_tx::{input::PredicateCode, Address, AssetId, CompressedUtxoId, ContractId, ScriptCode, Transaction, UtxoId},
    fuel_types::ChainId,
    tai64::Tai64,
};
use futures::FutureExt;
use mcx::*;
use model::ModelChain;
use serde::{Deserialize, Serialize};
use serde_json::json;
use std::{
    cell::RefCell,
    collections::BTreeSet,
    sync::atomic::{AtomicU64, Ordering},
    time::Duration,
};

type CStore = InMemoryStorage<MerkleizedColumn<CompressionColumn>>;

/// Retention of the temporal registry in seconds (small, so that expiry is
/// reachable with the time steps {0, 1, RETENTION+1}).
const RETENTION: u64 = 1;
const T0: u64 = 1_000;

fn main() {
    let cli = Cli::parse();
    match cli.property.as_str() {
        "C33" => c33(&cli),
        other => machinery_failure(&format!("vh-compress does not serve {other}")),
    }
}

// ---------------------------------------------------------------------------
// Deterministic view of the compressor's database
// ---------------------------------------------------------------------------

/// One buffered `write_registry` call.
#[derive(Clone)]
enum Write {
    Address(RegistryKey, Address, Tai64),
    AssetId(RegistryKey, AssetId, Tai64),
    ContractId(RegistryKey, ContractId, Tai64),
    ScriptCode(RegistryKey, ScriptCode, Tai64),
    PredicateCode(RegistryKey, PredicateCode, Tai64),
}

impl Write {
    fn space(&self) -> u8 {
        match self {
            Write::Address(..) => 0,
            Write::AssetId(..) => 1,
            Write::ContractId(..) => 2,
            Write::ScriptCode(..) => 3,
            Write::PredicateCode(..) => 4,
        }
    }
    fn key(&self) -> u32 {
        match self {
            Write::Address(k, ..) | Write::AssetId(k, ..) | Write::ContractId(k, ..) | Write::ScriptCode(k, ..) | Write::PredicateCode(k, ..) => k.as_u32(),
        }
    }
}

/// Wraps the REAL `CompressionContext` and forwards everything to it.  The only
/// thing it owns is the order in which the registrations of one block are
/// written: `compress` iterates a `std::collections::HashMap` with a random
/// hasher, so that order differs from run to run.  All `write_registry` calls of
/// `CompressCtx::finalize` happen after the last read, so they are buffered and
/// applied (through the real `write_registry`) in an order chosen by the
/// history (ascending or descending registry key); the `registrations` vector
/// of the produced block is put in the same order, which is exactly the block
/// the real code produces when its hash map happens to iterate in that order.
struct Det<'a, 's> {
    inner: CompressionContext<'a, &'s mut CStore>,
    writes: Vec<Write>,
    /// distinct non-default values the block made the compressor look up
    looked: RefCell<BTreeSet<(u8, u64)>>,
}

macro_rules! det_impl {
    ($ty:ty, $variant:ident) => {
        impl TemporalRegistry<$ty> for Det<'_, '_> {
            fn read_registry(&self, key: &RegistryKey) -> anyhow::Result<$ty> {
                assert!(self.writes.is_empty(), "HARNESS: registry read after a buffered write");
                <_ as TemporalRegistry<$ty>>::read_registry(&self.inner, key)
            }
            fn read_timestamp(&self, key: &RegistryKey) -> anyhow::Result<Tai64> {
                assert!(self.writes.is_empty(), "HARNESS: registry read after a buffered write");
                <_ as TemporalRegistry<$ty>>::read_timestamp(&self.inner, key)
            }
            fn write_registry(&mut self, key: &RegistryKey, value: &$ty, timestamp: Tai64) -> anyhow::Result<()> {
                self.writes.push(Write::$variant(*key, value.clone(), timestamp));
                Ok(())
            }
            fn registry_index_lookup(&self, value: &$ty) -> anyhow::Result<Option<RegistryKey>> {
                assert!(self.writes.is_empty(), "HARNESS: registry read after a buffered write");
                self.looked.borrow_mut().insert((stringify!($variant).len() as u8, hash_of(value)));
                <_ as TemporalRegistry<$ty>>::registry_index_lookup(&self.inner, value)
            }
        }
        impl EvictorDb<$ty> for Det<'_, '_> {
            fn get_latest_assigned_key(&self) -> anyhow::Result<Option<RegistryKey>> {
                assert!(self.writes.is_empty(), "HARNESS: registry read after a buffered write");
                <_ as EvictorDb<$ty>>::get_latest_assigned_key(&self.inner)
            }
            fn set_latest_assigned_key(&mut self, key: RegistryKey) -> anyhow::Result<()> {
                <_ as EvictorDb<$ty>>::set_latest_assigned_key(&mut self.inner, key)
            }
        }
    };
}
det_impl!(Address, Address);
det_impl!(AssetId, AssetId);
det_impl!(ContractId, ContractId);
det_impl!(ScriptCode, ScriptCode);
det_impl!(PredicateCode, PredicateCode);

impl UtxoIdToPointer for Det<'_, '_> {
    fn lookup(&self, utxo_id: UtxoId) -> anyhow::Result<CompressedUtxoId> {
        self.inner.lookup(utxo_id)
    }
}

impl Det<'_, '_> {
    /// Apply the buffered registrations through the real `write_registry`,
    /// keyspace by keyspace (the order `write_to_registry` uses), keys ascending
    /// or descending.  Returns the largest number of registrations in one keyspace.
    fn flush(mut self, rev: bool) -> anyhow::Result<usize> {
        let mut writes = std::mem::take(&mut self.writes);
        writes.sort_by_key(|w| (w.space(), if rev { u32::MAX - w.key() } else { w.key() }));
        let mut per_space = [0usize; 5];
        for w in writes {
            per_space[w.space() as usize] += 1;
            match w {
                Write::Address(k, v, t) => self.inner.write_registry(&k, &v, t)?,
                Write::AssetId(k, v, t) => self.inner.write_registry(&k, &v, t)?,
                Write::ContractId(k, v, t) => self.inner.write_registry(&k, &v, t)?,
                Write::ScriptCode(k, v, t) => self.inner.write_registry(&k, &v, t)?,
                Write::PredicateCode(k, v, t) => self.inner.write_registry(&k, &v, t)?,
            }
        }
        Ok(per_space.into_iter().max().unwrap_or(0))
    }
}

fn order_registrations(block: &mut VersionedCompressedBlock, rev: bool) {
    let k = |key: &RegistryKey| if rev { u32::MAX - key.as_u32() } else { key.as_u32() };
    #[allow(unreachable_patterns)]
    match block {
        VersionedCompressedBlock::V0(p) => {
            p.registrations.address.sort_by_key(|(key, _)| k(key));
            p.registrations.asset_id.sort_by_key(|(key, _)| k(key));
            p.registrations.contract_id.sort_by_key(|(key, _)| k(key));
            p.registrations.script_code.sort_by_key(|(key, _)| k(key));
            p.registrations.predicate_code.sort_by_key(|(key, _)| k(key));
        }
        _ => machinery_failure("unexpected compressed block version"),
    }
}

// ---------------------------------------------------------------------------
// World
// ---------------------------------------------------------------------------

#[derive(Clone)]
struct World {
    comp: CStore,
    decomp: CStore,
    chain: ModelChain,
    height: u32,
    time: u64,
}

#[derive(Clone, Debug, Serialize, Deserialize)]
struct Blk {
    /// block template
    t: u8,
    /// 0 = same timestamp, 1 = +1 s (= retention, the accessibility boundary), 2 = +retention+1 s
    dt: u8,
    /// registrations of one keyspace written in descending key order
    rev: bool,
}

/// How the registry looks before the first block of a history.
#[derive(Clone, Copy, Debug, PartialEq)]
enum Seed {
    /// empty databases, no key assigned yet
    Fresh,
    /// the key space has wrapped once: key 0 holds value 0 of every keyspace
    /// (fresh timestamp) and the last assigned key is MAX_WRITABLE, so the next
    /// registration lands on the live key 0
    WrapOnLive,
    /// keys 0 and 1 hold values 0 and 1, last assigned key is MAX_WRITABLE-1: the
    /// next registrations get MAX_WRITABLE, 0 (wrap-around), 1
    WrapBeforeMax,
    /// keys 0 and 1 hold the live values 0 and 1 and the last assigned key is
    /// MAX_WRITABLE: the cursor wraps onto two consecutive live keys
    WrapOnTwoLive,
}

struct Subj {
    seed: Seed,
    templates: Vec<u8>,
    dts: Vec<u8>,
    revs: bool,
    alpha: Alphabet,
    events: [AtomicU64; EVENTS.len()],
}

/// Registry events a transition can exhibit (vacuity guard: every one of them
/// must occur in a run that starts from a wrapped key space).
const EVENTS: [&str; 10] = ["reuse", "fresh-key", "rereg-same-key", "evict-live", "evict-expired", "wrap-to-zero", "max-key", "two-in-keyspace", "skip-two-kept", "script-bytes-as-predicate"];

/// Events that must occur when exploring from `seed` (the others are out of
/// reach of that seed within the bounds).
fn required_events(seed: Seed) -> &'static [&'static str] {
    match seed {
        Seed::Fresh => &[],
        // (from WrapOnLive the next key is 0: MAX_WRITABLE is 2^24 registrations away)
        Seed::WrapOnLive => &["reuse", "fresh-key", "rereg-same-key", "evict-live", "evict-expired", "wrap-to-zero", "two-in-keyspace", "script-bytes-as-predicate"],
        // (from WrapBeforeMax a live entry is only hit after more steps than the bound)
        Seed::WrapBeforeMax => &["reuse", "fresh-key", "rereg-same-key", "evict-expired", "wrap-to-zero", "max-key", "two-in-keyspace", "script-bytes-as-predicate"],
        Seed::WrapOnTwoLive => &["reuse", "fresh-key", "skip-two-kept", "script-bytes-as-predicate"],
    }
}

/// Number of writable keys (0 ..= MAX_WRITABLE).
const KEY_SPACE: u32 = (1 << 24) - 1;

fn key(n: u32) -> RegistryKey {
    RegistryKey::try_from(n).unwrap()
}

impl Subj {
    fn config(&self) -> Config {
        Config { temporal_registry_retention: Duration::from_secs(RETENTION) }
    }

    fn seed_db(&self, db: &mut CStore, compressor: bool) {
        let a = &self.alpha;
        let (n_values, latest) = match self.seed {
            Seed::Fresh => return,
            Seed::WrapOnLive => (1usize, RegistryKey::MAX_WRITABLE),
            Seed::WrapBeforeMax => (2usize, key(RegistryKey::MAX_WRITABLE.as_u32() - 1)),
            Seed::WrapOnTwoLive => (2usize, RegistryKey::MAX_WRITABLE),
        };
        let mut tx = db.write_transaction();
        {
            let mut w = CompressionStorageWrapper { storage_tx: &mut tx };
            let ts = Tai64(T0);
            for i in 0..n_values {
                let k = key(i as u32);
                w.write_registry(&k, &a.addr[i], ts).unwrap();
                w.write_registry(&k, &a.asset[i], ts).unwrap();
                w.write_registry(&k, &a.contract[i], ts).unwrap();
                w.write_registry(&k, &ScriptCode::from(a.script[i].clone()), ts).unwrap();
                w.write_registry(&k, &PredicateCode::from(a.pred[i].clone()), ts).unwrap();
            }
        }
        if compressor {
            for mk in [MetadataKey::Address, MetadataKey::AssetId, MetadataKey::ContractId, MetadataKey::ScriptCode, MetadataKey::PredicateCode] {
                tx.storage_as_mut::<EvictorCache>().insert(&mk, &latest).unwrap();
            }
        }
        tx.commit().unwrap();
    }
}

fn dump(db: &CStore, out: &mut Vec<u8>) {
    // every column except the archive of compressed blocks (column 0 and its
    // merkle columns): nothing in compress/decompress reads it back
    let mut rows: Vec<(&(u32, Vec<u8>), &fuel_core_storage::kv_store::Value)> = db.storage().iter().filter(|((c, _), _)| !is_archive_column(*c)).collect();
    rows.sort();
    for ((c, k), v) in rows {
        out.extend_from_slice(&c.to_le_bytes());
        out.extend_from_slice(&(k.len() as u32).to_le_bytes());
        out.extend_from_slice(k);
        out.extend_from_slice(&(v.len() as u32).to_le_bytes());
        out.extend_from_slice(v);
    }
}

fn archive_columns() -> &'static [u32] {
    use fuel_core_storage::kv_store::StorageColumn;
    use std::sync::OnceLock;
    static C: OnceLock<Vec<u32>> = OnceLock::new();
    C.get_or_init(|| {
        vec![
            MerkleizedColumn::TableColumn(CompressionColumn::CompressedBlocks).id(),
            MerkleizedColumn::<CompressionColumn>::MerkleDataColumn(CompressionColumn::CompressedBlocks).id(),
            MerkleizedColumn::<CompressionColumn>::MerkleMetadataColumn.id(),
        ]
    })
}

fn is_archive_column(c: u32) -> bool {
    // the shared merkle-metadata column holds one root per table, including the
    // archive's; it is excluded as a whole (roots are functions of the table
    // contents, which are in the key)
    archive_columns().contains(&c)
}

/// First differing path between two JSON values (array indices kept).
fn json_diff(a: &serde_json::Value, b: &serde_json::Value, path: &mut Vec<String>) -> Option<(String, String, String)> {
    use serde_json::Value::*;
    match (a, b) {
        (Object(x), Object(y)) => {
            for (k, v) in x {
                match y.get(k) {
                    Some(w) => {
                        path.push(k.clone());
                        if let Some(d) = json_diff(v, w, path) {
                            return Some(d);
                        }
                        path.pop();
                    }
                    None => return Some((format!("{}.{k}", path.join(".")), v.to_string(), "<absent>".into())),
                }
            }
            for k in y.keys() {
                if !x.contains_key(k) {
                    return Some((format!("{}.{k}", path.join(".")), "<absent>".into(), y[k].to_string()));
                }
            }
            None
        }
        (Array(x), Array(y)) if x.len() == y.len() && !x.iter().all(|v| v.is_number()) => {
            for (i, (v, w)) in x.iter().zip(y).enumerate() {
                path.push(format!("[{i}]"));
                if let Some(d) = json_diff(v, w, path) {
                    return Some(d);
                }
                path.pop();
            }
            None
        }
        _ if a == b => None,
        _ => Some((path.join("."), short(a), short(b))),
    }
}

fn short(v: &serde_json::Value) -> String {
    let s = v.to_string();
    if s.len() > 160 {
        format!("{}…({} chars)", &s[..160], s.len())
    } else {
        s
    }
}

/// Path without array indices (stable across positions).
fn class_of(path: &str) -> String {
    path.split('.').filter(|p| !p.starts_with('[')).collect::<Vec<_>>().join(".")
}

fn tx_kind(tx: &Transaction) -> &'static str {
    match tx {
        Transaction::Script(_) => "Script",
        Transaction::Create(_) => "Create",
        Transaction::Mint(_) => "Mint",
        Transaction::Upgrade(_) => "Upgrade",
        Transaction::Upload(_) => "Upload",
        Transaction::Blob(_) => "Blob",
    }
}

impl Subject for Subj {
    type World = World;
    type Op = Blk;

    fn name(&self) -> String {
        format!("compress/decompress[seed={:?},templates={:?},dt={:?},rev={}]", self.seed, self.templates, self.dts, self.revs)
    }

    fn fresh(&self) -> World {
        let mut comp = CStore::default();
        let mut decomp = CStore::default();
        self.seed_db(&mut comp, true);
        self.seed_db(&mut decomp, false);
        World { comp, decomp, chain: ModelChain::prefunded(&self.alpha), height: 0, time: T0 }
    }

    fn clone_world(&self, w: &World) -> Option<World> {
        Some(w.clone())
    }

    fn enabled(&self, _w: &World) -> Vec<Blk> {
        let mut v = vec![];
        for &t in &self.templates {
            for &dt in &self.dts {
                v.push(Blk { t, dt, rev: false });
                if self.revs && TEMPLATES[t as usize].multi {
                    v.push(Blk { t, dt, rev: true });
                }
            }
        }
        v
    }

    fn label(&self, op: &Blk) -> String {
        format!("{}{}", TEMPLATES[op.t as usize].name, if op.rev { "/rev" } else { "" })
    }

    fn step(&self, w: &mut World, op: &Blk) -> Result<String, Violation> {
        let chain_id = ChainId::default();
        let config = self.config();
        let height = w.height + 1;
        let time = w.time + match op.dt { 0 => 0, 1 => 1, _ => RETENTION + 1 };
        // the block, and the on-chain facts a node knows once it has the block
        let block: Block = build_block(&self.alpha, op.t, height, time, &mut w.chain);
        w.chain.record_block(&block, &chain_id);
        w.height = height;
        w.time = time;

        // where the evictor's cursor stands before this block, per keyspace
        let cursors: Vec<RegistryKey> = {
            let rt = w.comp.read_transaction();
            [MetadataKey::Address, MetadataKey::AssetId, MetadataKey::ContractId, MetadataKey::ScriptCode, MetadataKey::PredicateCode]
                .iter()
                .map(|mk| rt.storage_as_ref::<EvictorCache>().get(mk).ok().flatten().map(|k| k.into_owned().next()).unwrap_or(RegistryKey::ZERO))
                .collect()
        };

        // ---- compressor (real service flow: storage tx, context, compress, archive, commit)
        let (max_regs, n_regs, used) = {
            let mut tx = w.comp.write_transaction();
            let ctx = CompressionContext::create_from_block(&mut tx, &block, chain_id)
                .map_err(|e| viol("compress-error:context", format!("CompressionContext::create_from_block failed on a valid block at height {height}: {e:#}")))?;
            let mut det = Det { inner: ctx, writes: vec![], looked: RefCell::new(BTreeSet::new()) };
            let r = compress(&config, &mut det, &block).now_or_never().expect("compress resolves instantly");
            let mut compressed = r.map_err(|e| viol(format!("compress-error:{}", err_class(&format!("{e:#}"))), format!("compress failed on a valid block (height {height}, time {time}): {e:#}")))?;
            let det_used = det.looked.borrow().len();
            let max_regs = det.flush(op.rev).map_err(|e| viol("compress-error:write-registry", format!("write_registry failed: {e:#}")))?;
            order_registrations(&mut compressed, op.rev);
            let n_regs = {
                use fuel_core_compression::VersionedBlockPayload;
                let r = compressed.registrations();
                r.address.len() + r.asset_id.len() + r.contract_id.len() + r.script_code.len() + r.predicate_code.len()
            };
            tx.storage_as_mut::<CompressedBlocks>()
                .insert(&height.into(), &compressed)
                .map_err(|e| viol("compress-error:archive", format!("cannot store the compressed block: {e:?}")))?;
            tx.commit().map_err(|e| viol("compress-error:commit", format!("commit failed: {e:?}")))?;
            let used = det_used;
            (max_regs, n_regs, used)
        };

        // ---- the wire: the decompressor gets what the archive table (postcard) gives back
        let compressed: VersionedCompressedBlock = w
            .comp
            .read_transaction()
            .storage_as_ref::<CompressedBlocks>()
            .get(&height.into())
            .map_err(|e| viol("archive-read-error", format!("{e:?}")))?
            .ok_or_else(|| viol("archive-read-error", "compressed block missing from the archive table"))?
            .into_owned();

        // ---- what happens to the registry (read from the decompressor's database, which
        // is still in the state before this block)
        let mut tags: BTreeSet<&'static str> = BTreeSet::new();
        {
            use fuel_core_compression::VersionedBlockPayload;
            let mut rtx = w.decomp.write_transaction();
            let view = CompressionStorageWrapper { storage_tx: &mut rtx };
            let regs = compressed.registrations();
            macro_rules! classify {
                ($list:expr, $ty:ty) => {
                    for (k, v) in $list.iter() {
                        let old: Option<$ty> = view.read_registry(k).ok();
                        let old_ts: Option<Tai64> = <_ as TemporalRegistry<$ty>>::read_timestamp(&view, k).ok();
                        let live = old_ts.map(|t| config.is_timestamp_accessible(Tai64(time), t).unwrap_or(false)).unwrap_or(false);
                        tags.insert(match &old {
                            None => "fresh-key",
                            Some(o) if o == v => "rereg-same-key",
                            Some(_) if live => "evict-live",
                            Some(_) => "evict-expired",
                        });
                        if *k == RegistryKey::ZERO && self.seed != Seed::Fresh {
                            tags.insert("wrap-to-zero");
                        }
                        if *k == RegistryKey::MAX_WRITABLE {
                            tags.insert("max-key");
                        }
                    }
                };
            }
            classify!(regs.address, Address);
            classify!(regs.asset_id, AssetId);
            classify!(regs.contract_id, ContractId);
            classify!(regs.script_code, ScriptCode);
            classify!(regs.predicate_code, PredicateCode);
            // the first key handed out lies two or more past the cursor: the evictor had
            // to step over that many consecutive keys the block itself still reads
            let firsts: [Option<u32>; 5] = [
                regs.address.iter().map(|(k, _)| (k.as_u32() + KEY_SPACE - cursors[0].as_u32()) % KEY_SPACE).min(),
                regs.asset_id.iter().map(|(k, _)| (k.as_u32() + KEY_SPACE - cursors[1].as_u32()) % KEY_SPACE).min(),
                regs.contract_id.iter().map(|(k, _)| (k.as_u32() + KEY_SPACE - cursors[2].as_u32()) % KEY_SPACE).min(),
                regs.script_code.iter().map(|(k, _)| (k.as_u32() + KEY_SPACE - cursors[3].as_u32()) % KEY_SPACE).min(),
                regs.predicate_code.iter().map(|(k, _)| (k.as_u32() + KEY_SPACE - cursors[4].as_u32()) % KEY_SPACE).min(),
            ];
            if firsts.iter().flatten().any(|d| *d >= 2) {
                tags.insert("skip-two-kept");
            }
            // bytes that are live in the script keyspace are used as a predicate
            for p in block_predicates(&block) {
                let as_script = ScriptCode::from(p);
                if let Ok(Some(k)) = view.registry_index_lookup(&as_script) {
                    let ts: Option<Tai64> = <_ as TemporalRegistry<ScriptCode>>::read_timestamp(&view, &k).ok();
                    if ts.map(|t| config.is_timestamp_accessible(Tai64(time), t).unwrap_or(false)).unwrap_or(false) {
                        tags.insert("script-bytes-as-predicate");
                    }
                }
            }
        }
        if used > n_regs {
            tags.insert("reuse");
        }
        if max_regs >= 2 {
            tags.insert("two-in-keyspace");
        }
        for t in &tags {
            let i = EVENTS.iter().position(|e| e == t).expect("known event");
            self.events[i].fetch_add(1, Ordering::Relaxed);
        }

        // ---- decompressor (own database, model of the on-chain tables)
        let partial = {
            let mut dtx = w.decomp.write_transaction();
            let dctx = DecompressionContext { compression_storage: CompressionStorageWrapper { storage_tx: &mut dtx }, onchain_db: &w.chain };
            let r = decompress(config, dctx, compressed).now_or_never().expect("decompress resolves instantly");
            let p = r.map_err(|e| viol(format!("decompress-error:{}", err_class(&format!("{e:#}"))), format!("decompress failed for the block at height {height} (time {time}): {e:#}")))?;
            dtx.commit().map_err(|e| viol("decompress-error:commit", format!("{e:?}")))?;
            p
        };

        // ---- oracle
        let want_header = PartialBlockHeader::from(block.header());
        if partial.header != want_header {
            let d = json_diff(&json!(want_header), &json!(partial.header), &mut vec![]).map(|(p, a, b)| (class_of(&p), a, b)).unwrap_or_default();
            return Err(viol(format!("mismatch:header:{}", d.0), format!("height {height}: header field {} expected {} got {}", d.0, d.1, d.2)));
        }
        if partial.transactions.len() != block.transactions().len() {
            return Err(viol("mismatch:tx-count", format!("height {height}: {} transactions expected, {} decompressed", block.transactions().len(), partial.transactions.len())));
        }
        for (i, (orig, got)) in block.transactions().iter().zip(&partial.transactions).enumerate() {
            let want = normalise_tx(orig);
            if &want != got {
                let (p, a, b) = json_diff(&json!(want), &json!(got), &mut vec![]).unwrap_or(("?".into(), "?".into(), "?".into()));
                return Err(viol(
                    format!("mismatch:{}:{}", tx_kind(orig), class_of(&p)),
                    format!("height {height} tx {i} ({}): field {p} expected {a} got {b}", tx_kind(orig)),
                ));
            }
            use fuel_core_types::fuel_tx::UniqueIdentifier;
            // (a mint's id covers the contract-input fields that compression drops by design)
            if !matches!(orig, Transaction::Mint(_)) && orig.id(&chain_id) != got.id(&chain_id) {
                return Err(viol(format!("mismatch:{}:tx-id", tx_kind(orig)), format!("height {height} tx {i}: transaction id differs")));
            }
        }
        Ok(format!("ok values={used} regs={n_regs} {}", tags.into_iter().collect::<Vec<_>>().join(",")))
    }

    fn canon(&self, w: &World) -> Vec<u8> {
        let mut out = vec![];
        out.extend_from_slice(&w.height.to_le_bytes());
        out.extend_from_slice(&w.time.to_le_bytes());
        dump(&w.comp, &mut out);
        out.extend_from_slice(b"|decomp|");
        dump(&w.decomp, &mut out);
        out.extend_from_slice(b"|chain|");
        w.chain.digest(&mut out);
        out
    }

    fn interesting(&self, _op: &Blk, obs: &str) -> bool {
        // a block that registered something (fresh value, expired value or a
        // value whose key was evicted)
        // something happened in the registry: a key was reused, assigned,
        // overwritten, evicted, refreshed after expiry, ...
        !obs.ends_with(' ')
    }

    fn required_labels(&self) -> Vec<String> {
        self.templates.iter().map(|t| TEMPLATES[*t as usize].name.to_string()).collect()
    }
}

fn err_class(msg: &str) -> &'static str {
    let m = msg.to_lowercase();
    if m.contains("timestamp not accessible") {
        "timestamp-not-accessible"
    } else if m.contains("invalid timestamp ordering") {
        "timestamp-ordering"
    } else if m.contains("not found") || m.contains("notfound") {
        "not-found"
    } else if m.contains("utxo") {
        "utxo"
    } else {
        "other"
    }
}

// ---------------------------------------------------------------------------
// Registry probes (vacuity: did reuse / eviction / overwrite / expiry happen?)
// ---------------------------------------------------------------------------

/// Replays a few fixed histories and reports what the registry did, so that
/// the evidence shows the interesting events really occur in the alphabet.
fn witness_events(subjects: &[Subj]) -> serde_json::Value {
    let mut out = vec![];
    for s in subjects {
        let mut w = s.fresh();
        let mut log = vec![];
        for (t, dt) in [(6u8, 1u8), (2, 0), (0, 1), (3, 2), (1, 0), (2, 2)] {
            if !s.templates.contains(&t) || !s.dts.contains(&dt) {
                continue;
            }
            let r = s.step(&mut w, &Blk { t, dt, rev: false });
            log.push(json!({"block": TEMPLATES[t as usize].name, "dt": dt, "result": match r { Ok(o) => o, Err(v) => format!("VIOLATION {}", v.sig) }}));
        }
        out.push(json!({"subject": s.name(), "trace": log}));
    }
    json!(out)
}

fn c33(cli: &Cli) {
    let thorough = cli.tier == Tier::Thorough;
    let alpha = Alphabet::new();
    let all: Vec<u8> = (0..6).collect();
    let all7: Vec<u8> = (0..TEMPLATES.len() as u8).collect();
    let two_live: Vec<u8> = vec![2, 3, 4, 6];
    let mk = |seed: Seed, templates: Vec<u8>, dts: Vec<u8>, revs: bool| Subj { seed, templates, dts, revs, alpha: alpha.clone(), events: Default::default() };
    // (subject, depth)
    let mut plan: Vec<(Subj, usize)> = vec![];
    let core4: Vec<u8> = vec![0, 1, 2, 3];
    if thorough {
        for seed in [Seed::WrapOnLive, Seed::WrapBeforeMax] {
            plan.push((mk(seed, all.clone(), vec![0, 1, 2], true), 4));
            plan.push((mk(seed, all.clone(), vec![1, 2], true), 5));
            // deeper, on the templates that drive the registry hardest
            plan.push((mk(seed, core4.clone(), vec![1, 2], false), 6));
        }
        plan.push((mk(Seed::Fresh, all.clone(), vec![1, 2], false), 4));
        plan.push((mk(Seed::WrapOnTwoLive, all7.clone(), vec![0, 1, 2], true), 4));
    } else {
        plan.push((mk(Seed::WrapOnLive, all.clone(), vec![0, 1, 2], false), 3));
        plan.push((mk(Seed::WrapOnLive, all.clone(), vec![1, 2], true), 4));
        plan.push((mk(Seed::WrapBeforeMax, all.clone(), vec![1, 2], true), 4));
        plan.push((mk(Seed::Fresh, all.clone(), vec![1, 2], false), 3));
        plan.push((mk(Seed::WrapOnTwoLive, two_live.clone(), vec![1, 2], true), 3));
    }
    if let Some(path) = &cli.replay {
        let rf = load_replay(path);
        for (s, _) in &plan {
            if s.name() == rf.subject {
                replay_and_exit(s, &rf);
            }
        }
        // a replay recorded by the other tier: rebuild the subject from its name
        for seed in [Seed::WrapOnLive, Seed::WrapBeforeMax, Seed::Fresh, Seed::WrapOnTwoLive] {
            for revs in [true, false] {
                for tpl in [all.clone(), core4.clone(), all7.clone(), two_live.clone()] {
                    for dts in [vec![0u8, 1, 2], vec![1u8, 2]] {
                        let s = mk(seed, tpl.clone(), dts, revs);
                        if s.name() == rf.subject {
                            replay_and_exit(&s, &rf);
                        }
                    }
                }
            }
        }
        machinery_failure("replay: unknown subject");
    }
    let mut run = Run::new(cli, "model_checking");
    let mut event_report = vec![];
    for (s, depth) in &plan {
        let b = Bounds::new(*depth, cli).wall(cli.tier.pick(45, 1200));
        let r = explore(s, &b);
        // vacuity: in a wrapped key space every registry event must have happened
        let counts: Vec<(&str, u64)> = EVENTS.iter().zip(&s.events).map(|(e, c)| (*e, c.load(Ordering::Relaxed))).collect();
        if r.violations.is_empty() {
            for e in required_events(s.seed) {
                if counts.iter().any(|(n, c)| n == e && *c == 0) {
                    machinery_failure(&format!("{}: vacuous exploration, registry event '{e}' never happened", s.name()));
                }
            }
        }
        event_report.push(json!({"subject": s.name(), "steps_showing_event(incl. replayed prefixes)": counts.iter().map(|(e, c)| (e.to_string(), json!(c))).collect::<serde_json::Map<_, _>>()}));
        run.add(r);
    }
    run.note("registry_events", json!(event_report));
    let probes: Vec<Subj> = plan.iter().map(|(s, _)| mk(s.seed, s.templates.clone(), s.dts.clone(), s.revs)).collect();
    run.note("registry_event_probe", witness_events(&probes));
    run.note("retention_s", json!(RETENTION));
    run.assume("fields that DA compression drops by design (#[compress(skip)] in fuel-tx: coin tx_pointer, contract-input utxo/roots/tx_pointer, contract-output roots, change amount, variable output, script receipts_root) are compared in their zeroed form, i.e. the original transaction after fuel-tx's prepare_sign() with predicate_gas_used restored; everything else, the mint tx pointer and the transaction id are compared exactly");
    run.assume("the order in which the registrations of one block are written (a randomly seeded HashMap inside compress) is pinned by the harness to ascending or descending key order, both explored");
    run.assume("the decompressor's on-chain lookups (coins, messages, block -> tx ids) are a boring model filled from the original blocks, as on a node that has the chain");
    run.finish();
}
