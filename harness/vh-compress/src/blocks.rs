//! Block alphabet for C33: seven block templates over two (+1) addresses, two asset
//! ids, two contract ids, two scripts and two predicates (plus the default
//! values, which map to the reserved registry key), every block closed by a mint.
use crate::model::ModelChain;
use fuel_core_types::{
    blockchain::{
        block::Block,
        header::{ApplicationHeader, ConsensusHeader, PartialBlockHeader},
        primitives::Empty,
    },
    entities::relayer::message::MessageV1,
    fuel_tx::{
        field::Inputs,
        input::contract::Contract as InContract,
        output::contract::Contract as OutContract,
        policies::Policies,
        Address, AssetId, BlobBody, BlobId, Bytes32, ContractId, Input, Output, PrepareSign, Salt, StorageSlot, Transaction, TxPointer, UpgradePurpose, UploadBody,
        UtxoId, Witness,
    },
    fuel_types::{BlockHeight, Nonce},
    tai64::Tai64,
};

#[derive(Clone)]
pub struct Alphabet {
    /// two addresses used everywhere plus a third one that only template `abc` introduces
    pub addr: [Address; 3],
    pub asset: [AssetId; 2],
    pub contract: [ContractId; 2],
    pub script: [Vec<u8>; 2],
    pub pred: [Vec<u8>; 2],
}

impl Alphabet {
    pub fn new() -> Self {
        Alphabet {
            addr: [[0xA0u8; 32].into(), [0xA1u8; 32].into(), [0xA2u8; 32].into()],
            asset: [[0x50u8; 32].into(), [0x51u8; 32].into()],
            contract: [[0xC0u8; 32].into(), [0xC1u8; 32].into()],
            // `ret $one` / `movi + ret` style byte strings of different length
            script: [vec![0x24, 0x40, 0x00, 0x00], vec![0x72, 0x40, 0x00, 0x07, 0x24, 0x40, 0x00, 0x00]],
            // predicate 1 is byte-identical to script 0: the same bytes live in two keyspaces
            pred: [vec![0x24, 0x04, 0x00, 0x00], vec![0x24, 0x40, 0x00, 0x00]],
        }
    }
}

pub struct Template {
    pub name: &'static str,
    /// may register two values of one keyspace in one block (write order matters)
    pub multi: bool,
}

pub const TEMPLATES: [Template; 7] = [
    Template { name: "a", multi: false },
    Template { name: "b", multi: false },
    Template { name: "ab", multi: true },
    Template { name: "ba", multi: true },
    Template { name: "default", multi: false },
    Template { name: "mixed", multi: true },
    Template { name: "abc", multi: true },
];

fn b32(tag: u8, n: u32) -> Bytes32 {
    let mut b = [tag; 32];
    b[..4].copy_from_slice(&n.to_be_bytes());
    b.into()
}

struct Ctx<'a> {
    a: &'a Alphabet,
    chain: &'a mut ModelChain,
    height: u32,
    n_msg: u8,
}

impl Ctx<'_> {
    fn coin_signed(&mut self, witness_index: u16) -> Option<Input> {
        let u = self.chain.take_coin()?;
        Some(Input::coin_signed(u.id, u.owner, u.amount, u.asset, u.ptr, witness_index))
    }
    fn coin_predicate(&mut self, p: usize) -> Option<Input> {
        let u = self.chain.take_coin()?;
        Some(Input::coin_predicate(u.id, u.owner, u.amount, u.asset, u.ptr, 1_000 + p as u64, self.a.pred[p].clone(), vec![p as u8, 7, 7]))
    }
    fn contract(&self, c: ContractId) -> Input {
        // utxo id, roots and pointer are what the executor fills in
        Input::contract(UtxoId::new(b32(0xEE, self.height), 3), b32(0xB1, self.height), b32(0xB2, self.height), TxPointer::new(BlockHeight::from(self.height.saturating_sub(1)), 1), c)
    }
    fn out_contract(&self, input_index: u16) -> Output {
        Output::contract(input_index, b32(0xB3, self.height), b32(0xB4, self.height))
    }
    fn message(&mut self, data: Vec<u8>) -> MessageV1 {
        let mut n = [0x4Eu8; 32];
        n[..4].copy_from_slice(&self.height.to_be_bytes());
        n[4] = self.n_msg;
        self.n_msg += 1;
        let m = MessageV1 {
            sender: self.a.addr[(self.n_msg % 2) as usize],
            recipient: self.a.addr[((self.n_msg + 1) % 2) as usize],
            nonce: Nonce::from(n),
            amount: 500 + self.n_msg as u64,
            data,
            da_height: (self.height as u64).into(),
        };
        self.chain.add_message(m.clone());
        m
    }
    fn msg_coin_signed(&mut self, witness_index: u16) -> Input {
        let m = self.message(vec![]);
        Input::message_coin_signed(m.sender, m.recipient, m.amount, m.nonce, witness_index)
    }
    fn msg_coin_predicate(&mut self, p: usize) -> Input {
        let m = self.message(vec![]);
        Input::message_coin_predicate(m.sender, m.recipient, m.amount, m.nonce, 2_000 + p as u64, self.a.pred[p].clone(), vec![9, p as u8])
    }
    fn msg_data_signed(&mut self, witness_index: u16) -> Input {
        let m = self.message(vec![1, 2, 3, self.height as u8]);
        Input::message_data_signed(m.sender, m.recipient, m.amount, m.nonce, witness_index, m.data.clone())
    }
    fn msg_data_predicate(&mut self, p: usize) -> Input {
        let m = self.message(vec![0xD0, self.height as u8]);
        Input::message_data_predicate(m.sender, m.recipient, m.amount, m.nonce, 3_000 + p as u64, m.data.clone(), self.a.pred[p].clone(), vec![])
    }
    fn policies(&self, k: u64) -> Policies {
        let p = Policies::new().with_max_fee(10_000 + k).with_tip(k);
        if k % 2 == 0 {
            p.with_maturity(BlockHeight::from(self.height.saturating_sub(1))).with_witness_limit(4_096)
        } else {
            p
        }
    }
    fn script(&self, script: Vec<u8>, k: u64, inputs: Vec<Option<Input>>, outputs: Vec<Output>, witnesses: Vec<Witness>) -> Transaction {
        let inputs: Vec<Input> = inputs.into_iter().flatten().collect();
        let mut tx = Transaction::script(1_000_000 + k, script, vec![k as u8; (k % 3) as usize], self.policies(k), inputs, outputs, witnesses);
        // the executor stores the receipts root in the block's copy of the transaction
        *fuel_core_types::fuel_tx::field::ReceiptsRoot::receipts_root_mut(&mut tx) = b32(0x77, self.height);
        tx.into()
    }
    fn mint(&self, n_txs: usize, contract: ContractId, asset: AssetId) -> Transaction {
        Transaction::mint(
            TxPointer::new(BlockHeight::from(self.height), n_txs as u16),
            InContract { utxo_id: UtxoId::new(b32(0xED, self.height), 0), balance_root: b32(0xB5, self.height), state_root: b32(0xB6, self.height), tx_pointer: TxPointer::new(BlockHeight::from(self.height.saturating_sub(1)), 0), contract_id: contract },
            OutContract { input_index: 0, balance_root: b32(0xB7, self.height), state_root: b32(0xB8, self.height) },
            42 + self.height as u64,
            asset,
            7,
        )
        .into()
    }
}

fn sig() -> Witness {
    Witness::from(vec![0x5Au8; 64])
}

/// Build block `t` of the alphabet at `height` / `time`; coins it spends are
/// taken from the model chain, messages it consumes are added to it.
pub fn build_block(a: &Alphabet, t: u8, height: u32, time: u64, chain: &mut ModelChain) -> Block {
    let mut c = Ctx { a, chain, height, n_msg: 0 };
    let [a0, a1, a2] = a.addr;
    let [s0, s1] = a.asset;
    let [c0, c1] = a.contract;
    let mut txs: Vec<Transaction> = match t {
        // only the values with index 0 of every keyspace
        0 => {
            let inputs = vec![c.coin_predicate(0), Some(c.contract(c0))];
            vec![c.script(a.script[0].clone(), 1, inputs, vec![Output::coin(a0, 10, s0), c.out_contract(1), Output::change(a0, 55, s0)], vec![])]
        }
        // only the values with index 1
        1 => {
            let inputs = vec![c.coin_signed(0), Some(c.msg_data_predicate(1)), Some(c.contract(c1))];
            vec![c.script(a.script[1].clone(), 2, inputs, vec![Output::coin(a1, 11, s1), Output::variable(a1, 5, s1), c.out_contract(2)], vec![sig()])]
        }
        // index 0 first, then index 1, in every keyspace
        2 => {
            let i0 = vec![c.coin_predicate(0), Some(c.contract(c0)), Some(c.contract(c1))];
            let t0 = c.script(a.script[0].clone(), 3, i0, vec![Output::coin(a0, 12, s0), Output::coin(a1, 13, s1), c.out_contract(1), c.out_contract(2)], vec![]);
            let i1 = vec![Some(c.msg_coin_predicate(1))];
            let t1 = c.script(a.script[1].clone(), 4, i1, vec![Output::change(a1, 9, s0)], vec![]);
            vec![t0, t1]
        }
        // index 1 first, then index 0; three transactions including a create
        3 => {
            let i0 = vec![c.coin_predicate(1), Some(c.contract(c1)), Some(c.contract(c0))];
            let t0 = c.script(a.script[1].clone(), 5, i0, vec![Output::coin(a1, 14, s1), Output::change(a0, 1, s0), c.out_contract(1), c.out_contract(2)], vec![]);
            let i1: Vec<Input> = vec![c.coin_signed(1)].into_iter().flatten().collect();
            let t1: Transaction = Transaction::create(
                0,
                c.policies(6),
                Salt::from([0x5Au8; 32]),
                vec![StorageSlot::new(b32(1, height), b32(2, height))],
                i1,
                vec![Output::contract_created(c0, b32(0xC5, height)), Output::change(a0, 3, s1)],
                vec![Witness::from(vec![0xBCu8; 33]), sig()],
            )
            .into();
            let i2 = vec![Some(c.msg_coin_signed(0)), c.coin_predicate(0)];
            let t2 = c.script(a.script[0].clone(), 7, i2, vec![Output::coin(a0, 15, s0)], vec![sig()]);
            vec![t0, t1, t2]
        }
        // only default values: nothing is registered, time passes
        4 => {
            let inputs = vec![c.coin_signed(0)];
            vec![c.script(vec![], 8, inputs, vec![Output::coin(Address::zeroed(), 16, AssetId::zeroed()), Output::change(Address::zeroed(), 2, AssetId::zeroed())], vec![sig()])]
        }
        // both values of every keyspace are used again and a third address is new
        6 => {
            let i0 = vec![c.coin_predicate(0), Some(c.contract(c0)), Some(c.contract(c1))];
            let t0 = c.script(a.script[0].clone(), 12, i0, vec![Output::coin(a0, 18, s0), Output::coin(a1, 19, s1), Output::coin(a2, 20, s0), c.out_contract(1), c.out_contract(2)], vec![]);
            let i1 = vec![Some(c.msg_coin_predicate(1))];
            let t1 = c.script(a.script[1].clone(), 13, i1, vec![Output::change(a1, 8, s1)], vec![]);
            vec![t0, t1]
        }
        // blob, upload and upgrade transactions; a partial mix of the values
        _ => {
            let i0: Vec<Input> = vec![c.coin_signed(1)].into_iter().flatten().collect();
            let t0: Transaction = Transaction::blob(BlobBody { id: BlobId::from([0xB0u8; 32]), witness_index: 0 }, c.policies(9), i0, vec![Output::change(a0, 4, s1)], vec![Witness::from(vec![1u8, 2, 3]), sig()]).into();
            let i1: Vec<Input> = vec![c.coin_predicate(1)].into_iter().flatten().collect();
            let t1: Transaction = Transaction::upload(
                UploadBody { root: b32(0x60, height), witness_index: 0, subsection_index: 1, subsections_number: 2, proof_set: vec![b32(0x61, height), b32(0x62, height)] },
                c.policies(10),
                i1,
                vec![Output::coin(a0, 17, s1)],
                vec![Witness::from(vec![0x99u8; 40])],
            )
            .into();
            let i2 = vec![c.msg_data_signed(0)];
            let t2: Transaction = Transaction::upgrade(UpgradePurpose::StateTransition { root: b32(0x63, height) }, c.policies(11), i2, vec![Output::change(a1, 6, s1)], vec![sig()]).into();
            vec![t0, t1, t2]
        }
    };
    let (mc, ma) = match t {
        0 => (c0, s0),
        1 => (c1, s1),
        2 => (c0, s1),
        3 => (c1, s0),
        4 => (ContractId::zeroed(), AssetId::zeroed()),
        6 => (c1, s1),
        _ => (c0, s1),
    };
    let n = txs.len();
    txs.push(c.mint(n, mc, ma));
    let header = PartialBlockHeader {
        application: ApplicationHeader { da_height: (height as u64 * 3 + 1).into(), consensus_parameters_version: 1 + height % 2, state_transition_bytecode_version: 20 + height, generated: Empty },
        consensus: ConsensusHeader { prev_root: b32(0x90, height), height: height.into(), time: Tai64(time), generated: Empty },
    };
    Block::new(header, txs, &[], b32(0x91, height)).expect("valid block")
}

fn norm_chargeable<T: PrepareSign + Inputs>(tx: &mut T) {
    let gas: Vec<Option<u64>> = tx.inputs().iter().map(|i| i.predicate_gas_used()).collect();
    tx.prepare_sign();
    for (i, g) in tx.inputs_mut().iter_mut().zip(gas) {
        if let Some(g) = g {
            i.set_predicate_gas_used(g);
        }
    }
}

/// The transaction as DA compression is designed to reproduce it: fields that
/// fuel-tx marks `#[compress(skip)]` (filled in by the executor, zeroed for
/// the transaction id) are zero; everything else is untouched.
pub fn normalise_tx(tx: &Transaction) -> Transaction {
    let mut t = tx.clone();
    match &mut t {
        Transaction::Script(x) => norm_chargeable(x),
        Transaction::Create(x) => norm_chargeable(x),
        Transaction::Upgrade(x) => norm_chargeable(x),
        Transaction::Upload(x) => norm_chargeable(x),
        Transaction::Blob(x) => norm_chargeable(x),
        Transaction::Mint(m) => {
            use fuel_core_types::fuel_tx::field::{InputContract, OutputContract};
            m.input_contract_mut().prepare_sign();
            m.output_contract_mut().prepare_sign();
        }
    }
    t
}

/// Byte strings used as predicates by the inputs of a block.
pub fn block_predicates(block: &Block) -> Vec<Vec<u8>> {
    let mut v = vec![];
    for tx in block.transactions() {
        let inputs: &[Input] = match tx {
            Transaction::Script(t) => t.inputs(),
            Transaction::Create(t) => t.inputs(),
            Transaction::Upgrade(t) => t.inputs(),
            Transaction::Upload(t) => t.inputs(),
            Transaction::Blob(t) => t.inputs(),
            Transaction::Mint(_) => &[],
        };
        for i in inputs {
            if let Some(p) = i.input_predicate() {
                v.push(p.to_vec());
            }
        }
    }
    v
}
