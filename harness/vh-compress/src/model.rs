//! Boring model of what a node knows about the chain: coins by UTXO id,
//! relayed messages by nonce, and the transaction ids of every block.  It backs
//! the decompressor's `HistoryLookup` (through `StorageInspect`), and hands out
//! spendable coins to the block builder.
use crate::blocks::Alphabet;
use fuel_core_storage::{
    tables::{Coins, FuelBlocks, Messages},
    Error as StorageError, StorageInspect,
};
use fuel_core_types::{
    blockchain::block::{Block, CompressedBlock},
    entities::{
        coins::coin::{CompressedCoin, CompressedCoinV1},
        relayer::message::{Message, MessageV1},
    },
    fuel_tx::{Address, AssetId, Bytes32, Output, TxPointer, UniqueIdentifier, UtxoId},
    fuel_types::{BlockHeight, ChainId, Nonce},
};
use std::{borrow::Cow, collections::BTreeMap};

#[derive(Clone, Debug)]
pub struct Utxo {
    pub id: UtxoId,
    pub owner: Address,
    pub amount: u64,
    pub asset: AssetId,
    pub ptr: TxPointer,
}

#[derive(Clone, Default)]
pub struct ModelChain {
    coins: BTreeMap<UtxoId, CompressedCoin>,
    messages: BTreeMap<Nonce, Message>,
    blocks: BTreeMap<BlockHeight, CompressedBlock>,
    /// unspent coins in creation order
    unspent: Vec<Utxo>,
}

impl ModelChain {
    /// Block 0 (never compressed): one funding transaction with four coin outputs.
    pub fn prefunded(a: &Alphabet) -> Self {
        let mut m = ModelChain::default();
        let outputs = (0..4u64)
            .map(|i| Output::coin(a.addr[(i % 2) as usize], 1_000 + i, a.asset[((i / 2) % 2) as usize]))
            .collect();
        let funding = fuel_core_types::fuel_tx::Transaction::script(0, vec![], vec![], Default::default(), vec![], outputs, vec![]);
        let genesis = Block::new(Default::default(), vec![funding.into()], &[], Bytes32::zeroed()).expect("genesis block");
        m.record_block(&genesis, &ChainId::default());
        m
    }

    fn add_coin(&mut self, u: Utxo) {
        self.coins.insert(u.id, CompressedCoinV1 { owner: u.owner, amount: u.amount, asset_id: u.asset, tx_pointer: u.ptr }.into());
        self.unspent.push(u);
    }

    /// Oldest unspent coin (removed from the spendable list; the coin table keeps
    /// it, as a node's historical view does).
    pub fn take_coin(&mut self) -> Option<Utxo> {
        if self.unspent.is_empty() {
            None
        } else {
            Some(self.unspent.remove(0))
        }
    }

    pub fn add_message(&mut self, m: MessageV1) {
        self.messages.insert(m.nonce, m.into());
    }

    /// The node has executed/imported `block`: its transaction ids and the coins
    /// created by its coin outputs become known.
    pub fn record_block(&mut self, block: &Block, chain_id: &ChainId) {
        let height = *block.header().height();
        self.blocks.insert(height, block.compress(chain_id));
        for (ti, tx) in block.transactions().iter().enumerate() {
            let id = tx.id(chain_id);
            let outputs: Vec<Output> = match tx {
                fuel_core_types::fuel_tx::Transaction::Script(t) => fuel_core_types::fuel_tx::field::Outputs::outputs(t).clone(),
                fuel_core_types::fuel_tx::Transaction::Create(t) => fuel_core_types::fuel_tx::field::Outputs::outputs(t).clone(),
                fuel_core_types::fuel_tx::Transaction::Blob(t) => fuel_core_types::fuel_tx::field::Outputs::outputs(t).clone(),
                fuel_core_types::fuel_tx::Transaction::Upload(t) => fuel_core_types::fuel_tx::field::Outputs::outputs(t).clone(),
                fuel_core_types::fuel_tx::Transaction::Upgrade(t) => fuel_core_types::fuel_tx::field::Outputs::outputs(t).clone(),
                fuel_core_types::fuel_tx::Transaction::Mint(_) => vec![],
            };
            for (oi, o) in outputs.iter().enumerate() {
                if let Output::Coin { to, amount, asset_id } = o {
                    self.add_coin(Utxo { id: UtxoId::new(id, oi as u16), owner: *to, amount: *amount, asset: *asset_id, ptr: TxPointer::new(height, ti as u16) });
                }
            }
        }
    }

    pub fn digest(&self, out: &mut Vec<u8>) {
        // the spendable list decides which coins future blocks reference
        for u in &self.unspent {
            out.extend_from_slice(u.id.tx_id().as_ref());
            out.extend_from_slice(&u.id.output_index().to_le_bytes());
        }
    }
}

impl StorageInspect<Coins> for ModelChain {
    type Error = StorageError;
    fn get(&self, key: &UtxoId) -> Result<Option<Cow<'_, CompressedCoin>>, StorageError> {
        Ok(self.coins.get(key).map(Cow::Borrowed))
    }
    fn contains_key(&self, key: &UtxoId) -> Result<bool, StorageError> {
        Ok(self.coins.contains_key(key))
    }
}

impl StorageInspect<Messages> for ModelChain {
    type Error = StorageError;
    fn get(&self, key: &Nonce) -> Result<Option<Cow<'_, Message>>, StorageError> {
        Ok(self.messages.get(key).map(Cow::Borrowed))
    }
    fn contains_key(&self, key: &Nonce) -> Result<bool, StorageError> {
        Ok(self.messages.contains_key(key))
    }
}

impl StorageInspect<FuelBlocks> for ModelChain {
    type Error = StorageError;
    fn get(&self, key: &BlockHeight) -> Result<Option<Cow<'_, CompressedBlock>>, StorageError> {
        Ok(self.blocks.get(key).map(Cow::Borrowed))
    }
    fn contains_key(&self, key: &BlockHeight) -> Result<bool, StorageError> {
        Ok(self.blocks.contains_key(key))
    }
}
