//! C43 — block aggregator: (a) fuel block -> protobuf -> fuel block preserves
//! block, transactions and receipts; (b) `StorageDB::store_block` only accepts
//! contiguous heights.
mod gen;

use fuel_core_block_aggregator_api::{
    blocks::old_block_source::{
        convertor_adapter::{
            fuel_to_proto_conversions::proto_tx_from_tx,
            proto_to_fuel_conversions::{fuel_block_from_protobuf, tx_from_proto_tx},
            ProtobufBlockConverter,
        },
        BlockConverter,
    },
    db::{storage_db::StorageDB, table::Column, BlocksStorage},
    protobuf_types::Block as ProtoBlock,
};
use fuel_core_storage::{
    kv_store::{KeyValueInspect, Value},
    structured_storage::test::InMemoryStorage,
    transactional::{Changes, Modifiable},
    Result as StorageResult,
};
use fuel_core_types::{
    blockchain::block::Block,
    fuel_tx::{Receipt, Transaction},
};
use futures::FutureExt;
use gen::{build_case, factor_table, Factor};
use mcx::*;
use prost::Message;
use serde::{Deserialize, Serialize};
use serde_json::{json, Value as Json};
use std::{
    collections::BTreeMap,
    sync::{Arc, Mutex},
};

fn main() {
    let cli = Cli::parse();
    match cli.property.as_str() {
        "C43" => c43(&cli),
        other => machinery_failure(&format!("vh-aggr does not serve {other}")),
    }
}

// ---------------------------------------------------------------------------
// (a) conversions
// ---------------------------------------------------------------------------

fn json_diff(a: &Json, b: &Json, path: &mut Vec<String>) -> Option<(String, String, String)> {
    use serde_json::Value::*;
    match (a, b) {
        (Object(x), Object(y)) => {
            for (k, v) in x {
                match y.get(k) {
                    Some(w) => {
                        path.push(k.clone());
                        if let Some(d) = json_diff(v, w, path) {
                            return Some(d);
                        }
                        path.pop();
                    }
                    None => return Some((format!("{}.{k}", path.join(".")), short(v), "<absent>".into())),
                }
            }
            for k in y.keys() {
                if !x.contains_key(k) {
                    return Some((format!("{}.{k}", path.join(".")), "<absent>".into(), short(&y[k])));
                }
            }
            None
        }
        (Array(x), Array(y)) if x.len() == y.len() && !x.iter().all(|v| v.is_number()) => {
            for (i, (v, w)) in x.iter().zip(y).enumerate() {
                path.push(format!("[{i}]"));
                if let Some(d) = json_diff(v, w, path) {
                    return Some(d);
                }
                path.pop();
            }
            None
        }
        _ if a == b => None,
        _ => Some((path.join("."), short(a), short(b))),
    }
}

fn short(v: &Json) -> String {
    let s = v.to_string();
    if s.len() > 140 {
        format!("{}...({} chars)", &s[..140], s.len())
    } else {
        s
    }
}

/// Path without array indices and without the enum-variant wrapper names.
fn class_of(path: &str) -> String {
    path.split('.').filter(|p| !p.starts_with('[') && !p.is_empty()).collect::<Vec<_>>().join(".")
}

fn tx_kind(tx: &Transaction) -> &'static str {
    match tx {
        Transaction::Script(_) => "Script",
        Transaction::Create(_) => "Create",
        Transaction::Mint(_) => "Mint",
        Transaction::Upgrade(_) => "Upgrade",
        Transaction::Upload(_) => "Upload",
        Transaction::Blob(_) => "Blob",
    }
}

fn receipt_kind(r: &Receipt) -> String {
    let j = json!(r);
    j.as_object().and_then(|o| o.keys().next().cloned()).unwrap_or_else(|| format!("{r:?}").split([' ', '{', '(']).next().unwrap_or("?").to_string())
}

fn tx_diff(kind: &str, want: &Transaction, got: &Transaction) -> Violation {
    let (p, a, b) = json_diff(&json!(want), &json!(got), &mut vec![]).unwrap_or(("?".into(), "?".into(), "?".into()));
    // drop the leading enum variant name ("Script.body.x" -> "body.x")
    let cls = class_of(&p);
    let cls = cls.strip_prefix(&format!("{kind}.")).unwrap_or(&cls).to_string();
    viol(format!("roundtrip:{kind}:{cls}"), format!("{kind} transaction field {p}: original {a}, after the round trip {b}"))
}

/// The oracle for one block: convert, encode, decode, convert back, compare.
fn check_roundtrip(block: &Block, receipts: &[Vec<Receipt>]) -> Result<(), Violation> {
    // (1) the transaction seam on its own
    for tx in block.transactions() {
        let kind = tx_kind(tx);
        let proto = proto_tx_from_tx(tx);
        let back = tx_from_proto_tx(&proto).map_err(|e| viol(format!("convert-error:{kind}"), format!("tx_from_proto_tx failed on the output of proto_tx_from_tx: {e}")))?;
        if &back != tx {
            return Err(tx_diff(kind, tx, &back));
        }
    }
    // (2) the whole block as the service does it: convert, protobuf-encode, decode, convert back
    let bytes = ProtobufBlockConverter.convert_block(block, receipts).map_err(|e| viol("convert-error:block", format!("convert_block failed: {e}")))?;
    let proto = ProtoBlock::decode(&*bytes).map_err(|e| viol("convert-error:decode", format!("protobuf decode of the encoded block failed: {e}")))?;
    let (block2, receipts2) = fuel_block_from_protobuf(proto).map_err(|e| viol("convert-error:from-proto", format!("fuel_block_from_protobuf failed on a block produced by convert_block: {e}")))?;
    if block.header() != block2.header() || block.id() != block2.id() {
        let (p, a, b) = json_diff(&json!(block.header()), &json!(block2.header()), &mut vec![]).unwrap_or(("?".into(), "?".into(), "?".into()));
        return Err(viol(format!("roundtrip:header:{}", class_of(&p)), format!("header field {p}: original {a}, after the round trip {b}")));
    }
    if block.transactions().len() != block2.transactions().len() {
        return Err(viol("roundtrip:tx-count", format!("{} transactions became {}", block.transactions().len(), block2.transactions().len())));
    }
    for (a, b) in block.transactions().iter().zip(block2.transactions()) {
        if a != b {
            return Err(tx_diff(tx_kind(a), a, b));
        }
    }
    if &block2 != block {
        return Err(viol("roundtrip:block-other", "block differs after the round trip although header and transactions are equal"));
    }
    if receipts.len() != receipts2.len() {
        return Err(viol("roundtrip:receipt-list-count", format!("{} receipt lists became {}", receipts.len(), receipts2.len())));
    }
    for (ra, rb) in receipts.iter().zip(&receipts2) {
        if ra.len() != rb.len() {
            return Err(viol("roundtrip:receipt-count", format!("{} receipts became {}", ra.len(), rb.len())));
        }
        for (a, b) in ra.iter().zip(rb) {
            if a != b {
                let kind = receipt_kind(a);
                let (p, x, y) = json_diff(&json!(a), &json!(b), &mut vec![]).unwrap_or(("?".into(), "?".into(), "?".into()));
                let cls = class_of(&p);
                let cls = cls.strip_prefix(&format!("{kind}.")).unwrap_or(&cls).to_string();
                let extra = match a {
                    Receipt::Panic { reason, .. } if cls.starts_with("reason") => format!(":{:?}", reason.reason()),
                    _ => String::new(),
                };
                return Err(viol(format!("roundtrip:receipt:{kind}:{cls}{extra}"), format!("{kind} receipt field {p}: original {x}, after the round trip {y}")));
            }
            // fuel-tx's `PartialEq` for receipts ignores the raw `data` and the panic
            // `contract_id` (the digest stands in for the data); the round trip has to
            // keep them all the same
            if a.data() != b.data() {
                return Err(viol(format!("roundtrip:receipt:{}:data", receipt_kind(a)), format!("{} receipt data: original {:?}, after the round trip {:?}", receipt_kind(a), a.data(), b.data())));
            }
            if let (Receipt::Panic { contract_id: x, .. }, Receipt::Panic { contract_id: y, .. }) = (a, b) {
                if x != y {
                    return Err(viol("roundtrip:receipt:Panic:contract_id", format!("Panic receipt contract_id: original {x:?}, after the round trip {y:?}")));
                }
            }
        }
    }
    Ok(())
}

fn eval_case(factors: &[Factor], levels: &[u8]) -> Result<(), Violation> {
    match guarded(|| {
        let (block, receipts) = build_case(factors, levels);
        check_roundtrip(&block, &receipts)
    }) {
        Ok(r) => r,
        Err(p) => Err(viol("panic", format!("conversion panicked: {p}"))),
    }
}

fn describe(factors: &[Factor], levels: &[u8]) -> Json {
    let mut m = serde_json::Map::new();
    for (f, l) in factors.iter().zip(levels) {
        m.insert(f.name.to_string(), json!((f.describe)(*l)));
    }
    json!({"levels": levels, "factors": m})
}

/// Smallest failing case per signature, then greedily simplified (factor by
/// factor towards its level 0) while the same signature keeps failing.
struct Worst(Mutex<BTreeMap<String, (Vec<u8>, Violation)>>);

impl Worst {
    fn offer(&self, levels: &[u8], v: Violation) {
        let mut g = self.0.lock().unwrap();
        match g.get(&v.sig) {
            Some((old, _)) if weight(old) <= weight(levels) => {}
            _ => {
                g.insert(v.sig.clone(), (levels.to_vec(), v));
            }
        }
    }
}

fn weight(l: &[u8]) -> (usize, Vec<u8>) {
    (l.iter().filter(|x| **x != 0).count(), l.to_vec())
}

fn minimise(factors: &[Factor], mut levels: Vec<u8>, sig: &str) -> (Vec<u8>, Violation) {
    let mut v = eval_case(factors, &levels).expect_err("recorded case fails");
    loop {
        let mut changed = false;
        for f in 0..levels.len() {
            if levels[f] == 0 {
                continue;
            }
            let mut t = levels.clone();
            t[f] = 0;
            if let Err(v2) = eval_case(factors, &t) {
                if v2.sig == sig {
                    levels = t;
                    v = v2;
                    changed = true;
                }
            }
        }
        if !changed {
            return (levels, v);
        }
    }
}

fn run_case(factors: &[Factor], levels: &[u8], sw: &mut Sweep, worst: &Worst) {
    let r = eval_case(factors, levels);
    let nontrivial = if levels[gen::F_NTX] > 0 { Some(hash_of(&levels)) } else { None };
    match r {
        Ok(()) => sw.case(nontrivial, "roundtrip-ok", || describe(factors, levels), Ok(())),
        Err(v) => {
            let class = format!("MISMATCH {}", v.sig);
            worst.offer(levels, v);
            sw.case(nontrivial, &class, || describe(factors, levels), Ok(()));
        }
    }
}

/// All pairs of (factor, level) choices, each on top of every base case.
fn pairwise_cases(factors: &[Factor], bases: &[Vec<u8>]) -> Vec<Vec<u8>> {
    let mut out = vec![];
    for base in bases {
        out.push(base.clone());
        for i in 0..factors.len() {
            for j in (i + 1)..factors.len() {
                for a in 0..factors[i].levels {
                    for b in 0..factors[j].levels {
                        let mut l = base.clone();
                        l[i] = a;
                        l[j] = b;
                        out.push(l);
                    }
                }
            }
        }
    }
    out
}

fn conversions(cli: &Cli, run: &mut Run) -> Vec<FoundViolation> {
    let factors = factor_table();
    let bases = gen::bases(&factors);
    let worst = Worst(Mutex::new(BTreeMap::new()));
    let n_levels: usize = factors.iter().map(|f| f.levels as usize).sum();

    // sweep 1: pairwise-exhaustive
    let cases = pairwise_cases(&factors, &bases);
    let sw = par_sweep(
        "conversions/pairwise",
        &format!(
            "every pair of (factor, level) choices over {} factors / {} levels (transaction kind, two input kinds, two output kinds, two receipt kinds for the first and two for the second transaction, all 64 policy subsets, numeric edge class {{distinct,0,1,MAX}}, byte-string length {{0,1,33}}, witness count, 32-byte id class, optional fields, storage slots, proof set, every PanicReason, script result, header edge class, number of transactions), each on top of {} base cases; oracle: block, transactions and receipts equal after convert_block -> protobuf bytes -> decode -> fuel_block_from_protobuf, and per transaction proto_tx_from_tx -> tx_from_proto_tx; non-trivial = the block carries at least one subject transaction; distinct by level vector",
            factors.len(),
            n_levels,
            bases.len()
        ),
        cases.len(),
        cli.threads,
        |i, sw| run_case(&factors, &cases[i], sw, &worst),
    );
    run.add_sweep(sw);

    // sweep 2: full product over the variant factors
    let core: Vec<usize> = if cli.tier == Tier::Thorough {
        vec![gen::F_TX, gen::F_IN1, gen::F_IN2, gen::F_OUT1, gen::F_OUT2, gen::F_RC1, gen::F_RC2, gen::F_NUM]
    } else {
        vec![gen::F_TX, gen::F_IN1, gen::F_OUT1, gen::F_RC1, gen::F_NUM, gen::F_LEN]
    };
    let sizes: Vec<usize> = core.iter().map(|f| factors[*f].levels as usize).collect();
    let total: usize = sizes.iter().product();
    let chunk = 4096usize;
    let base = bases[0].clone();
    let sw2 = par_sweep(
        "conversions/product",
        &format!("full cartesian product over the factors {:?} ({} cases) on top of the rich base case; same oracle", core.iter().map(|f| factors[*f].name).collect::<Vec<_>>(), total),
        total.div_ceil(chunk),
        cli.threads,
        |ci, sw| {
            for idx in (ci * chunk)..((ci + 1) * chunk).min(total) {
                let mut l = base.clone();
                let mut r = idx;
                for (k, f) in core.iter().enumerate() {
                    l[*f] = (r % sizes[k]) as u8;
                    r /= sizes[k];
                }
                run_case(&factors, &l, sw, &worst);
            }
        },
    );
    run.add_sweep(sw2);

    // sweep 3: two transactions, every combination of their receipt lists
    let rc: Vec<usize> = vec![gen::F_RC1, gen::F_RC2, gen::F_RC3, gen::F_RC4, gen::F_OPT];
    let rsizes: Vec<usize> = rc.iter().map(|f| factors[*f].levels as usize).collect();
    let rtotal: usize = rsizes.iter().product();
    let mut base2 = bases[0].clone();
    base2[gen::F_NTX] = 2;
    let sw3 = par_sweep(
        "conversions/two-tx-receipts",
        &format!("blocks with two subject transactions: full cartesian product of the two receipt kinds of the first and of the second transaction and None/Some optional data ({rtotal} cases) on the rich base; the header (message receipt count, outbox root, block id) must be rebuilt from the per-transaction revert rule; same oracle"),
        rtotal.div_ceil(chunk),
        cli.threads,
        |ci, sw| {
            for idx in (ci * chunk)..((ci + 1) * chunk).min(rtotal) {
                let mut l = base2.clone();
                let mut r = idx;
                for (k, f) in rc.iter().enumerate() {
                    l[*f] = (r % rsizes[k]) as u8;
                    r /= rsizes[k];
                }
                run_case(&factors, &l, sw, &worst);
            }
        },
    );
    run.add_sweep(sw3);

    let mut found = vec![];
    for (sig, (levels, _)) in worst.0.into_inner().unwrap() {
        let (min_levels, v) = minimise(&factors, levels, &sig);
        // confirm twice
        let again = eval_case(&factors, &min_levels);
        let ok = matches!(&again, Err(a) if a.sig == v.sig && a.msg == v.msg);
        if !ok {
            machinery_failure(&format!("conversion violation {sig} does not reproduce"));
        }
        found.push(FoundViolation { subject: "conversions".into(), sig: v.sig, msg: v.msg, history: describe(&factors, &min_levels), confirmed_by_second_replay: true });
    }
    found
}

// ---------------------------------------------------------------------------
// (b) store_block
// ---------------------------------------------------------------------------

#[derive(Clone, Default)]
struct Shared(Arc<Mutex<InMemoryStorage<Column>>>);

impl KeyValueInspect for Shared {
    type Column = Column;
    fn get(&self, key: &[u8], column: Column) -> StorageResult<Option<Value>> {
        self.0.lock().unwrap().get(key, column)
    }
}

impl Modifiable for Shared {
    fn commit_changes(&mut self, changes: Changes) -> StorageResult<()> {
        self.0.lock().unwrap().commit_changes(changes)
    }
}

impl Shared {
    fn rows(&self) -> Vec<((u32, Vec<u8>), Vec<u8>)> {
        let g = self.0.lock().unwrap();
        let mut v: Vec<_> = g.storage().iter().map(|(k, v)| (k.clone(), v.to_vec())).collect();
        v.sort();
        v
    }
}

struct StoreWorld {
    db: StorageDB<Shared>,
    handle: Shared,
    current: Option<u32>,
    blocks: BTreeMap<u32, Vec<u8>>,
}

#[derive(Clone, Debug, Serialize, Deserialize)]
enum StoreOp {
    Store { height: u32, payload: u8 },
}

struct StoreSubject {
    name: String,
    heights: Vec<u32>,
}

fn payload(height: u32, p: u8) -> Arc<[u8]> {
    // what the aggregator really stores: a protobuf-encoded block of that height
    let (block, receipts) = gen::simple_block(height, p);
    ProtobufBlockConverter.convert_block(&block, &receipts).expect("convert")
}

impl Subject for StoreSubject {
    type World = StoreWorld;
    type Op = StoreOp;
    fn name(&self) -> String {
        self.name.clone()
    }
    fn fresh(&self) -> StoreWorld {
        let handle = Shared::default();
        StoreWorld { db: StorageDB::new(handle.clone()), handle, current: None, blocks: BTreeMap::new() }
    }
    fn clone_world(&self, w: &StoreWorld) -> Option<StoreWorld> {
        let copy = Shared(Arc::new(Mutex::new(w.handle.0.lock().unwrap().clone())));
        Some(StoreWorld { db: StorageDB::new(copy.clone()), handle: copy, current: w.current, blocks: w.blocks.clone() })
    }
    fn enabled(&self, _w: &StoreWorld) -> Vec<StoreOp> {
        let mut v = vec![];
        for &h in &self.heights {
            for p in 0..2u8 {
                v.push(StoreOp::Store { height: h, payload: p });
            }
        }
        v
    }
    fn step(&self, w: &mut StoreWorld, op: &StoreOp) -> Result<String, Violation> {
        let StoreOp::Store { height, payload: p } = op;
        let bytes = payload(*height, *p);
        // contiguous: the first block may have any height; afterwards only current+1
        let contiguous = match w.current {
            None => true,
            Some(c) => c.checked_add(1) == Some(*height),
        };
        let r = w.db.store_block((*height).into(), &bytes).now_or_never().expect("store_block resolves instantly");
        let obs = match (&r, contiguous) {
            (Ok(()), true) => {
                w.current = Some(*height);
                w.blocks.insert(*height, bytes.to_vec());
                "accepted"
            }
            (Err(_), false) => "rejected",
            (Ok(()), false) => {
                let tail = if w.current == Some(u32::MAX) { ":after-u32-max" } else { "" };
                return Err(viol(
                    format!("store:accepted-noncontiguous{tail}"),
                    format!("store_block({height}) was accepted while the current height is {:?}; only {:?} is contiguous", w.current, w.current.and_then(|c| c.checked_add(1))),
                ));
            }
            (Err(e), true) => {
                return Err(viol("store:rejected-contiguous", format!("store_block({height}) was rejected ({e}) while the current height is {:?}", w.current)));
            }
        };
        // state: reported height and stored blocks are exactly the accepted ones
        let cur = w.db.get_current_height().map_err(|e| viol("store:height-read-error", format!("{e}")))?.map(u32::from);
        if cur != w.current {
            return Err(viol("store:current-height", format!("after {op:?} ({obs}) get_current_height() = {cur:?}, expected {:?}", w.current)));
        }
        let mut stored: BTreeMap<u32, Vec<u8>> = BTreeMap::new();
        for ((col, k), v) in w.handle.rows() {
            if col == Column::Blocks.as_u32() {
                stored.insert(u32::from_be_bytes(k.as_slice().try_into().map_err(|_| viol("store:key-format", "block key is not 4 bytes"))?), v);
            }
        }
        if stored != w.blocks {
            return Err(viol(
                "store:blocks-table",
                format!("after {op:?} ({obs}) the block table holds heights {:?}, expected exactly the accepted blocks {:?} with their bytes", stored.keys().collect::<Vec<_>>(), w.blocks.keys().collect::<Vec<_>>()),
            ));
        }
        Ok(obs.to_string())
    }
    fn canon(&self, w: &StoreWorld) -> Vec<u8> {
        let mut out = vec![];
        for ((c, k), v) in w.handle.rows() {
            out.extend_from_slice(&c.to_le_bytes());
            out.extend_from_slice(&(k.len() as u32).to_le_bytes());
            out.extend_from_slice(&k);
            out.extend_from_slice(&(v.len() as u32).to_le_bytes());
            out.extend_from_slice(&v);
        }
        out.extend_from_slice(format!("{:?}", w.current).as_bytes());
        out
    }
    fn interesting(&self, _op: &StoreOp, obs: &str) -> bool {
        obs == "rejected"
    }
    fn required_labels(&self) -> Vec<String> {
        vec!["Store".into()]
    }
}

fn c43(cli: &Cli) {
    let store_subjects = vec![
        StoreSubject { name: "store_block[heights 0..=3]".into(), heights: vec![0, 1, 2, 3] },
        StoreSubject { name: "store_block[heights 0,1,MAX-1,MAX]".into(), heights: vec![0, 1, u32::MAX - 1, u32::MAX] },
    ];
    if let Some(path) = &cli.replay {
        let rf = load_replay(path);
        if rf.subject == "conversions" {
            let factors = factor_table();
            let levels: Vec<u8> = serde_json::from_value(rf.history["levels"].clone()).unwrap_or_else(|e| machinery_failure(&format!("bad replay: {e}")));
            if levels.len() != factors.len() {
                machinery_failure("replay: level vector does not match the factor table");
            }
            println!("replay: case {}", describe(&factors, &levels));
            match eval_case(&factors, &levels) {
                Ok(()) => {
                    println!("replay: round trip preserved the block");
                    std::process::exit(0)
                }
                Err(v) => {
                    println!("replay: {} / {}", v.sig, v.msg);
                    println!("VIOLATION property=C43 replay=(replayed)");
                    std::process::exit(1)
                }
            }
        }
        for s in &store_subjects {
            if s.name() == rf.subject {
                replay_and_exit(s, &rf);
            }
        }
        machinery_failure("replay: unknown subject");
    }
    let mut run = Run::new(cli, "exploration");
    let found = conversions(cli, &mut run);
    for f in found {
        run.extra_violations.push(f);
    }
    let depth = cli.tier.pick(4, 5);
    for s in &store_subjects {
        let r = explore(s, &Bounds::new(depth, cli).wall(cli.tier.pick(20, 300)));
        run.add(r);
    }
    run.assume("blocks are well-formed: header generated fields derive from the transactions and from the message ids of non-reverted receipts (the executor's rule), Create storage slots are sorted, unset policies are zero");
    run.assume("first stored block may have any height (that is what the code and its tests define); afterwards contiguous means current+1, and nothing is contiguous after u32::MAX");
    run.finish();
}
