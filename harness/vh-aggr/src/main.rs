fn main() {
    mcx::machinery_failure("not built yet");
}
