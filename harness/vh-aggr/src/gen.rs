//! Finite, fully listed input space for the conversion round trip: a block is
//! described by a vector of factor levels.
use fuel_core_types::{
    blockchain::{
        block::Block,
        header::{ApplicationHeader, ConsensusHeader, PartialBlockHeader},
        primitives::Empty,
    },
    fuel_asm::{PanicInstruction, PanicReason},
    fuel_tx::{
        input::contract::Contract as InContract,
        output::contract::Contract as OutContract,
        policies::Policies,
        Address, AssetId, BlobBody, BlobId, Bytes32, ContractId, Input, MessageId, Output, Receipt, Salt, ScriptExecutionResult, StorageSlot, Transaction, TxPointer, UpgradePurpose,
        UploadBody, UtxoId, Witness,
    },
    fuel_types::{BlockHeight, Nonce, SubAssetId},
    tai64::Tai64,
};
use std::sync::OnceLock;

pub struct Factor {
    pub name: &'static str,
    pub levels: u8,
    pub describe: fn(u8) -> String,
}

pub const F_TX: usize = 0;
pub const F_IN1: usize = 1;
pub const F_IN2: usize = 2;
pub const F_OUT1: usize = 3;
pub const F_OUT2: usize = 4;
pub const F_RC1: usize = 5;
pub const F_RC2: usize = 6;
pub const F_POL: usize = 7;
pub const F_NUM: usize = 8;
pub const F_LEN: usize = 9;
pub const F_WIT: usize = 10;
pub const F_IDS: usize = 11;
pub const F_OPT: usize = 12;
pub const F_SLOTS: usize = 13;
pub const F_PROOFS: usize = 14;
pub const F_REASON: usize = 15;
pub const F_SER: usize = 16;
pub const F_HDR: usize = 17;
pub const F_NTX: usize = 18;
pub const F_RC3: usize = 19;
pub const F_RC4: usize = 20;

const TX_KINDS: [&str; 7] = ["Script", "Create", "Mint", "Upgrade(ConsensusParameters)", "Upgrade(StateTransition)", "Upload", "Blob"];
const IN_KINDS: [&str; 8] = ["-", "CoinSigned", "CoinPredicate", "Contract", "MessageCoinSigned", "MessageCoinPredicate", "MessageDataSigned", "MessageDataPredicate"];
const OUT_KINDS: [&str; 6] = ["-", "Coin", "Contract", "Change", "Variable", "ContractCreated"];
const RC_KINDS: [&str; 14] = ["-", "Call", "Return", "ReturnData", "Panic", "Revert", "Log", "LogData", "Transfer", "TransferOut", "ScriptResult", "MessageOut", "Mint", "Burn"];
const NUM_CLASSES: [&str; 4] = ["0", "1", "MAX", "distinct"];
const LEN_CLASSES: [&str; 3] = ["0 bytes", "1 byte", "33 bytes"];
const ID_CLASSES: [&str; 3] = ["all-zero", "all-0xff", "distinct"];
const SER: [&str; 4] = ["Success", "Revert", "Panic", "GenericFailure(n)"];

/// Every `PanicReason` variant of fuel-asm (the byte -> reason map is total;
/// unassigned bytes give `UnknownPanicReason`, which is the first entry).
pub fn reasons() -> &'static Vec<PanicReason> {
    static R: OnceLock<Vec<PanicReason>> = OnceLock::new();
    R.get_or_init(|| {
        let mut v: Vec<PanicReason> = vec![];
        for b in 0..=255u8 {
            let r = PanicReason::from(b);
            if !v.contains(&r) {
                v.push(r);
            }
        }
        v
    })
}

pub fn factor_table() -> Vec<Factor> {
    vec![
        Factor { name: "tx", levels: 7, describe: |l| TX_KINDS[l as usize].into() },
        Factor { name: "input1", levels: 8, describe: |l| IN_KINDS[l as usize].into() },
        Factor { name: "input2", levels: 8, describe: |l| IN_KINDS[l as usize].into() },
        Factor { name: "output1", levels: 6, describe: |l| OUT_KINDS[l as usize].into() },
        Factor { name: "output2", levels: 6, describe: |l| OUT_KINDS[l as usize].into() },
        Factor { name: "receipt1", levels: 14, describe: |l| RC_KINDS[l as usize].into() },
        Factor { name: "receipt2", levels: 14, describe: |l| RC_KINDS[l as usize].into() },
        Factor {
            name: "policies",
            levels: 64,
            describe: |l| {
                let names = ["Tip", "WitnessLimit", "Maturity", "MaxFee", "Expiration", "Owner"];
                let v: Vec<&str> = names.iter().enumerate().filter(|(i, _)| l & (1 << i) != 0).map(|(_, n)| *n).collect();
                format!("{{{}}}", v.join(","))
            },
        },
        Factor { name: "numbers", levels: 4, describe: |l| NUM_CLASSES[l as usize].into() },
        Factor { name: "byte_strings", levels: 3, describe: |l| LEN_CLASSES[l as usize].into() },
        Factor { name: "witnesses", levels: 3, describe: |l| format!("{l}") },
        Factor { name: "ids32", levels: 3, describe: |l| ID_CLASSES[l as usize].into() },
        Factor { name: "optional_fields", levels: 2, describe: |l| if l == 0 { "None".into() } else { "Some".into() } },
        Factor { name: "storage_slots", levels: 3, describe: |l| format!("{l}") },
        Factor { name: "proof_set", levels: 3, describe: |l| format!("{l}") },
        Factor { name: "panic_reason", levels: reasons().len() as u8, describe: |l| format!("{:?}", reasons()[l as usize]) },
        Factor { name: "script_result", levels: 4, describe: |l| SER[l as usize].into() },
        Factor { name: "header", levels: 4, describe: |l| NUM_CLASSES[l as usize].into() },
        Factor { name: "subject_txs", levels: 3, describe: |l| format!("{l}") },
        // receipts of the SECOND subject transaction (the first one uses receipt1/receipt2)
        Factor { name: "tx2_receipt1", levels: 14, describe: |l| RC_KINDS[l as usize].into() },
        Factor { name: "tx2_receipt2", levels: 14, describe: |l| RC_KINDS[l as usize].into() },
    ]
}

/// Base cases the pairs are laid over: a rich one and the empty one.
pub fn bases(f: &[Factor]) -> Vec<Vec<u8>> {
    let mut rich = vec![0u8; f.len()];
    rich[F_TX] = 0;
    rich[F_IN1] = 1;
    rich[F_IN2] = 2;
    rich[F_OUT1] = 1;
    rich[F_OUT2] = 3;
    rich[F_RC1] = 1;
    rich[F_RC2] = 7;
    rich[F_POL] = 63;
    rich[F_NUM] = 3;
    rich[F_LEN] = 2;
    rich[F_WIT] = 2;
    rich[F_IDS] = 2;
    rich[F_OPT] = 1;
    rich[F_SLOTS] = 2;
    rich[F_PROOFS] = 2;
    rich[F_REASON] = 1;
    rich[F_SER] = 3;
    rich[F_HDR] = 3;
    rich[F_NTX] = 2;
    rich[F_RC3] = 11;
    rich[F_RC4] = 2;
    let mut empty = vec![0u8; f.len()];
    empty[F_NTX] = 1;
    vec![rich, empty]
}

struct Gen {
    num: u8,
    len: u8,
    ids: u8,
    opt: u8,
    ctr: u64,
}

impl Gen {
    fn tick(&mut self) -> u64 {
        self.ctr = self.ctr % 250 + 1;
        self.ctr
    }
    fn u64(&mut self) -> u64 {
        match self.num {
            0 => 0,
            1 => 1,
            2 => u64::MAX,
            _ => {
                let c = self.tick();
                (c << 56) | (c << 40) | (c << 24) | (c << 8) | 5
            }
        }
    }
    fn u32(&mut self) -> u32 {
        match self.num {
            0 => 0,
            1 => 1,
            2 => u32::MAX,
            _ => {
                let c = self.tick() as u32;
                (c << 24) | (c << 8) | 3
            }
        }
    }
    fn u16(&mut self) -> u16 {
        match self.num {
            0 => 0,
            1 => 1,
            2 => u16::MAX,
            _ => ((self.tick() as u16) << 8) | 1,
        }
    }
    fn bytes(&mut self) -> Vec<u8> {
        let n = [0usize, 1, 33][self.len as usize];
        let c = self.tick() as u8;
        (0..n).map(|i| c.wrapping_add(i as u8)).collect()
    }
    fn id(&mut self) -> [u8; 32] {
        match self.ids {
            0 => [0u8; 32],
            1 => [0xFFu8; 32],
            _ => {
                let c = self.tick() as u8;
                let mut b = [c; 32];
                b[0] = 0x1D;
                b[31] = c.wrapping_add(1);
                b
            }
        }
    }
    fn b32(&mut self) -> Bytes32 {
        self.id().into()
    }
    fn addr(&mut self) -> Address {
        self.id().into()
    }
    fn asset(&mut self) -> AssetId {
        self.id().into()
    }
    fn contract(&mut self) -> ContractId {
        self.id().into()
    }
    fn utxo(&mut self) -> UtxoId {
        let t = self.b32();
        UtxoId::new(t, self.u16())
    }
    fn ptr(&mut self) -> TxPointer {
        let h = self.u32();
        TxPointer::new(BlockHeight::from(h), self.u16())
    }
    fn data_opt(&mut self) -> Option<Vec<u8>> {
        if self.opt == 0 {
            None
        } else {
            Some(self.bytes())
        }
    }
    fn in_contract(&mut self) -> InContract {
        InContract { utxo_id: self.utxo(), balance_root: self.b32(), state_root: self.b32(), tx_pointer: self.ptr(), contract_id: self.contract() }
    }
    fn out_contract(&mut self) -> OutContract {
        OutContract { input_index: self.u16(), balance_root: self.b32(), state_root: self.b32() }
    }

    fn input(&mut self, kind: u8) -> Option<Input> {
        Some(match kind {
            0 => return None,
            1 => Input::coin_signed(self.utxo(), self.addr(), self.u64(), self.asset(), self.ptr(), self.u16()),
            2 => Input::coin_predicate(self.utxo(), self.addr(), self.u64(), self.asset(), self.ptr(), self.u64(), self.bytes(), self.bytes()),
            3 => Input::Contract(self.in_contract()),
            4 => Input::message_coin_signed(self.addr(), self.addr(), self.u64(), Nonce::from(self.id()), self.u16()),
            5 => Input::message_coin_predicate(self.addr(), self.addr(), self.u64(), Nonce::from(self.id()), self.u64(), self.bytes(), self.bytes()),
            6 => Input::message_data_signed(self.addr(), self.addr(), self.u64(), Nonce::from(self.id()), self.u16(), self.bytes()),
            _ => Input::message_data_predicate(self.addr(), self.addr(), self.u64(), Nonce::from(self.id()), self.u64(), self.bytes(), self.bytes(), self.bytes()),
        })
    }

    fn output(&mut self, kind: u8) -> Option<Output> {
        Some(match kind {
            0 => return None,
            1 => Output::coin(self.addr(), self.u64(), self.asset()),
            2 => Output::Contract(self.out_contract()),
            3 => Output::change(self.addr(), self.u64(), self.asset()),
            4 => Output::variable(self.addr(), self.u64(), self.asset()),
            _ => Output::contract_created(self.contract(), self.b32()),
        })
    }

    fn receipt(&mut self, kind: u8, reason: PanicReason, ser: u8) -> Option<Receipt> {
        Some(match kind {
            0 => return None,
            1 => Receipt::call(self.contract(), self.contract(), self.u64(), self.asset(), self.u64(), self.u64(), self.u64(), self.u64(), self.u64()),
            2 => Receipt::ret(self.contract(), self.u64(), self.u64(), self.u64()),
            3 => Receipt::return_data_with_len(self.contract(), self.u64(), self.u64(), self.b32(), self.u64(), self.u64(), self.data_opt()),
            4 => {
                let c = if self.opt == 0 { None } else { Some(self.contract()) };
                Receipt::panic(self.contract(), PanicInstruction::error(reason, self.u32()), self.u64(), self.u64()).with_panic_contract_id(c)
            }
            5 => Receipt::revert(self.contract(), self.u64(), self.u64(), self.u64()),
            6 => Receipt::log(self.contract(), self.u64(), self.u64(), self.u64(), self.u64(), self.u64(), self.u64()),
            7 => Receipt::log_data_with_len(self.contract(), self.u64(), self.u64(), self.u64(), self.u64(), self.b32(), self.u64(), self.u64(), self.data_opt()),
            8 => Receipt::transfer(self.contract(), self.contract(), self.u64(), self.asset(), self.u64(), self.u64()),
            9 => Receipt::transfer_out(self.contract(), self.addr(), self.u64(), self.asset(), self.u64(), self.u64()),
            10 => {
                let r = match ser {
                    0 => ScriptExecutionResult::Success,
                    1 => ScriptExecutionResult::Revert,
                    2 => ScriptExecutionResult::Panic,
                    _ => ScriptExecutionResult::GenericFailure(self.u64()),
                };
                Receipt::script_result(r, self.u64())
            }
            11 => Receipt::message_out_with_len(self.addr(), self.addr(), self.u64(), Nonce::from(self.id()), self.u64(), self.b32(), self.data_opt()),
            12 => Receipt::mint(SubAssetId::from(self.id()), self.contract(), self.u64(), self.u64(), self.u64()),
            _ => Receipt::burn(SubAssetId::from(self.id()), self.contract(), self.u64(), self.u64(), self.u64()),
        })
    }

    fn policies(&mut self, mask: u8) -> Policies {
        let mut p = Policies::new();
        if mask & 1 != 0 {
            p = p.with_tip(self.u64());
        }
        if mask & 2 != 0 {
            p = p.with_witness_limit(self.u64());
        }
        if mask & 4 != 0 {
            p = p.with_maturity(BlockHeight::from(self.u32()));
        }
        if mask & 8 != 0 {
            p = p.with_max_fee(self.u64());
        }
        if mask & 16 != 0 {
            p = p.with_expiration(BlockHeight::from(self.u32()));
        }
        if mask & 32 != 0 {
            p = p.with_owner(self.u64());
        }
        p
    }

    fn mint(&mut self) -> Transaction {
        Transaction::mint(self.ptr(), self.in_contract(), self.out_contract(), self.u64(), self.asset(), self.u64()).into()
    }
}

fn subject_tx(g: &mut Gen, l: &[u8]) -> Transaction {
    let inputs: Vec<Input> = [l[F_IN1], l[F_IN2]].into_iter().filter_map(|k| g.input(k)).collect();
    let outputs: Vec<Output> = [l[F_OUT1], l[F_OUT2]].into_iter().filter_map(|k| g.output(k)).collect();
    let witnesses: Vec<Witness> = (0..l[F_WIT]).map(|_| Witness::from(g.bytes())).collect();
    let policies = g.policies(l[F_POL]);
    match l[F_TX] {
        0 => {
            let mut tx = Transaction::script(g.u64(), g.bytes(), g.bytes(), policies, inputs, outputs, witnesses);
            *fuel_core_types::fuel_tx::field::ReceiptsRoot::receipts_root_mut(&mut tx) = g.b32();
            tx.into()
        }
        1 => {
            let mut slots: Vec<StorageSlot> = (0..l[F_SLOTS]).map(|_| StorageSlot::new(g.b32(), g.b32())).collect();
            slots.sort();
            Transaction::create(g.u16(), policies, Salt::from(g.id()), slots, inputs, outputs, witnesses).into()
        }
        2 => g.mint(),
        3 => Transaction::upgrade(UpgradePurpose::ConsensusParameters { witness_index: g.u16(), checksum: g.b32() }, policies, inputs, outputs, witnesses).into(),
        4 => Transaction::upgrade(UpgradePurpose::StateTransition { root: g.b32() }, policies, inputs, outputs, witnesses).into(),
        5 => {
            let body = UploadBody { root: g.b32(), witness_index: g.u16(), subsection_index: g.u16(), subsections_number: g.u16(), proof_set: (0..l[F_PROOFS]).map(|_| g.b32()).collect() };
            Transaction::upload(body, policies, inputs, outputs, witnesses).into()
        }
        _ => Transaction::blob(BlobBody { id: BlobId::from(g.id()), witness_index: g.u16() }, policies, inputs, outputs, witnesses).into(),
    }
}

/// The executor's rule: message ids of the `MessageOut` receipts of
/// transactions that did not revert or panic.
fn message_ids(receipts: &[Vec<Receipt>]) -> Vec<MessageId> {
    let mut ids = vec![];
    for rs in receipts {
        let reverted = rs.iter().any(|r| matches!(r, Receipt::Revert { .. } | Receipt::Panic { .. }));
        if !reverted {
            ids.extend(rs.iter().filter_map(|r| r.message_id()));
        }
    }
    ids
}

pub fn build_case(_factors: &[Factor], l: &[u8]) -> (Block, Vec<Vec<Receipt>>) {
    let mut g = Gen { num: l[F_NUM], len: l[F_LEN], ids: l[F_IDS], opt: l[F_OPT], ctr: 0 };
    let reason = reasons()[l[F_REASON] as usize];
    let mut txs = vec![];
    let mut receipts = vec![];
    for i in 0..l[F_NTX] {
        txs.push(subject_tx(&mut g, l));
        let kinds = if i == 0 { [l[F_RC1], l[F_RC2]] } else { [l[F_RC3], l[F_RC4]] };
        let rs: Vec<Receipt> = kinds.into_iter().filter_map(|k| g.receipt(k, reason, l[F_SER])).collect();
        receipts.push(rs);
    }
    txs.push(g.mint());
    receipts.push(vec![]);
    // header: its own edge class
    let mut h = Gen { num: l[F_HDR], len: 0, ids: match l[F_HDR] { 0 | 1 => 0, 2 => 1, _ => 2 }, opt: 0, ctr: 100 };
    let header = PartialBlockHeader {
        application: ApplicationHeader { da_height: h.u64().into(), consensus_parameters_version: h.u32(), state_transition_bytecode_version: h.u32(), generated: Empty },
        consensus: ConsensusHeader { prev_root: h.b32(), height: h.u32().into(), time: Tai64(h.u64()), generated: Empty },
    };
    let event_inbox_root = h.b32();
    let block = Block::new(header, txs, &message_ids(&receipts), event_inbox_root).expect("well-formed block");
    (block, receipts)
}

/// Payload blocks for the store_block exploration.
pub fn simple_block(height: u32, p: u8) -> (Block, Vec<Vec<Receipt>>) {
    let mut g = Gen { num: 3, len: 1, ids: 2, opt: 1, ctr: p as u64 * 7 };
    let mut txs = vec![];
    let mut receipts = vec![];
    if p > 0 {
        txs.push(Transaction::script(1, vec![p], vec![], Policies::new(), vec![], vec![], vec![]).into());
        receipts.push(vec![Receipt::ret(g.contract(), 1, 2, 3)]);
    }
    txs.push(g.mint());
    receipts.push(vec![]);
    let header = PartialBlockHeader {
        application: ApplicationHeader { da_height: 1u64.into(), consensus_parameters_version: 0, state_transition_bytecode_version: 0, generated: Empty },
        consensus: ConsensusHeader { prev_root: Bytes32::zeroed(), height: height.into(), time: Tai64(1_000 + height as u64 % 1000), generated: Empty },
    };
    (Block::new(header, txs, &[], Bytes32::zeroed()).expect("block"), receipts)
}
