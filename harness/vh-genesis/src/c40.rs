//! C40: genesis import can be interrupted and resumed without changing the result.
//!
//! Fault/cancellation enumeration over the real `execute_genesis_block` path
//! (`SnapshotImporter` -> `ImportTask::run` with `GenesisMetadata` progress). The
//! guarded fault points in `ImportTask::run` are numbered in execution order; a plan
//! interrupts the import at the n-th point (failure returned from the point, or
//! cancellation signalled through the node's `StateWatcher`), restarts the import on
//! the same databases (optionally interrupting again) and finally lets it complete.

use crate::world::*;
use fuel_core::{
    combined_database::CombinedDatabase,
    service::{
        genesis::verif_hooks::{self, Phase},
        Config,
    },
};
use fuel_core_services::{State, StateWatcher};
use mcx::{load_replay, machinery_failure, par_sweep, viol, Cli, Run, Sweep, Tier, Violation};
use serde::{Deserialize, Serialize};
use serde_json::json;
use std::{
    cell::RefCell,
    collections::{BTreeMap, BTreeSet},
    sync::{Arc, Mutex, Once},
};
use tokio::sync::watch;

#[derive(Clone, Debug, Serialize, Deserialize, PartialEq, Eq, Hash)]
pub struct Scenario {
    pub shape: Shape,
    pub encoding: Encoding,
}

#[derive(Clone, Copy, Debug, Serialize, Deserialize, PartialEq, Eq, Hash, PartialOrd, Ord)]
pub enum Action {
    /// the fault point returns an error (failure while processing the group)
    Fail,
    /// the node is asked to stop (StateWatcher -> Stopping) when the point is reached
    Cancel,
}

#[derive(Clone, Copy, Debug, Serialize, Deserialize, PartialEq, Eq, Hash)]
pub struct Interruption {
    /// index of the fault point in execution order of that run; `None`: stop requested before the run starts
    pub call: Option<usize>,
    pub action: Action,
}

/// Interruption addressed by identity (used when tables are imported in parallel and the
/// global order of fault points is not deterministic).
#[derive(Clone, Debug, Serialize, Deserialize, PartialEq, Eq, Hash)]
pub struct ParInterruption {
    pub migration: String,
    pub group: usize,
    pub phase: String,
    pub action: Action,
}

#[derive(Clone, Debug, Serialize, Deserialize)]
pub struct Plan {
    pub scenario: Scenario,
    pub interruptions: Vec<Interruption>,
    /// non-empty for plans of the parallel-import scenario
    #[serde(default)]
    pub par: Vec<ParInterruption>,
}

type Point = (String, usize, Phase);

#[derive(Default)]
struct Armed {
    next_call: usize,
    target: Option<(usize, Action)>,
    fired: Option<Point>,
    cancel: Option<watch::Sender<State>>,
    commits: Vec<(String, usize)>,
    trace: Vec<Point>,
}

thread_local! {
    static ARMED: RefCell<Option<Armed>> = const { RefCell::new(None) };
}

/// Process-wide armed state for the parallel-import scenario (fault points are hit on
/// tokio's blocking threads there); only used while no sequential sweep is running.
#[derive(Default)]
struct ParArmed {
    target: Option<ParInterruption>,
    fired: Option<Point>,
    cancel: Option<watch::Sender<State>>,
    commits: Vec<(String, usize)>,
}
static PAR: Mutex<Option<ParArmed>> = Mutex::new(None);

fn install_handler() {
    static ONCE: Once = Once::new();
    ONCE.call_once(|| {
        verif_hooks::set_handler(Some(Arc::new(|table: &str, index: usize, phase: Phase| {
            let seq = ARMED.with(|a| a.borrow().is_some());
            if !seq {
                let mut g = PAR.lock().unwrap_or_else(|e| e.into_inner());
                let Some(st) = g.as_mut() else { return Ok(()) };
                if phase == Phase::AfterCommit {
                    st.commits.push((table.to_string(), index));
                }
                let hit = st.fired.is_none() && st.target.as_ref().is_some_and(|t| t.migration == table && t.group == index && t.phase == format!("{phase:?}"));
                if hit {
                    st.fired = Some((table.to_string(), index, phase));
                    match st.target.as_ref().map(|t| t.action) {
                        Some(Action::Fail) => return Err(anyhow::anyhow!("verif: injected failure")),
                        _ => {
                            if let Some(c) = &st.cancel {
                                let _ = c.send(State::Stopping);
                            }
                        }
                    }
                }
                return Ok(());
            }
            ARMED.with(|a| {
                let mut a = a.borrow_mut();
                let Some(st) = a.as_mut() else { return Ok(()) };
                let n = st.next_call;
                st.next_call += 1;
                st.trace.push((table.to_string(), index, phase));
                if phase == Phase::AfterCommit {
                    st.commits.push((table.to_string(), index));
                }
                if let Some((t, act)) = st.target {
                    if t == n {
                        st.fired = Some((table.to_string(), index, phase));
                        match act {
                            Action::Fail => return Err(anyhow::anyhow!("verif: injected failure")),
                            Action::Cancel => {
                                if let Some(c) = &st.cancel {
                                    let _ = c.send(State::Stopping);
                                }
                            }
                        }
                    }
                }
                Ok(())
            })
        })));
    });
}

struct RunOut {
    result: Result<fuel_core_types::services::block_importer::UncommittedResult<fuel_core_storage::transactional::Changes>, String>,
    fired: Option<Point>,
    commits: Vec<(String, usize)>,
    trace: Vec<Point>,
}

/// One start of the node's genesis import on `db`.
fn one_run(rt: &tokio::runtime::Runtime, config: &Config, db: &CombinedDatabase, intr: Option<Interruption>) -> RunOut {
    install_handler();
    let (tx, rx) = watch::channel(State::Started);
    let watcher: StateWatcher = rx.into();
    let mut armed = Armed::default();
    match intr {
        Some(Interruption { call: Some(c), action }) => {
            armed.target = Some((c, action));
            armed.cancel = Some(tx);
        }
        Some(Interruption { call: None, .. }) => {
            let _ = tx.send(State::Stopping);
            armed.cancel = Some(tx);
        }
        None => armed.cancel = Some(tx),
    }
    ARMED.with(|a| *a.borrow_mut() = Some(armed));
    let result = rt.block_on(run_genesis(watcher, config, db)).map_err(|e| format!("{e:#}"));
    let st = ARMED.with(|a| a.borrow_mut().take()).expect("armed state");
    RunOut { result, fired: st.fired, commits: st.commits, trace: st.trace }
}

/// One start of the node's genesis import in the parallel scenario. The run gets its own
/// runtime; dropping it waits for blocking import tasks that outlive a failed
/// `execute_genesis_block` (the process would still be alive for that long).
fn one_run_par(config: &Config, db: &CombinedDatabase, intr: Option<&ParInterruption>) -> RunOut {
    install_handler();
    let (tx, rx) = watch::channel(State::Started);
    let watcher: StateWatcher = rx.into();
    *PAR.lock().unwrap_or_else(|e| e.into_inner()) = Some(ParArmed { target: intr.cloned(), cancel: Some(tx), ..Default::default() });
    let rt = rt();
    let result = rt.block_on(run_genesis(watcher, config, db)).map_err(|e| format!("{e:#}"));
    drop(rt);
    let st = PAR.lock().unwrap_or_else(|e| e.into_inner()).take().expect("armed state");
    RunOut { result, fired: st.fired, commits: st.commits, trace: vec![] }
}

pub struct Final {
    pub pre_on: Dump,
    pub pre_off: Dump,
    pub post_on: Dump,
    pub post_off: Dump,
}

pub struct PlanOut {
    /// per interrupted run: (fired point, error text or "completed", digest of on+off chain state afterwards)
    pub interrupted: Vec<(Option<Point>, String, String)>,
    pub fin: Result<Final, String>,
    pub commits: Vec<(String, usize)>,
    /// fault points passed by the completing run
    pub final_trace: Vec<Point>,
}

fn state_digest(db: &CombinedDatabase) -> String {
    let on = dump_db(db.on_chain()).unwrap_or_else(|e| machinery_failure(&format!("dump: {e}")));
    let off = dump_db(db.off_chain()).unwrap_or_else(|e| machinery_failure(&format!("dump: {e}")));
    format!("{}{}", dump_digest(&on), dump_digest(&off))
}

pub fn run_plan(rt: &tokio::runtime::Runtime, config: &Config, interruptions: &[Interruption]) -> PlanOut {
    run_plan_with(rt, config, interruptions.len(), |db, k| one_run(rt, config, db, k.map(|k| interruptions[k])))
}

pub fn run_plan_par(rt: &tokio::runtime::Runtime, config: &Config, interruptions: &[ParInterruption]) -> PlanOut {
    run_plan_with(rt, config, interruptions.len(), |db, k| one_run_par(config, db, k.map(|k| &interruptions[k])))
}

fn run_plan_with(rt: &tokio::runtime::Runtime, config: &Config, n: usize, run: impl Fn(&CombinedDatabase, Option<usize>) -> RunOut) -> PlanOut {
    let db = CombinedDatabase::in_memory();
    let mut interrupted = vec![];
    let mut commits = vec![];
    let mut completing: Option<RunOut> = None;
    for k in 0..n {
        let out = run(&db, Some(k));
        commits.extend(out.commits.iter().cloned());
        match &out.result {
            Err(e) => interrupted.push((out.fired.clone(), e.clone(), state_digest(&db))),
            Ok(_) => {
                // the interruption came too late to stop this run (or was never reached): the node proceeds
                interrupted.push((out.fired.clone(), "completed".to_string(), state_digest(&db)));
                completing = Some(out);
                break;
            }
        }
    }
    let out = match completing {
        Some(o) => o,
        None => {
            let o = run(&db, None);
            commits.extend(o.commits.iter().cloned());
            o
        }
    };
    let final_trace = out.trace.clone();
    let fin = match out.result {
        Err(e) => Err(e),
        Ok(result) => {
            let d = |r: anyhow::Result<Dump>| r.unwrap_or_else(|e| machinery_failure(&format!("dump: {e}")));
            let pre_on = d(dump_db(db.on_chain()));
            let pre_off = d(dump_db(db.off_chain()));
            match rt.block_on(commit_genesis(config, &db, result)) {
                Err(e) => Err(format!("commit of the genesis block failed: {e:#}")),
                Ok(()) => Ok(Final { pre_on, pre_off, post_on: d(dump_db(db.on_chain())), post_off: d(dump_db(db.off_chain())) }),
            }
        }
    };
    PlanOut { interrupted, fin, commits, final_trace }
}

pub struct Baseline {
    pub fin: Final,
    pub commits: BTreeSet<(String, usize)>,
    pub trace: Vec<Point>,
}

pub struct Prepared {
    pub scenario: Scenario,
    pub config: Config,
    pub baseline: Baseline,
    _dir: tempfile::TempDir,
}

pub fn prepare(rt: &tokio::runtime::Runtime, scenario: &Scenario) -> Prepared {
    prepare_mode(rt, scenario, false)
}

pub fn prepare_mode(rt: &tokio::runtime::Runtime, scenario: &Scenario, parallel: bool) -> Prepared {
    let run_plain = |config: &Config| if parallel { run_plan_par(rt, config, &[]) } else { run_plan(rt, config, &[]) };
    let src = build_source(&scenario.shape).unwrap_or_else(|e| machinery_failure(&format!("source: {e:#}")));
    let dir = tempfile::Builder::new().prefix("vh-genesis-").tempdir().unwrap_or_else(|e| machinery_failure(&format!("tempdir: {e}")));
    export(rt, &src, dir.path(), scenario.encoding).unwrap_or_else(|e| machinery_failure(&format!("export: {e:#}")));
    let config = open_snapshot(dir.path(), scenario.encoding).unwrap_or_else(|e| machinery_failure(&format!("open: {e:#}")));
    let PlanOut { fin, commits: base_commits, final_trace, .. } = run_plain(&config);
    let fin = fin.unwrap_or_else(|e| machinery_failure(&format!("uninterrupted import failed: {e}")));
    let mut commits = BTreeSet::new();
    let mut per_table: BTreeMap<String, usize> = BTreeMap::new();
    for c in &base_commits {
        if !commits.insert(c.clone()) {
            machinery_failure("uninterrupted import committed a group twice");
        }
        *per_table.entry(c.0.clone()).or_default() += 1;
    }
    if parallel && per_table.values().filter(|n| **n >= 10).count() < 2 {
        machinery_failure("parallel scenario needs at least two tables with >= 10 groups");
    }
    if !parallel && per_table.values().any(|n| *n >= 10) {
        machinery_failure("scenario has a table with >= 10 groups (parallel import path; fault points would not be on the harness thread)");
    }
    if per_table.len() < 3 || per_table.values().filter(|n| **n >= 3).count() < 3 {
        machinery_failure("scenario too small: fewer than 3 tables with 3 groups");
    }
    // a second uninterrupted import must give the same dumps (determinism of the baseline)
    let again = run_plain(&config);
    match again.fin {
        Ok(f) if f.post_on == fin.post_on && f.post_off == fin.post_off && f.pre_on == fin.pre_on && f.pre_off == fin.pre_off => {}
        Ok(f) => {
            let d = [(&fin.pre_on, &f.pre_on), (&fin.pre_off, &f.pre_off), (&fin.post_on, &f.post_on), (&fin.post_off, &f.post_off)].iter().filter_map(|(a, b)| first_dump_diff(a, b)).map(|(c, k, d)| format!("{c}: {k}: {d}")).collect::<Vec<_>>();
            machinery_failure(&format!("uninterrupted import is not deterministic: {d:?}"))
        }
        Err(e) => machinery_failure(&format!("second uninterrupted import failed: {e}")),
    }
    Prepared { scenario: scenario.clone(), config, baseline: Baseline { fin, commits, trace: final_trace }, _dir: dir }
}

fn first_dump_diff(exp: &Dump, got: &Dump) -> Option<(String, &'static str, String)> {
    let cols: BTreeSet<&String> = exp.keys().chain(got.keys()).collect();
    for c in cols {
        if let Some((kind, d)) = diff_column(exp.get(c), got.get(c)) {
            return Some((c.clone(), kind, d));
        }
    }
    None
}

fn err_class(e: &str) -> String {
    let s: String = e.chars().map(|c| if c.is_ascii_alphanumeric() { c.to_ascii_lowercase() } else { '_' }).collect();
    let mut out = String::new();
    for part in s.split('_').filter(|p| !p.is_empty() && !p.chars().all(|c| c.is_ascii_digit() || ('a'..='f').contains(&c) && p.len() > 8)) {
        if out.len() > 60 {
            break;
        }
        if !out.is_empty() {
            out.push('_');
        }
        out.push_str(part);
    }
    out
}

pub fn check(p: &Prepared, out: &PlanOut) -> Vec<Violation> {
    let mut v = vec![];
    let hist: Vec<String> = out.interrupted.iter().map(|(pt, e, _)| format!("[at {:?}: {}]", pt, e)).collect();
    let hist = hist.join(" ");
    match &out.fin {
        Err(e) => v.push(viol(format!("restart_failed:{}", err_class(e)), format!("after interruptions {hist} the restarted import does not complete: {e} (uninterrupted import succeeds)"))),
        Ok(f) => {
            let b = &p.baseline.fin;
            for (stage, db, exp, got) in [
                ("state_before_commit_differs", "on_chain", &b.pre_on, &f.pre_on),
                ("state_before_commit_differs", "off_chain", &b.pre_off, &f.pre_off),
                ("final_state_differs", "on_chain", &b.post_on, &f.post_on),
                ("final_state_differs", "off_chain", &b.post_off, &f.post_off),
            ] {
                if let Some((col, kind, d)) = first_dump_diff(exp, got) {
                    v.push(viol(format!("{stage}:{db}:{col}:{kind}"), format!("after interruptions {hist} and restart, {db} column {col} differs from the uninterrupted import: {d}")));
                }
            }
        }
    }
    let mut count: BTreeMap<&(String, usize), usize> = BTreeMap::new();
    for c in &out.commits {
        *count.entry(c).or_default() += 1;
    }
    for (c, n) in &count {
        if *n > 1 {
            v.push(viol(format!("group_committed_twice:{}", c.0), format!("after interruptions {hist}: group {} of '{}' was committed {} times", c.1, c.0, n)));
        }
        if !p.baseline.commits.contains(*c) {
            v.push(viol(format!("unknown_group_committed:{}", c.0), format!("group {} of '{}' is not committed by the uninterrupted import", c.1, c.0)));
        }
    }
    if out.fin.is_ok() {
        for c in &p.baseline.commits {
            if !count.contains_key(c) {
                v.push(viol(format!("group_skipped:{}", c.0), format!("after interruptions {hist}: group {} of '{}' was never committed", c.1, c.0)));
            }
        }
    }
    v
}

/// Informational only (outside the statement's quantifier, which ranges over interruptions
/// while groups are processed): the node dies after `execute_genesis_block` returned but
/// before the genesis block is committed, and is started again.
fn post_import_window(rt: &tokio::runtime::Runtime, p: &Prepared) -> serde_json::Value {
    let db = CombinedDatabase::in_memory();
    let first = one_run(rt, &p.config, &db, None);
    if first.result.is_err() {
        return json!({"error": "first run failed"});
    }
    drop(first);
    let second = one_run(rt, &p.config, &db, None);
    let reapplied: BTreeSet<String> = second.commits.iter().map(|c| c.0.clone()).collect();
    match second.result {
        Err(e) => json!({"restart": format!("failed: {e}")}),
        Ok(result) => match rt.block_on(commit_genesis(&p.config, &db, result)) {
            Err(e) => json!({"restart": format!("commit failed: {e:#}")}),
            Ok(()) => {
                let on = dump_db(db.on_chain()).ok();
                let off = dump_db(db.off_chain()).ok();
                let don = on.as_ref().and_then(|d| first_dump_diff(&p.baseline.fin.post_on, d)).map(|(c, k, d)| format!("{c}: {k}: {d}"));
                let doff = off.as_ref().and_then(|d| first_dump_diff(&p.baseline.fin.post_off, d)).map(|(c, k, d)| format!("{c}: {k}: {d}"));
                json!({"restart": "completed", "migrations_reapplied_from_group_0": reapplied, "on_chain_first_difference": don, "off_chain_first_difference": doff})
            }
        },
    }
}

fn scenarios(tier: Tier) -> Vec<Scenario> {
    let shape = Shape { coins: 3, messages: 3, contracts: vec![ContractShape { slots: 3, balances: 3 }], blobs: 3, processed_txs: 3, height: 2 };
    let mut v = vec![
        Scenario { shape: shape.clone(), encoding: Encoding::Parquet { group_size: Some(1) } },
        Scenario { shape: shape.clone(), encoding: Encoding::Json { write_group_size: None, read_group_size: Some(1) } },
    ];
    if tier == Tier::Thorough {
        let big = Shape { coins: 6, messages: 5, contracts: vec![ContractShape { slots: 4, balances: 3 }, ContractShape { slots: 2, balances: 3 }], blobs: 3, processed_txs: 5, height: 4 };
        v.push(Scenario { shape: big.clone(), encoding: Encoding::Parquet { group_size: Some(2) } });
        v.push(Scenario { shape: big, encoding: Encoding::Json { write_group_size: None, read_group_size: Some(2) } });
    }
    v
}

fn label(i: &Interruption, fired: &Option<Point>) -> String {
    match (i.call, fired) {
        (None, _) => "Cancel@before_start".to_string(),
        (Some(_), Some((_, _, ph))) => format!("{:?}@{:?}", i.action, ph),
        (Some(_), None) => format!("{:?}@not_reached", i.action),
    }
}

type Witness = Mutex<BTreeMap<String, usize>>;

fn note_witness(w: &Witness, k: usize, vs: &[Violation]) {
    if vs.is_empty() {
        return;
    }
    let mut w = w.lock().unwrap();
    for x in vs {
        match w.get(&x.sig) {
            Some(j) if *j <= k => {}
            _ => {
                w.insert(x.sig.clone(), k);
            }
        }
    }
}

fn record(sw: &mut Sweep, p: &Prepared, ints: &[Interruption], out: &PlanOut, w: &Witness, k: usize) {
    let vs = check(p, out);
    note_witness(w, k, &vs);
    let labels: Vec<String> = ints.iter().zip(out.interrupted.iter()).map(|(i, (f, e, _))| format!("{}{}", label(i, f), if e == "completed" { "(too late)" } else { "" })).collect();
    let really_interrupted = out.interrupted.iter().filter(|(_, e, _)| e != "completed").count();
    let mut sigs: Vec<String> = vs.iter().map(|x| x.sig.clone()).collect();
    sigs.sort();
    sigs.dedup();
    let outcome = format!("{} -> {}", labels.join(","), if sigs.is_empty() { "same_result".to_string() } else { sigs.join("+") });
    let plan = Plan { scenario: p.scenario.clone(), interruptions: ints.to_vec(), par: vec![] };
    let nontrivial = (really_interrupted > 0).then(|| mcx::hash_of(&(&p.scenario, ints)));
    let mut it = vs.into_iter();
    let first = it.next();
    sw.case(nontrivial, &outcome, || json!(plan), first.map(Err).unwrap_or(Ok(())));
    for extra in it {
        if !sw.violations.iter().any(|f| f.sig == extra.sig) {
            sw.violations.push(mcx::FoundViolation { subject: sw.name.clone(), sig: extra.sig, msg: extra.msg, history: json!(plan), confirmed_by_second_replay: false });
        }
    }
}

/// Stable witnesses: for every signature report the first plan in enumeration order showing it
/// (index recorded during the sweep), re-executed once more to confirm.
fn stabilise(mut sw: Sweep, p: &Prepared, w: Witness, plan_at: impl Fn(usize) -> Vec<Interruption>) -> Sweep {
    if sw.violations.is_empty() {
        return sw;
    }
    let rt = rt();
    let w = w.into_inner().unwrap();
    for v in sw.violations.iter_mut() {
        let Some(k) = w.get(&v.sig) else { machinery_failure("C40: violation without witness index") };
        let ints = plan_at(*k);
        let out = run_plan(&rt, &p.config, &ints);
        match check(p, &out).into_iter().find(|x| x.sig == v.sig) {
            Some(x) => {
                v.msg = x.msg;
                v.history = json!(Plan { scenario: p.scenario.clone(), interruptions: ints, par: vec![] });
                v.confirmed_by_second_replay = true;
            }
            None => machinery_failure("C40: a violation did not reproduce on re-execution"),
        }
    }
    sw.violations.sort_by(|a, b| a.sig.cmp(&b.sig));
    sw
}

pub fn main(cli: &Cli) -> ! {
    thread_local! { static RT: tokio::runtime::Runtime = rt(); }
    if let Some(path) = &cli.replay {
        let rf = load_replay(path);
        let plan: Plan = serde_json::from_value(rf.history.clone()).unwrap_or_else(|e| machinery_failure(&format!("replay does not decode: {e}")));
        let rt = rt();
        let parallel = !plan.par.is_empty();
        let p = prepare_mode(&rt, &plan.scenario, parallel);
        let out = if parallel { run_plan_par(&rt, &p.config, &plan.par) } else { run_plan(&rt, &p.config, &plan.interruptions) };
        println!("replay: scenario {}", serde_json::to_string(&plan.scenario).unwrap());
        let descr: Vec<String> = if parallel { plan.par.iter().map(|i| format!("{i:?}")).collect() } else { plan.interruptions.iter().map(|i| format!("{i:?}")).collect() };
        for (i, (pt, e, dg)) in descr.iter().zip(out.interrupted.iter()) {
            println!("  interruption {} fired at {:?}: run ended with '{}', state digest {}", i, pt, e, dg);
        }
        println!("  restarted import: {}", match &out.fin { Ok(_) => "completed".to_string(), Err(e) => format!("FAILED: {e}") });
        let vs = check(&p, &out);
        for x in &vs {
            println!("  {}: {}", x.sig, x.msg);
        }
        drop(p);
        if vs.iter().any(|x| x.sig == rf.signature) {
            println!("VIOLATION property=C40 replay=(replayed)");
            std::process::exit(1)
        }
        println!("replay: signature {} not reproduced ({} other violations)", rf.signature, vs.len());
        std::process::exit(0)
    }

    let mut run = Run::new(cli, "fault_enumeration");
    let rt0 = rt();
    let mut prepared: Vec<Prepared> = vec![];
    for s in scenarios(cli.tier) {
        prepared.push(prepare(&rt0, &s));
    }
    let mut notes = vec![];
    for (si, p) in prepared.iter().enumerate() {
        let n = p.baseline.trace.len();
        let tables: BTreeMap<String, usize> = p.baseline.commits.iter().fold(BTreeMap::new(), |mut m, c| {
            *m.entry(c.0.clone()).or_default() += 1;
            m
        });
        // level 1: every single interruption
        let mut singles: Vec<Interruption> = vec![Interruption { call: None, action: Action::Cancel }];
        for i in 0..n {
            singles.push(Interruption { call: Some(i), action: Action::Fail });
            singles.push(Interruption { call: Some(i), action: Action::Cancel });
        }
        let resumed_len: Mutex<Vec<Option<usize>>> = Mutex::new(vec![None; singles.len()]);
        let partial: Mutex<BTreeSet<String>> = Mutex::new(BTreeSet::new());
        let w1: Witness = Default::default();
        let name1 = format!("s{si}_{}_single_interruption", p.scenario.encoding.kind());
        let sw = par_sweep(
            &name1,
            "a plan is non-trivial when an interruption really ended a run with an error before completion; distinct by (scenario, interruption list)",
            singles.len(),
            cli.threads,
            |k, sw: &mut Sweep| {
                let ints = [singles[k]];
                let out = RT.with(|rt| run_plan(rt, &p.config, &ints));
                if out.interrupted[0].1 != "completed" {
                    resumed_len.lock().unwrap()[k] = Some(out.final_trace.len());
                    partial.lock().unwrap().insert(out.interrupted[0].2.clone());
                    let e = &out.interrupted[0].1;
                    let expect = match singles[k].action { Action::Fail => "verif: injected failure", Action::Cancel => "Import cancelled" };
                    if !e.contains(expect) {
                        machinery_failure(&format!("interrupted run ended with an unexpected error: {e}"));
                    }
                }
                record(sw, p, &ints, &out, &w1, k);
            },
        );
        let partial_n = partial.lock().unwrap().len();
        let green = sw.violations.is_empty();
        if green && partial_n < n / 4 {
            machinery_failure("interruptions did not produce distinct partial states (vacuous)");
        }
        for ph in ["BeforeProcess", "AfterProcess", "BeforeCommit", "AfterCommit"] {
            for act in ["Fail", "Cancel"] {
                let pre = format!("{act}@{ph} ->");
                if green && !sw.outcomes.keys().any(|k| k.starts_with(&pre)) {
                    machinery_failure(&format!("no effective interruption of class {act}@{ph}"));
                }
            }
        }
        let sw = stabilise(sw, p, w1, |k| vec![singles[k]]);
        run.add_sweep(sw);
        let resumed_len = resumed_len.into_inner().unwrap();
        let mut pairs_n = 0usize;
        if cli.tier == Tier::Thorough {
            // level 2: every ordered pair (first interruption, interruption of the restarted run)
            let mut pairs: Vec<[Interruption; 2]> = vec![];
            for (k, first) in singles.iter().enumerate() {
                if let Some(m) = resumed_len[k] {
                    pairs.push([*first, Interruption { call: None, action: Action::Cancel }]);
                    for j in 0..m {
                        pairs.push([*first, Interruption { call: Some(j), action: Action::Fail }]);
                        pairs.push([*first, Interruption { call: Some(j), action: Action::Cancel }]);
                    }
                }
            }
            pairs_n = pairs.len();
            let w2: Witness = Default::default();
            let name2 = format!("s{si}_{}_two_interruptions", p.scenario.encoding.kind());
            let sw2 = par_sweep(
                &name2,
                "every ordered pair: an interruption of the first run and an interruption of the restarted run, then a run to completion; non-trivial when at least one interruption ended a run with an error",
                pairs.len(),
                cli.threads,
                |k, sw: &mut Sweep| {
                    let out = RT.with(|rt| run_plan(rt, &p.config, &pairs[k]));
                    record(sw, p, &pairs[k], &out, &w2, k);
                },
            );
            let sw2 = stabilise(sw2, p, w2, |k| pairs[k].to_vec());
            run.add_sweep(sw2);
        }
        let window = post_import_window(&rt0, p);
        notes.push(json!({"scenario": p.scenario, "informational_crash_between_import_and_genesis_block_commit": window, "fault_points_in_uninterrupted_run": n, "groups_per_migration": tables, "single_interruptions": singles.len(), "distinct_partial_states": partial_n, "pairs": pairs_n}));
    }
    // parallel import path: tables with >= 10 groups are imported on blocking threads concurrently;
    // interruptions are addressed by (migration, group, phase); plans run one at a time.
    {
        let shape = Shape { coins: 10, messages: 3, contracts: vec![ContractShape { slots: 3, balances: 3 }], blobs: 1, processed_txs: 10, height: 1 };
        let scenario = Scenario { shape, encoding: Encoding::Parquet { group_size: Some(1) } };
        let p = prepare_mode(&rt0, &scenario, true);
        let tables: BTreeMap<String, usize> = p.baseline.commits.iter().fold(BTreeMap::new(), |mut m, c| {
            *m.entry(c.0.clone()).or_default() += 1;
            m
        });
        let mut plans: Vec<ParInterruption> = vec![];
        for (m, g) in &p.baseline.commits {
            // quick tier: only the tables imported in parallel; thorough: every table
            if cli.tier == Tier::Quick && tables[m] < 10 {
                continue;
            }
            for ph in ["BeforeProcess", "AfterProcess", "BeforeCommit", "AfterCommit"] {
                for action in [Action::Fail, Action::Cancel] {
                    plans.push(ParInterruption { migration: m.clone(), group: *g, phase: ph.to_string(), action });
                }
            }
        }
        let mut sw = Sweep::new("parallel_import_single_interruption", "single interruption addressed by (migration, group, phase) while >= 10-group tables are imported concurrently; non-trivial when the interruption ended the run with an error");
        let mut effective = 0usize;
        for pi in &plans {
            let ints = [pi.clone()];
            let out = run_plan_par(&rt0, &p.config, &ints);
            if out.interrupted[0].0.is_none() {
                machinery_failure(&format!("parallel scenario: fault point {pi:?} was not reached"));
            }
            let interrupted = out.interrupted[0].1 != "completed";
            effective += interrupted as usize;
            let vs = check(&p, &out);
            let mut sigs: Vec<String> = vs.iter().map(|x| x.sig.clone()).collect();
            sigs.sort();
            sigs.dedup();
            let outcome = format!("{:?}@{}{} -> {}", pi.action, pi.phase, if interrupted { "" } else { "(too late)" }, if sigs.is_empty() { "same_result".to_string() } else { sigs.join("+") });
            let plan = Plan { scenario: p.scenario.clone(), interruptions: vec![], par: ints.to_vec() };
            let nontrivial = interrupted.then(|| mcx::hash_of(&(&p.scenario, pi)));
            let mut it = vs.into_iter();
            let first = it.next();
            sw.case(nontrivial, &outcome, || json!(plan), first.map(Err).unwrap_or(Ok(())));
            for extra in it {
                if !sw.violations.iter().any(|f| f.sig == extra.sig) {
                    sw.violations.push(mcx::FoundViolation { subject: sw.name.clone(), sig: extra.sig, msg: extra.msg, history: json!(plan), confirmed_by_second_replay: false });
                }
            }
        }
        if sw.violations.is_empty() && effective < plans.len() / 2 {
            machinery_failure("parallel scenario: most interruptions were ineffective (vacuous)");
        }
        run.add_sweep(sw);
        notes.push(json!({"scenario": p.scenario, "parallel_import": true, "groups_per_migration": tables, "single_interruptions": plans.len(), "effective": effective}));
        drop(p);
    }
    // determinism self-check on a few plans
    {
        let p = &prepared[0];
        let n = p.baseline.trace.len();
        for i in [0, n / 3, n / 2, n - 1] {
            for action in [Action::Fail, Action::Cancel] {
                let ints = [Interruption { call: Some(i), action }];
                let a = run_plan(&rt0, &p.config, &ints);
                let b = run_plan(&rt0, &p.config, &ints);
                let sa: Vec<_> = a.interrupted.iter().map(|x| (&x.0, &x.1, &x.2)).collect();
                let sb: Vec<_> = b.interrupted.iter().map(|x| (&x.0, &x.1, &x.2)).collect();
                if sa != sb || a.commits != b.commits {
                    machinery_failure("C40: a plan is not deterministic");
                }
            }
        }
    }
    run.note("scenarios", json!(notes));
    run.assume("a crash/stop is modelled as the import returning an error (injected failure or the node's stop signal) followed by a new execute_genesis_block call on the same storage with all in-process state rebuilt; storage commits are atomic (RocksDB WriteBatch / the in-memory store's lock) - torn writes below the storage layer are out of scope");
    run.assume("in-memory databases; in the main scenarios tables have < 10 groups so the importer runs them sequentially on the calling thread (deterministic fault-point order, every point and every ordered pair enumerated); the >= 10 groups spawn_blocking path is covered by one scenario with single interruptions addressed by (migration, group, phase) - there the stopping point of the sibling tables depends on thread scheduling, only the final result is checked");
    run.assume("'same final state' = byte-identical dump of every column of the on-chain and off-chain databases, both right after the import (incl. GenesisMetadata progress) and after the genesis block is committed");
    drop(prepared);
    run.finish()
}
