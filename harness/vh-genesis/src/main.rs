//! vh-genesis: C39 (snapshot export + regenesis round trip) and C40 (interrupted
//! genesis import) on the real fuel-core genesis exporter/importer.

mod c39;
mod c40;
mod world;

fn main() {
    let cli = mcx::Cli::parse();
    match cli.property.as_str() {
        "C39" => c39::main(&cli),
        "C40" => c40::main(&cli),
        other => mcx::machinery_failure(&format!("vh-genesis does not serve {other}")),
    }
}
