//! C39: snapshot export followed by regenesis reproduces the chain state.
//!
//! Exhaustive sweep over small source-state shapes x encodings/group sizes. Every
//! case runs the real `Exporter::write_full_snapshot`, `SnapshotReader` and
//! `execute_genesis_block` + genesis block commit into fresh databases and compares
//! the tables the statement lists, byte for byte.

use crate::world::*;
use fuel_core::combined_database::CombinedDatabase;
use fuel_core_services::StateWatcher;
use fuel_core_storage::{
    column::Column,
    kv_store::StorageColumn,
    tables::{merkle::DenseMetadataKey, merkle::FuelBlockMerkleMetadata, FuelBlocks},
    transactional::AtomicView,
    StorageAsRef,
};
use fuel_core_types::fuel_types::BlockHeight;
use mcx::{load_replay, machinery_failure, par_sweep, viol, Cli, Run, Sweep, Tier, Violation};
use serde::{Deserialize, Serialize};
use serde_json::json;

#[derive(Clone, Debug, Serialize, Deserialize)]
pub struct Case {
    pub shape: Shape,
    pub encoding: Encoding,
}

/// Tables named by the statement (column, label used in signatures).
fn listed_tables() -> Vec<(Column, &'static str)> {
    vec![
        (Column::Coins, "Coins"),
        (Column::Messages, "Messages"),
        (Column::ContractsRawCode, "ContractsRawCode"),
        (Column::ContractsAssets, "ContractsAssets"),
        (Column::ContractsState, "ContractsState"),
        (Column::ContractsLatestUtxo, "ContractsLatestUtxo"),
        (Column::Blobs, "Blobs"),
        (Column::ProcessedTransactions, "ProcessedTransactions"),
        (Column::FuelBlockMerkleData, "FuelBlockMerkleData"),
        (Column::FuelBlockMerkleMetadata, "FuelBlockMerkleMetadata"),
    ]
}

fn contract_options(tier: Tier) -> Vec<Vec<ContractShape>> {
    let singles: Vec<ContractShape> = [0u8, 1, 5].iter().flat_map(|s| [0u8, 2].iter().map(move |b| ContractShape { slots: *s, balances: *b })).collect();
    let mut out = vec![vec![]];
    for s in &singles {
        out.push(vec![s.clone()]);
    }
    if tier == Tier::Thorough {
        for a in &singles {
            for b in &singles {
                out.push(vec![a.clone(), b.clone()]);
            }
        }
    } else {
        // two contracts whose slots/balances share groups (group sizes >= 2) or follow each other
        out.push(vec![ContractShape { slots: 1, balances: 2 }, ContractShape { slots: 5, balances: 2 }]);
        out.push(vec![ContractShape { slots: 5, balances: 0 }, ContractShape { slots: 0, balances: 2 }]);
    }
    out
}

fn encodings(tier: Tier) -> Vec<Encoding> {
    let mut v = vec![
        Encoding::Json { write_group_size: None, read_group_size: None },
        Encoding::Json { write_group_size: Some(1), read_group_size: Some(1) },
        Encoding::Json { write_group_size: Some(2), read_group_size: None },
        Encoding::Json { write_group_size: Some(3), read_group_size: None },
        Encoding::Parquet { group_size: Some(1) },
        Encoding::Parquet { group_size: Some(2) },
        Encoding::Parquet { group_size: None },
    ];
    if tier == Tier::Thorough {
        v.push(Encoding::Parquet { group_size: Some(3) });
        v.push(Encoding::Json { write_group_size: None, read_group_size: Some(1) });
        v.push(Encoding::Json { write_group_size: None, read_group_size: Some(2) });
        v.push(Encoding::Json { write_group_size: Some(1), read_group_size: None });
        v.push(Encoding::Json { write_group_size: Some(2), read_group_size: Some(3) });
        v.push(Encoding::Parquet { group_size: Some(4) });
    }
    v
}

pub fn cases(tier: Tier) -> Vec<Case> {
    let mut out = vec![];
    for contracts in contract_options(tier) {
        for coins in 0..=3u8 {
            for messages in if tier == Tier::Thorough { vec![0u8, 1, 2] } else { vec![0u8, 2] } {
                for blobs in 0..=1u8 {
                    for processed_txs in if tier == Tier::Thorough { vec![0u8, 1, 2] } else { vec![0u8, 2] } {
                        for height in [0u32, 3] {
                            for encoding in encodings(tier) {
                                out.push(Case {
                                    shape: Shape { coins, messages, contracts: contracts.clone(), blobs, processed_txs, height },
                                    encoding,
                                });
                            }
                        }
                    }
                }
            }
        }
    }
    out
}

fn compare_listed(enc: Encoding, stage: &str, src: &Dump, dst: &Dump, superset_ok_for_merkle: bool, out: &mut Vec<Violation>) {
    for (col, label) in listed_tables() {
        let name = col.name();
        let merkle = matches!(col, Column::FuelBlockMerkleData | Column::FuelBlockMerkleMetadata);
        let mut exp = src.get(&name).cloned();
        let mut got = dst.get(&name).cloned();
        if merkle && superset_ok_for_merkle {
            // after the new genesis block is committed the block tree has grown by one leaf:
            // the old tree's entries must still be there, except the `Latest` metadata pointer.
            if let (Some(e), Some(g)) = (exp.as_mut(), got.as_mut()) {
                if col == Column::FuelBlockMerkleMetadata {
                    let latest = latest_key_bytes();
                    e.remove(&latest);
                    g.remove(&latest);
                }
                g.retain(|k, _| e.contains_key(k));
            }
        }
        if let Some((kind, d)) = diff_column(exp.as_ref(), got.as_ref()) {
            out.push(viol(format!("{}/{}/{}", enc.kind(), label, kind), format!("{stage}: table {label} differs between source node and regenesis node: {d}")));
        }
    }
}

fn latest_key_bytes() -> Vec<u8> {
    use fuel_core_storage::codec::{postcard::Postcard, Encode, Encoder};
    let k: DenseMetadataKey<BlockHeight> = DenseMetadataKey::Latest;
    <Postcard as Encode<DenseMetadataKey<BlockHeight>>>::encode(&k).as_bytes().to_vec()
}

/// Executes one case on the real code; `Err` = machinery failure (no verdict).
pub fn run_case(rt: &tokio::runtime::Runtime, case: &Case) -> Result<Vec<Violation>, String> {
    let enc = case.encoding;
    let mut v = vec![];
    let src = build_source(&case.shape).map_err(|e| format!("building the source state failed: {e:#}"))?;
    let src_dump = dump_db(src.on_chain()).map_err(|e| e.to_string())?;
    let src_height = BlockHeight::from(case.shape.height);
    let src_root: [u8; 32] = {
        let view = src.on_chain().latest_view().map_err(|e| e.to_string())?;
        view.storage::<FuelBlocks>().root(&src_height).map_err(|e| e.to_string())?
    };
    let dir = tempfile::Builder::new().prefix("vh-genesis-").tempdir().map_err(|e| e.to_string())?;
    if let Err(e) = export(rt, &src, dir.path(), enc) {
        v.push(viol(format!("{}/export_failed", enc.kind()), format!("exporting the source state failed: {e:#}")));
        return Ok(v);
    }
    let config = match open_snapshot(dir.path(), enc) {
        Ok(c) => c,
        Err(e) => {
            v.push(viol(format!("{}/open_failed", enc.kind()), format!("opening the exported snapshot failed: {e:#}")));
            return Ok(v);
        }
    };
    // chain height / block root as recorded by the snapshot
    match config.snapshot_reader.last_block_config() {
        Some(l) => {
            if l.block_height != src_height {
                v.push(viol(format!("{}/height/snapshot", enc.kind()), format!("snapshot records last block height {}, source chain height is {}", l.block_height, src_height)));
            }
            if *l.blocks_root != src_root {
                v.push(viol(format!("{}/blocks_root/snapshot", enc.kind()), format!("snapshot records blocks root {}, source block tree root is {}", l.blocks_root, hex::encode(src_root))));
            }
        }
        None => v.push(viol(format!("{}/height/snapshot_missing", enc.kind()), "snapshot has no last block config".to_string())),
    }
    let dst = CombinedDatabase::in_memory();
    let result = match rt.block_on(run_genesis(StateWatcher::started(), &config, &dst)) {
        Ok(r) => r,
        Err(e) => {
            v.push(viol(format!("{}/import_failed", enc.kind()), format!("genesis import of the exported snapshot failed: {e:#}")));
            return Ok(v);
        }
    };
    let pre = dump_db(dst.on_chain()).map_err(|e| e.to_string())?;
    compare_listed(enc, "after import, before the new genesis block is committed", &src_dump, &pre, false, &mut v);
    if let Err(e) = rt.block_on(commit_genesis(&config, &dst, result)) {
        v.push(viol(format!("{}/commit_failed", enc.kind()), format!("committing the regenesis block failed: {e:#}")));
        return Ok(v);
    }
    let post = dump_db(dst.on_chain()).map_err(|e| e.to_string())?;
    compare_listed(enc, "after the new genesis block is committed", &src_dump, &post, true, &mut v);
    // chain height: the regenesis block continues the old chain (old height + 1, prev_root = old block root)
    let view = dst.on_chain().latest_view().map_err(|e| e.to_string())?;
    match view.latest_height() {
        Ok(hh) => {
            let want = src_height.succ().expect("small");
            if hh != want {
                v.push(viol(format!("{}/height/regenesis", enc.kind()), format!("regenesis node is at height {hh}, expected source height {src_height} + 1")));
            } else {
                let blk = view.latest_block().map_err(|e| e.to_string())?;
                if **blk.header().prev_root() != src_root {
                    v.push(viol(format!("{}/blocks_root/regenesis_prev_root", enc.kind()), format!("regenesis block prev_root {} != source block tree root {}", blk.header().prev_root(), hex::encode(src_root))));
                }
            }
        }
        Err(e) => v.push(viol(format!("{}/height/regenesis_missing", enc.kind()), format!("regenesis node has no height: {e}"))),
    }
    // the old chain's block tree root must be reproducible from the copied Merkle data
    let has_primary = view.storage::<FuelBlockMerkleMetadata>().get(&DenseMetadataKey::Primary(src_height)).map_err(|e| e.to_string())?.is_some();
    if has_primary {
        match view.storage::<FuelBlocks>().root(&src_height) {
            Ok(r) if r == src_root => {}
            Ok(r) => v.push(viol(format!("{}/blocks_root/old_height_root", enc.kind()), format!("block tree root at old height {src_height} is {} on the regenesis node, {} on the source", hex::encode(r), hex::encode(src_root)))),
            Err(e) => v.push(viol(format!("{}/blocks_root/old_height_root_err", enc.kind()), format!("block tree root at old height not computable: {e}"))),
        }
    }
    Ok(v)
}

pub fn main(cli: &Cli) -> ! {
    if let Some(p) = &cli.replay {
        let rf = load_replay(p);
        let case: Case = serde_json::from_value(rf.history.clone()).unwrap_or_else(|e| machinery_failure(&format!("replay does not decode: {e}")));
        let rt = rt();
        let t0 = std::time::Instant::now();
        let vs = run_case(&rt, &case).unwrap_or_else(|e| machinery_failure(&e));
        println!("replay: case {} ({:.1} ms)", serde_json::to_string(&case).unwrap(), t0.elapsed().as_secs_f64() * 1e3);
        for x in &vs {
            println!("  {}: {}", x.sig, x.msg);
        }
        if vs.iter().any(|x| x.sig == rf.signature) {
            println!("VIOLATION property=C39 replay=(replayed)");
            std::process::exit(1)
        }
        println!("replay: signature {} not reproduced ({} other violations)", rf.signature, vs.len());
        std::process::exit(0)
    }
    let mut run = Run::new(cli, "exploration");
    let cs = cases(cli.tier);
    // signature -> smallest case index showing it (stable witness independent of thread scheduling)
    let first_witness: std::sync::Mutex<std::collections::BTreeMap<String, (usize, String)>> = Default::default();
    let sw = par_sweep(
        "export_regenesis_roundtrip",
        "a case (source shape, encoding, group size) is non-trivial when the source state has at least one entry in a state table; distinct by (shape, encoding)",
        cs.len(),
        cli.threads,
        |i, sw: &mut Sweep| {
            thread_local! { static RT: tokio::runtime::Runtime = rt(); }
            let case = &cs[i];
            let vs = RT.with(|rt| run_case(rt, case)).unwrap_or_else(|e| machinery_failure(&format!("case {i}: {e}")));
            let s = &case.shape;
            let nontrivial = (s.coins as usize + s.messages as usize + s.contracts.len() + s.blobs as usize + s.processed_txs as usize > 0).then(|| mcx::hash_of(&(s, &case.encoding)));
            if !vs.is_empty() {
                let mut fw = first_witness.lock().unwrap();
                for x in &vs {
                    match fw.get(&x.sig) {
                        Some((j, _)) if *j <= i => {}
                        _ => {
                            fw.insert(x.sig.clone(), (i, x.msg.clone()));
                        }
                    }
                }
            }
            let mut sigs: Vec<String> = vs.iter().map(|x| x.sig.clone()).collect();
            sigs.sort();
            sigs.dedup();
            let outcome = if sigs.is_empty() { format!("{}:identical", case.encoding.kind()) } else { format!("{}:{}", case.encoding.kind(), sigs.join("+")) };
            let mut it = vs.into_iter();
            let first = it.next();
            sw.case(nontrivial, &outcome, || json!(case), first.map(Err).unwrap_or(Ok(())));
            for extra in it {
                if !sw.violations.iter().any(|f| f.sig == extra.sig) {
                    sw.violations.push(mcx::FoundViolation { subject: sw.name.clone(), sig: extra.sig, msg: extra.msg, history: json!(case), confirmed_by_second_replay: false });
                }
            }
        },
    );
    // stable witnesses: for every signature report the first case in enumeration order showing it,
    // re-executed once more to confirm
    let mut sw = sw;
    {
        let rt = rt();
        let fw = first_witness.into_inner().unwrap();
        for v in sw.violations.iter_mut() {
            let Some((idx, _)) = fw.get(&v.sig) else { machinery_failure("C39: violation without witness index") };
            let again = run_case(&rt, &cs[*idx]).unwrap_or_else(|e| machinery_failure(&e));
            match again.iter().find(|x| x.sig == v.sig) {
                Some(x) => {
                    v.msg = x.msg.clone();
                    v.history = json!(cs[*idx]);
                    v.confirmed_by_second_replay = true;
                }
                None => machinery_failure("C39: a violation did not reproduce on re-execution"),
            }
        }
        sw.violations.sort_by(|a, b| a.sig.cmp(&b.sig));
    }
    // determinism self-check: a few cases twice
    {
        let rt = rt();
        let step = (cs.len() / 5).max(1);
        for c in cs.iter().step_by(step) {
            let a = run_case(&rt, c).unwrap_or_else(|e| machinery_failure(&e));
            let b = run_case(&rt, c).unwrap_or_else(|e| machinery_failure(&e));
            let fa: Vec<_> = a.iter().map(|x| (&x.sig, &x.msg)).collect();
            let fb: Vec<_> = b.iter().map(|x| (&x.sig, &x.msg)).collect();
            if fa != fb {
                machinery_failure("C39: a case is not deterministic");
            }
        }
    }
    if sw.outcomes.keys().filter(|k| k.starts_with("parquet")).count() == 0 || sw.outcomes.keys().filter(|k| k.starts_with("json")).count() == 0 {
        machinery_failure("C39: an encoding was never exercised");
    }
    run.add_sweep(sw);
    run.note("shapes", json!({"coins": "0..=3", "messages": if cli.tier == Tier::Thorough { "0..=2" } else { "{0,2}" }, "contracts": if cli.tier == Tier::Thorough { "none | one | two (ordered) of slots{0,1,5} x balances{0,2}" } else { "none | one of slots{0,1,5} x balances{0,2} | two fixed pairs" }, "blobs": "0..=1", "processed_txs": if cli.tier == Tier::Thorough { "0..=2" } else { "{0,2}" }, "height": [0, 3]}));
    run.note("encodings", json!(encodings(cli.tier)));
    run.assume("source states are written through the real table blueprints into in-memory databases (blocks 0..=h with one script transaction in block 1); the storage backend (RocksDB vs in-memory) is not part of the property");
    run.assume("'identical chain height' is read as: the snapshot records the source height and block tree root, and the regenesis block sits at source height + 1 with prev_root = source block tree root (regenesis continues the chain by design)");
    run.assume("'block Merkle data' is compared byte for byte after the import; after the new genesis block is committed the old entries must be a subset (the tree grew by one leaf; the Latest pointer moves)");
    run.assume("node start-up is reproduced as execute_genesis_block + Importer::commit_result (what FuelService::prepare_genesis does); GraphQL/off-chain views are not compared, the statement lists on-chain state only");
    run.finish()
}
