//! Shared machinery: deterministic source states, export with the real
//! `Exporter`, import with the real genesis path, raw database dumps.

use fuel_core::{
    combined_database::CombinedDatabase,
    database::{database_description::DatabaseDescription, Database},
    service::{
        genesis::{execute_genesis_block, Exporter},
        Config,
    },
};
use fuel_core_chain_config::{ChainConfig, SnapshotMetadata, SnapshotReader, SnapshotWriter, ZstdCompressionLevel, MAX_GROUP_SIZE};
use fuel_core_services::StateWatcher;
use fuel_core_storage::{
    iter::{IterDirection, IterableStore},
    kv_store::StorageColumn,
    tables::{
        Coins, ContractsAssets, ContractsLatestUtxo, ContractsRawCode, ContractsState, FuelBlocks, Messages, ProcessedTransactions,
        SealedBlockConsensus, Transactions,
    },
    transactional::{AtomicView, WriteTransaction},
    ContractsAssetKey, ContractsStateKey, StorageAsMut, StorageAsRef,
};
use fuel_core_types::{
    blockchain::{
        block::Block,
        consensus::{poa::PoAConsensus, Consensus, Genesis},
        header::{ApplicationHeader, ConsensusHeader, PartialBlockHeader},
        primitives::{DaBlockHeight, Empty},
    },
    entities::{
        coins::coin::{CompressedCoin, CompressedCoinV1},
        contract::ContractUtxoInfo,
        relayer::message::{Message, MessageV1},
    },
    fuel_tx::{AssetId, BlobId, Bytes32, ContractId, TransactionBuilder, TxPointer, UniqueIdentifier, UtxoId},
    fuel_types::{Address, BlockHeight, ChainId, Nonce},
    fuel_vm::BlobData,
    tai64::Tai64,
};
use serde::{Deserialize, Serialize};
use std::{collections::BTreeMap, path::Path};

/// DA height of every source block (messages use DA heights below it).
pub const SOURCE_DA_HEIGHT: u64 = 5;

#[derive(Clone, Debug, Serialize, Deserialize, PartialEq, Eq, Hash)]
pub struct ContractShape {
    pub slots: u8,
    pub balances: u8,
}

/// Shape of a source state. All contents are a deterministic function of it.
#[derive(Clone, Debug, Serialize, Deserialize, PartialEq, Eq, Hash)]
pub struct Shape {
    pub coins: u8,
    pub messages: u8,
    pub contracts: Vec<ContractShape>,
    pub blobs: u8,
    pub processed_txs: u8,
    pub height: u32,
}

#[derive(Clone, Copy, Debug, Serialize, Deserialize, PartialEq, Eq, Hash)]
pub enum Encoding {
    /// JSON snapshot; `write_group_size` is the exporter's group size (`None` = CLI default =
    /// one group per table), `read_group_size` the reader's (`None` = default = one group).
    Json {
        #[serde(default)]
        write_group_size: Option<usize>,
        read_group_size: Option<usize>,
    },
    /// Parquet snapshot; `group_size` is the exporter's group size (`None` = CLI default 10000).
    Parquet { group_size: Option<usize> },
}

impl Encoding {
    pub fn kind(&self) -> &'static str {
        match self {
            Encoding::Json { .. } => "json",
            Encoding::Parquet { .. } => "parquet",
        }
    }
}

fn b32(tag: u8, i: u8) -> [u8; 32] {
    let mut b = [0u8; 32];
    // leading byte varies so that key order differs from creation order
    b[0] = i.wrapping_mul(97).wrapping_add(tag);
    b[1] = tag;
    b[2] = i;
    b[31] = !tag;
    b
}

pub fn rt() -> tokio::runtime::Runtime {
    tokio::runtime::Builder::new_current_thread().enable_all().build().expect("tokio runtime")
}

/// Builds the source node state by writing through the real table blueprints
/// (Merkle side tables are maintained by the real code).
pub fn build_source(shape: &Shape) -> anyhow::Result<CombinedDatabase> {
    let mut db = CombinedDatabase::in_memory();
    let h = shape.height;
    let chain_id = ChainId::default();
    {
        let on = db.on_chain_mut();
        for i in 0..shape.coins {
            let key = UtxoId::new(Bytes32::from(b32(1, i)), i as u16);
            let coin = CompressedCoin::V1(CompressedCoinV1 {
                owner: Address::from(b32(2, i % 2)),
                amount: 100 + i as u64,
                asset_id: if i % 2 == 0 { AssetId::zeroed() } else { AssetId::from(b32(3, i)) },
                tx_pointer: TxPointer::new(BlockHeight::from((i as u32).min(h)), i as u16),
            });
            on.storage_as_mut::<Coins>().insert(&key, &coin)?;
        }
        for i in 0..shape.messages {
            let message = Message::V1(MessageV1 {
                sender: Address::from(b32(4, i)),
                recipient: Address::from(b32(2, i % 2)),
                nonce: Nonce::from(b32(5, i)),
                amount: 1000 + i as u64,
                data: if i % 2 == 0 { vec![] } else { vec![i; 3] },
                da_height: DaBlockHeight(i as u64),
            });
            on.storage_as_mut::<Messages>().insert(message.nonce(), &message)?;
        }
        for (j, c) in shape.contracts.iter().enumerate() {
            let j = j as u8;
            let id = ContractId::from(b32(6, j));
            let code = vec![j + 1; 4 + j as usize];
            on.storage_as_mut::<ContractsRawCode>().insert(&id, code.as_slice())?;
            let utxo = UtxoId::new(Bytes32::from(b32(7, j)), j as u16);
            let ptr = TxPointer::new(BlockHeight::from((j as u32).min(h)), j as u16);
            on.storage_as_mut::<ContractsLatestUtxo>().insert(&id, &ContractUtxoInfo::V1((utxo, ptr).into()))?;
            for s in 0..c.slots {
                let key = ContractsStateKey::new(&id, &Bytes32::from(b32(8, s)));
                let value = vec![s + 1; 1 + (s as usize % 3) * 20];
                on.storage_as_mut::<ContractsState>().insert(&key, value.as_slice())?;
            }
            for a in 0..c.balances {
                let key = ContractsAssetKey::new(&id, &AssetId::from(b32(9, a)));
                on.storage_as_mut::<ContractsAssets>().insert(&key, &(500 + a as u64 + 10 * j as u64))?;
            }
        }
        for i in 0..shape.blobs {
            let id = BlobId::from(b32(10, i));
            let bytes = vec![i + 7; 10 + i as usize];
            on.storage_as_mut::<BlobData>().insert(&id, bytes.as_slice())?;
        }
        for i in 0..shape.processed_txs {
            on.storage_as_mut::<ProcessedTransactions>().insert(&Bytes32::from(b32(11, i)), &())?;
        }
    }
    // blocks 0..=h, one commit per block (the database tracks the height)
    for height in 0..=h {
        let prev_root = if height == 0 {
            Bytes32::zeroed()
        } else {
            let view = db.on_chain().latest_view()?;
            view.storage::<FuelBlocks>().root(&BlockHeight::from(height - 1))?.into()
        };
        let txs = if height == 1 {
            vec![TransactionBuilder::script(vec![1, 2, 3], vec![4, 5]).finalize_as_transaction()]
        } else {
            vec![]
        };
        let header = PartialBlockHeader {
            application: ApplicationHeader::<Empty> {
                da_height: DaBlockHeight(SOURCE_DA_HEIGHT),
                consensus_parameters_version: 0,
                state_transition_bytecode_version: 0,
                generated: Empty,
            },
            consensus: ConsensusHeader::<Empty> {
                prev_root,
                height: BlockHeight::from(height),
                time: Tai64(Tai64::UNIX_EPOCH.0 + height as u64),
                generated: Empty,
            },
        };
        let block = Block::new(header, txs.clone(), &[], Bytes32::zeroed()).map_err(|e| anyhow::anyhow!("{e:?}"))?;
        let consensus = if height == 0 {
            Consensus::Genesis(Genesis::default())
        } else {
            Consensus::PoA(PoAConsensus::default())
        };
        let mut tx = db.on_chain_mut().write_transaction();
        let bh = BlockHeight::from(height);
        tx.storage_as_mut::<FuelBlocks>().insert(&bh, &block.compress(&chain_id))?;
        tx.storage_as_mut::<SealedBlockConsensus>().insert(&bh, &consensus)?;
        for t in &txs {
            tx.storage_as_mut::<Transactions>().insert(&t.id(&chain_id), t)?;
        }
        tx.commit()?;
    }
    Ok(db)
}

pub const DEFAULT_PARQUET_GROUP_SIZE: usize = 10000;

/// Exports `db` with the real exporter the way `fuel-core snapshot everything` does.
pub fn export(rt: &tokio::runtime::Runtime, db: &CombinedDatabase, dir: &Path, enc: Encoding) -> anyhow::Result<()> {
    let out = dir.to_path_buf();
    let group_size = match enc {
        Encoding::Json { write_group_size, .. } => write_group_size.unwrap_or(MAX_GROUP_SIZE),
        Encoding::Parquet { group_size } => group_size.unwrap_or(DEFAULT_PARQUET_GROUP_SIZE),
    };
    let writer = move || match enc {
        Encoding::Json { .. } => Ok(SnapshotWriter::json(out.clone())),
        Encoding::Parquet { .. } => SnapshotWriter::parquet(out.clone(), ZstdCompressionLevel::Level1),
    };
    let exporter = Exporter::new(db.clone(), ChainConfig::local_testnet(), writer, group_size, tokio_util::sync::CancellationToken::new());
    rt.block_on(exporter.write_full_snapshot())
}

/// Opens the snapshot in `dir` like a starting node does and returns its config.
pub fn open_snapshot(dir: &Path, enc: Encoding) -> anyhow::Result<Config> {
    let meta = SnapshotMetadata::read(dir)?;
    let reader = match enc {
        Encoding::Json { read_group_size: Some(g), .. } => SnapshotReader::open_w_config(meta, g)?,
        _ => SnapshotReader::open(meta)?,
    };
    Ok(Config::local_node_with_reader(reader))
}

/// Commits the result of `execute_genesis_block` the way the node does at start-up
/// (same as `execute_and_commit_genesis_block`).
pub async fn commit_genesis(
    config: &Config,
    db: &CombinedDatabase,
    result: fuel_core_types::services::block_importer::UncommittedResult<fuel_core_storage::transactional::Changes>,
) -> anyhow::Result<()> {
    use fuel_core::service::adapters::block_importer::NoopBlockReconciliationWriteAdapter;
    use fuel_core_importer::ports::{MockBlockVerifier, MockValidator};
    let importer = fuel_core_importer::Importer::new(
        config.snapshot_reader.chain_config().consensus_parameters.chain_id(),
        config.block_importer.clone(),
        db.on_chain().clone(),
        MockValidator::default(),
        MockBlockVerifier::default(),
        NoopBlockReconciliationWriteAdapter,
    );
    importer.commit_result(result).await?;
    Ok(())
}

pub async fn run_genesis(
    watcher: StateWatcher,
    config: &Config,
    db: &CombinedDatabase,
) -> anyhow::Result<fuel_core_types::services::block_importer::UncommittedResult<fuel_core_storage::transactional::Changes>> {
    execute_genesis_block(watcher, config, db).await
}

/// column name -> key -> value
pub type Dump = BTreeMap<String, BTreeMap<Vec<u8>, Vec<u8>>>;

pub fn dump_db<D>(db: &Database<D>) -> anyhow::Result<Dump>
where
    D: DatabaseDescription,
    D::Height: serde::de::DeserializeOwned,
{
    let mut out = Dump::new();
    for column in enum_iterator::all::<D::Column>() {
        let mut m = BTreeMap::new();
        for item in db.iter_store(column, None, None, IterDirection::Forward) {
            let (k, v) = item?;
            let mut v = v.as_ref().to_vec();
            if column.id() == D::metadata_column().id() {
                // the metadata value serialises a HashSet (random iteration order): canonicalise it
                use fuel_core::database::database_description::{DatabaseMetadata, IndexationKind};
                use fuel_core_storage::codec::{postcard::Postcard, Decode};
                let md = <Postcard as Decode<DatabaseMetadata<D::Height>>>::decode(&v)?;
                let kinds: Vec<String> = IndexationKind::all().filter(|k| md.indexation_available(*k)).map(|k| format!("{k:?}")).collect();
                v = format!("version={} height={:?} indexation={:?}", md.version(), md.height(), kinds).into_bytes();
            }
            m.insert(k.to_vec(), v);
        }
        if !m.is_empty() {
            out.insert(column.name(), m);
        }
    }
    Ok(out)
}

pub fn dump_digest(d: &Dump) -> String {
    use std::hash::{Hash, Hasher};
    let mut h = std::collections::hash_map::DefaultHasher::new();
    d.hash(&mut h);
    format!("{:016x}", h.finish())
}

pub fn hexs(b: &[u8]) -> String {
    let s = hex::encode(b);
    if s.len() > 40 {
        format!("{}..({}B)", &s[..40], b.len())
    } else {
        s
    }
}

/// First difference between two column maps, as (kind, description).
pub fn diff_column(exp: Option<&BTreeMap<Vec<u8>, Vec<u8>>>, got: Option<&BTreeMap<Vec<u8>, Vec<u8>>>) -> Option<(&'static str, String)> {
    let empty = BTreeMap::new();
    let exp = exp.unwrap_or(&empty);
    let got = got.unwrap_or(&empty);
    if exp == got {
        return None;
    }
    if got.is_empty() {
        return Some(("lost", format!("expected {} entries, found none", exp.len())));
    }
    for (k, v) in exp {
        match got.get(k) {
            None => return Some(("missing_entries", format!("key {} expected (value {}), absent; expected {} entries, found {}", hexs(k), hexs(v), exp.len(), got.len()))),
            Some(g) if g != v => return Some(("changed_values", format!("key {}: expected {}, found {}", hexs(k), hexs(v), hexs(g)))),
            _ => {}
        }
    }
    for (k, v) in got {
        if !exp.contains_key(k) {
            return Some(("extra_entries", format!("unexpected key {} (value {}); expected {} entries, found {}", hexs(k), hexs(v), exp.len(), got.len())));
        }
    }
    None
}
