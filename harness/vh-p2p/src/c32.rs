//! C32 — peers are served exactly what the database holds, within limits;
//! request/response messages survive the codec.
//!
//! (a) real `CachedView::{get_sealed_headers,get_transactions}` over a harness
//!     `P2pDb` whose chain grows (mcx exploration, model_checking);
//! (b) the real `Task::run` loop with harness ports: inbound requests around the
//!     limits are refused iff they exceed them, otherwise answered with the DB's data;
//! (c) every request/response shape through the real `RequestResponseMessageHandler`.
use fuel_core_p2p::{
    codecs::{postcard::PostcardCodec, request_response::RequestResponseMessageHandler},
    gossipsub::messages::GossipsubBroadcastRequest,
    p2p_service::FuelP2PEvent,
    peer_manager::PeerInfo,
    ports::{P2PPreConfirmationGossipData, P2pDb, TxPool},
    request_response::{
        messages::{RequestMessage, ResponseMessageErrorCode, ResponseSender, V2ResponseMessage},
        protocols::RequestResponseProtocol,
    },
    service::{Broadcast, Task, TaskP2PService},
    verif_hooks::{verif_inbound_request_id, InboundRequestId, RequestResponseCodec, VerifCachedView},
    PeerId,
};
use fuel_core_services::{RunnableTask, StateWatcher};
use fuel_core_storage::{transactional::AtomicView, Result as StorageResult};
use fuel_core_types::{
    blockchain::{
        consensus::{poa::PoAConsensus, Consensus, Genesis},
        header::BlockHeader,
        SealedBlockHeader,
    },
    fuel_crypto::Signature,
    fuel_tx::{Finalizable, Transaction, TransactionBuilder, TxId, UniqueIdentifier},
    fuel_types::{BlockHeight, ChainId},
    fuel_vm::checked_transaction::builder::TransactionBuilderExt,
    services::{
        p2p::{
            peer_reputation::AppScore, BlockHeightHeartbeatData, GossipsubMessageAcceptance, GossipsubMessageInfo,
            NetworkableTransactionPool, PeerId as FuelPeerId, TransactionGossipData, Transactions,
        },
        txpool::{Metadata, PoolTransaction},
    },
    tai64::Tai64,
};
use futures::future::BoxFuture;
use mcx::*;
use serde::{Deserialize, Serialize};
use serde_json::json;
use std::{
    collections::VecDeque,
    num::NonZeroU32,
    ops::Range,
    sync::{
        atomic::{AtomicU32, Ordering},
        Arc, OnceLock,
    },
};

// ---------------------------------------------------------------------------
// The harness chain: immutable blocks 0..len, distinct per height
// ---------------------------------------------------------------------------

const UNIVERSE: u32 = 9;

fn script_tx(h: u32, i: u32) -> Transaction {
    TransactionBuilder::script(vec![h as u8; (i % 3) as usize], vec![h as u8, i as u8, 0xaa])
        .max_fee_limit(0)
        .add_fee_input()
        .finalize()
        .into()
}

struct Chain {
    headers: Vec<SealedBlockHeader>,
    txs: Vec<Transactions>,
}

fn chain() -> &'static Chain {
    static C: OnceLock<Chain> = OnceLock::new();
    C.get_or_init(|| {
        let mut headers = vec![];
        let mut txs = vec![];
        for h in 0..UNIVERSE {
            let entity = BlockHeader::new_block(BlockHeight::from(h), Tai64(4_611_686_018_427_387_914 + h as u64));
            let consensus = if h == 0 {
                Consensus::Genesis(Genesis::default())
            } else {
                Consensus::PoA(PoAConsensus::new(Signature::from_bytes([h as u8; 64])))
            };
            headers.push(SealedBlockHeader { entity, consensus });
            // 0, 1 or 2 transactions per block, all distinct
            txs.push(Transactions((0..h % 3).map(|i| script_tx(h, i)).collect()));
        }
        Chain { headers, txs }
    })
}

/// `P2pDb` with the semantics of the node's adapter (`get_sealed_block_headers` /
/// `get_transactions_on_blocks`): `None` as soon as one height of the range is
/// missing, `Some(vec![])` for an empty range.
#[derive(Clone)]
pub struct Db {
    len: Arc<AtomicU32>,
}

impl Db {
    fn new(len: u32) -> Db {
        Db { len: Arc::new(AtomicU32::new(len)) }
    }
    fn len(&self) -> u32 {
        self.len.load(Ordering::SeqCst)
    }
    fn grow(&self) {
        self.len.fetch_add(1, Ordering::SeqCst);
    }
    fn range_of<T: Clone>(&self, items: &[T], range: Range<u32>) -> Option<Vec<T>> {
        let len = self.len();
        range.map(|h| if h < len { items.get(h as usize).cloned() } else { None }).collect()
    }
}

impl P2pDb for Db {
    fn get_sealed_headers(&self, range: Range<u32>) -> StorageResult<Option<Vec<SealedBlockHeader>>> {
        Ok(self.range_of(&chain().headers, range))
    }
    fn get_transactions(&self, range: Range<u32>) -> StorageResult<Option<Vec<Transactions>>> {
        Ok(self.range_of(&chain().txs, range))
    }
    fn get_genesis(&self) -> StorageResult<Genesis> {
        Ok(Genesis::default())
    }
}

impl AtomicView for Db {
    type LatestView = Db;
    fn latest_view(&self) -> StorageResult<Db> {
        Ok(self.clone())
    }
}

fn txs_eq(a: &[Transactions], b: &[Transactions]) -> bool {
    a.len() == b.len() && a.iter().zip(b).all(|(x, y)| x.0 == y.0)
}

fn short_h(v: &Option<Vec<SealedBlockHeader>>) -> String {
    match v {
        None => "None".into(),
        Some(v) => format!("{:?}", v.iter().map(|h| u32::from(*h.entity.height())).collect::<Vec<_>>()),
    }
}

fn short_t(v: &Option<Vec<Transactions>>) -> String {
    match v {
        None => "None".into(),
        Some(v) => format!("{:?}", v.iter().map(|t| t.0.iter().map(|tx| hex4(&tx.id(&ChainId::default()))).collect::<Vec<_>>()).collect::<Vec<_>>()),
    }
}

fn hex4(id: &TxId) -> String {
    id.iter().take(2).map(|b| format!("{b:02x}")).collect()
}

// ---------------------------------------------------------------------------
// (a) CachedView exploration
// ---------------------------------------------------------------------------

#[derive(Clone, Copy, Debug, PartialEq, Eq, Serialize, Deserialize)]
pub enum Kind {
    Headers,
    Txs,
}

#[derive(Clone, Debug, Serialize, Deserialize)]
pub enum COp {
    /// request the half-open height range a..b
    Request(u32, u32),
    /// the chain gets one more block
    Grow,
    /// the cache drops the entry of this height (a replacement decision)
    Evict(u32),
}

pub struct CacheWorld {
    view: VerifCachedView,
    db: Db,
}

pub struct CacheSubject {
    kind: Kind,
    capacity: usize,
    init_len: u32,
    max_len: u32,
}

impl CacheSubject {
    fn cached(&self, w: &CacheWorld) -> Vec<(u32, bool)> {
        // (height, entry equals the DB's block of that height)
        match self.kind {
            Kind::Headers => w
                .view
                .cached_headers(0..UNIVERSE + 2)
                .into_iter()
                .map(|(h, v)| (h, chain().headers.get(h as usize) == Some(&v)))
                .collect(),
            Kind::Txs => w
                .view
                .cached_transactions(0..UNIVERSE + 2)
                .into_iter()
                .map(|(h, v)| (h, chain().txs.get(h as usize).map(|t| t.0 == v.0).unwrap_or(false)))
                .collect(),
        }
    }
}

impl Subject for CacheSubject {
    type World = CacheWorld;
    type Op = COp;

    fn name(&self) -> String {
        format!("cached-view[{:?},capacity={},chain={}..={}]", self.kind, self.capacity, self.init_len, self.max_len)
    }

    fn fresh(&self) -> CacheWorld {
        CacheWorld { view: VerifCachedView::new(self.capacity), db: Db::new(self.init_len) }
    }

    fn enabled(&self, w: &CacheWorld) -> Vec<COp> {
        let mut v = vec![];
        let top = self.max_len + 1; // ranges may end one past the longest chain
        for a in 0..top {
            for b in a..=top {
                v.push(COp::Request(a, b));
            }
        }
        v.push(COp::Request(3, 1)); // reversed = empty
        if w.db.len() < self.max_len {
            v.push(COp::Grow);
        }
        for (h, _) in self.cached(w) {
            v.push(COp::Evict(h));
        }
        v
    }

    fn step(&self, w: &mut CacheWorld, op: &COp) -> Result<String, Violation> {
        match *op {
            COp::Grow => {
                w.db.grow();
                Ok(format!("len={}", w.db.len()))
            }
            COp::Evict(h) => {
                let was = w.view.evict(self.kind == Kind::Headers, h);
                Ok(format!("evicted={was}"))
            }
            COp::Request(a, b) => {
                #[allow(clippy::reversed_empty_ranges)]
                let range = a..b;
                let before: Vec<u32> = self.cached(w).into_iter().map(|(h, _)| h).collect();
                let (same, got, want) = match self.kind {
                    Kind::Headers => {
                        let want = w.db.get_sealed_headers(range.clone()).expect("harness db");
                        let got = w.view.get_sealed_headers(&w.db, range.clone()).map_err(|e| {
                            viol("cached-view-error", format!("get_sealed_headers({a}..{b}) failed: {e:?}, db answers {}", short_h(&want)))
                        })?;
                        (got == want, short_h(&got), short_h(&want))
                    }
                    Kind::Txs => {
                        let want = w.db.get_transactions(range.clone()).expect("harness db");
                        let got = w.view.get_transactions(&w.db, range.clone()).map_err(|e| {
                            viol("cached-view-error", format!("get_transactions({a}..{b}) failed: {e:?}, db answers {}", short_t(&want)))
                        })?;
                        let same = match (&got, &want) {
                            (None, None) => true,
                            (Some(x), Some(y)) => txs_eq(x, y),
                            _ => false,
                        };
                        (same, short_t(&got), short_t(&want))
                    }
                };
                if !same {
                    let class = match (got.as_str(), want.as_str()) {
                        ("None", _) => "served-nothing-db-has-data",
                        (_, "None") => "served-data-db-has-none",
                        _ => "served-differs-from-db",
                    };
                    return Err(viol(
                        class,
                        format!(
                            "{:?} request {a}..{b} with chain length {} and cached heights {before:?}: served {got}, database returns {want}",
                            self.kind,
                            w.db.len()
                        ),
                    ));
                }
                let hit = range.clone().filter(|h| before.contains(h)).count();
                Ok(format!("{got} cached_before={hit}/{}", range.len()))
            }
        }
    }

    fn canon(&self, w: &CacheWorld) -> Vec<u8> {
        // chain length + cache contents (which heights, and whether each entry is the right block).
        // The cache's internal replacement bookkeeping only decides WHICH entries disappear later;
        // every such outcome is covered by the explicit Evict letters.
        serde_json::to_vec(&(w.db.len(), self.cached(w))).unwrap()
    }

    fn interesting(&self, op: &COp, obs: &str) -> bool {
        match op {
            // a request that is answered at least partly from the cache
            COp::Request(..) => !obs.contains("cached_before=0/"),
            COp::Grow => true,
            COp::Evict(_) => true,
        }
    }

    fn required_labels(&self) -> Vec<String> {
        vec!["Request".into(), "Grow".into(), "Evict".into()]
    }
}

pub fn cache_subjects(thorough: bool) -> Vec<CacheSubject> {
    let mut v = vec![];
    for kind in [Kind::Headers, Kind::Txs] {
        let caps: &[usize] = if thorough { &[1, 2, 3, 4, 8] } else { &[1, 2, 4] };
        for &capacity in caps {
            let lens: &[(u32, u32)] = if thorough { &[(0, 8)] } else { &[(0, 6)] };
            for &(init_len, max_len) in lens {
                v.push(CacheSubject { kind, capacity, init_len, max_len });
            }
        }
    }
    v
}

// ---------------------------------------------------------------------------
// (b) request limits through the real Task::run loop
// ---------------------------------------------------------------------------

#[derive(Default)]
pub struct FakeP2p {
    queue: VecDeque<FuelP2PEvent>,
    responses: Vec<(InboundRequestId, V2ResponseMessage)>,
}

impl TaskP2PService for FakeP2p {
    fn get_all_peer_info(&self) -> Vec<(&PeerId, &PeerInfo)> {
        vec![]
    }
    fn get_peer_id_with_height(&self, _height: &BlockHeight) -> Option<PeerId> {
        None
    }
    fn next_event(&mut self) -> BoxFuture<'_, Option<FuelP2PEvent>> {
        // pop only when polled: a biased select may never reach this branch
        Box::pin(async move {
            match self.queue.pop_front() {
                Some(e) => Some(e),
                None => std::future::pending().await,
            }
        })
    }
    fn publish_message(&mut self, _message: GossipsubBroadcastRequest) -> anyhow::Result<()> {
        Ok(())
    }
    fn send_request_msg(&mut self, _peer_id: Option<PeerId>, _request_msg: RequestMessage, _on_response: ResponseSender) -> anyhow::Result<()> {
        Ok(())
    }
    fn send_response_msg(&mut self, request_id: InboundRequestId, message: V2ResponseMessage) -> anyhow::Result<()> {
        self.responses.push((request_id, message));
        Ok(())
    }
    fn report_message(&mut self, _message: GossipsubMessageInfo, _acceptance: GossipsubMessageAcceptance) -> anyhow::Result<()> {
        Ok(())
    }
    fn report_peer(&mut self, _peer_id: PeerId, _score: AppScore, _reporting_service: &str) -> anyhow::Result<()> {
        Ok(())
    }
    fn update_block_height(&mut self, _height: BlockHeight) -> anyhow::Result<()> {
        Ok(())
    }
    fn update_metrics<T>(&self, _update_fn: T)
    where
        T: FnOnce(),
    {
    }
}

pub struct NoBroadcast;
impl Broadcast for NoBroadcast {
    fn report_peer(&self, _peer_id: FuelPeerId, _report: AppScore, _reporting_service: &'static str) -> anyhow::Result<()> {
        Ok(())
    }
    fn block_height_broadcast(&self, _block_height_data: BlockHeightHeartbeatData) -> anyhow::Result<()> {
        Ok(())
    }
    fn tx_broadcast(&self, _transaction: TransactionGossipData) -> anyhow::Result<()> {
        Ok(())
    }
    fn pre_confirmation_broadcast(&self, _confirmations: P2PPreConfirmationGossipData) -> anyhow::Result<()> {
        Ok(())
    }
    fn new_tx_subscription_broadcast(&self, _peer_id: FuelPeerId) -> anyhow::Result<()> {
        Ok(())
    }
}

/// Pool holding transactions P0..P{n-1}; records the `max_ids` it was asked with.
#[derive(Clone)]
pub struct FakePool {
    asked_max: Arc<std::sync::Mutex<Vec<usize>>>,
}

fn pool_txs() -> &'static Vec<(TxId, Transaction)> {
    static P: OnceLock<Vec<(TxId, Transaction)>> = OnceLock::new();
    P.get_or_init(|| {
        (0..6u32)
            .map(|i| {
                let tx = script_tx(100 + i, i);
                (tx.id(&ChainId::default()), tx)
            })
            .collect()
    })
}

fn unknown_txid(i: usize) -> TxId {
    TxId::from([0xf0 | (i as u8 & 0xf); 32])
}

impl TxPool for FakePool {
    async fn get_tx_ids(&self, max_ids: usize) -> anyhow::Result<Vec<TxId>> {
        self.asked_max.lock().unwrap().push(max_ids);
        Ok(pool_txs().iter().take(max_ids).map(|(id, _)| *id).collect())
    }
    async fn get_full_txs(&self, tx_ids: Vec<TxId>) -> anyhow::Result<Vec<Option<NetworkableTransactionPool>>> {
        Ok(tx_ids
            .iter()
            .map(|id| pool_txs().iter().find(|(i, _)| i == id).map(|(_, tx)| NetworkableTransactionPool::Transaction(tx.clone())))
            .collect())
    }
}

type HTask = Task<FakeP2p, Db, NoBroadcast, FakePool>;

fn code_name(c: &ResponseMessageErrorCode) -> &'static str {
    match c {
        ResponseMessageErrorCode::ProtocolV1EmptyResponse => "ProtocolV1EmptyResponse",
        ResponseMessageErrorCode::RequestedRangeTooLarge => "RequestedRangeTooLarge",
        ResponseMessageErrorCode::Timeout => "Timeout",
        ResponseMessageErrorCode::SyncProcessorOutOfCapacity => "SyncProcessorOutOfCapacity",
        ResponseMessageErrorCode::Unknown => "Unknown",
    }
}

/// Feed one inbound request to the real task loop and return the response it sends.
fn serve(rt: &tokio::runtime::Runtime, task: &mut HTask, watcher: &mut StateWatcher, n: u64, req: RequestMessage) -> Result<V2ResponseMessage, String> {
    let id = verif_inbound_request_id(n);
    task.verif_p2p_service().queue.push_back(FuelP2PEvent::InboundRequestMessage { request_id: id, request_message: req });
    rt.block_on(async {
        for _ in 0..8 {
            let step = tokio::time::timeout(std::time::Duration::from_secs(10), task.run(watcher)).await;
            if step.is_err() {
                return Err("the task loop did not answer the request within 10 s".to_string());
            }
            let p2p = task.verif_p2p_service();
            if let Some(pos) = p2p.responses.iter().position(|(i, _)| *i == id) {
                let (_, m) = p2p.responses.remove(pos);
                if !p2p.responses.is_empty() {
                    return Err(format!("{} unexpected extra responses", p2p.responses.len()));
                }
                return Ok(m);
            }
        }
        Err("no response after 8 iterations of the task loop".to_string())
    })
}

fn limits_sweep(cli: &Cli) -> Sweep {
    let mut sw = Sweep::new(
        "request-limits (Task::run, process_request)",
        "for max_headers_per_request in {0,1,3,5} (+100 thorough) x max_txs_per_request in {0,1,3} (+10000 thorough) x chain length {2,6}: one real Task (inline processors, cache capacity 2) is fed, in order, SealedHeaders and Transactions requests for every range a..a+len with a in {0,1,4} and len in 0..=max+2, a reversed range, 0..u32::MAX and (u32::MAX-1)..u32::MAX, then TxPoolFullTransactions with 0..=max+2 ids (known and unknown) and TxPoolAllTransactionsIds; oracle: response is RequestedRangeTooLarge iff the length exceeds the limit, otherwise exactly the database/pool data (an error code other than RequestedRangeTooLarge when the database has a hole); non-trivial = requests within one of the limit (len >= max-1), distinct by (config, request)",
    );
    let rt = tokio::runtime::Builder::new_current_thread().enable_all().build().expect("runtime");
    // lengths around a limit: everything up to max+2 for small limits, the edges for the production-sized ones
    let around = |max: usize| -> Vec<usize> {
        if max <= 8 {
            (0..=max + 2).collect()
        } else {
            vec![0, 1, max - 1, max, max + 1, max + 2]
        }
    };
    let thorough = cli.tier == Tier::Thorough;
    let max_hs: &[usize] = if thorough { &[0, 1, 3, 5, 100] } else { &[0, 1, 3, 5] };
    let max_ts: &[usize] = if thorough { &[0, 1, 3, 10_000] } else { &[0, 1, 3] };
    for &max_h in max_hs {
        for &max_t in max_ts {
            for chain_len in [2u32, 6] {
                let db = Db::new(chain_len);
                let pool = FakePool { asked_max: Default::default() };
                let _g = rt.enter();
                let mut task: HTask = match Task::verif_new(FakeP2p::default(), db.clone(), pool.clone(), NoBroadcast, max_h, max_t, 2) {
                    Ok(t) => t,
                    Err(e) => machinery_failure(&format!("cannot build Task: {e}")),
                };
                drop(_g);
                let mut watcher = StateWatcher::started();
                let mut n = 0u64;
                let mut ranges: Vec<Range<u32>> = vec![];
                for a in [0u32, 1, 4] {
                    for len in around(max_h).into_iter().map(|l| l as u32) {
                        ranges.push(a..a + len);
                    }
                }
                #[allow(clippy::reversed_empty_ranges)]
                ranges.push(5..2);
                ranges.push(0..u32::MAX);
                ranges.push(u32::MAX - 1..u32::MAX);
                for headers in [true, false] {
                    for r in &ranges {
                        n += 1;
                        let req = if headers { RequestMessage::SealedHeaders(r.clone()) } else { RequestMessage::Transactions(r.clone()) };
                        let len = r.len();
                        let over = len > max_h;
                        let input = || json!({"max_headers": max_h, "max_txs": max_t, "chain_len": chain_len, "request": format!("{req:?}")});
                        let nontrivial = if len + 1 >= max_h { Some(hash_of(&(max_h, max_t, chain_len, headers, r.start, r.end))) } else { None };
                        let resp = match serve(&rt, &mut task, &mut watcher, n, req.clone()) {
                            Ok(m) => m,
                            Err(e) => {
                                sw.case(nontrivial, "no-response", input, Err(viol("no-response", format!("{req:?}: {e}"))));
                                continue;
                            }
                        };
                        // what the statement expects
                        let (class, res): (&str, Result<(), Violation>) = match (headers, &resp) {
                            (true, V2ResponseMessage::SealedHeaders(got)) => {
                                let want = db.get_sealed_headers(r.clone()).unwrap();
                                judge_range(over, len, max_h, got.as_ref().map(|v| v == want.as_ref().unwrap_or(&vec![]) && want.is_some()), got.as_ref().err(), want.is_some(), &format!("{req:?}"))
                            }
                            (false, V2ResponseMessage::Transactions(got)) => {
                                let want = db.get_transactions(r.clone()).unwrap();
                                judge_range(over, len, max_h, got.as_ref().map(|v| want.as_ref().map(|w| txs_eq(v, w)).unwrap_or(false)), got.as_ref().err(), want.is_some(), &format!("{req:?}"))
                            }
                            _ => ("wrong-kind", Err(viol("response-of-wrong-kind", format!("{req:?} answered with {resp:?}")))),
                        };
                        sw.case(nontrivial, class, input, res);
                    }
                }
                // transaction-id requests
                for count in around(max_t) {
                    for known in [true, false] {
                        n += 1;
                        let ids: Vec<TxId> = (0..count).map(|i| if known { pool_txs()[i % 6].0 } else { unknown_txid(i) }).collect();
                        let req = RequestMessage::TxPoolFullTransactions(ids.clone());
                        let over = count > max_t;
                        let input = || json!({"max_headers": max_h, "max_txs": max_t, "request": format!("TxPoolFullTransactions({count} ids, known={known})")});
                        let nontrivial = if count + 1 >= max_t { Some(hash_of(&(max_h, max_t, chain_len, count, known))) } else { None };
                        let resp = match serve(&rt, &mut task, &mut watcher, n, req) {
                            Ok(m) => m,
                            Err(e) => {
                                sw.case(nontrivial, "no-response", input, Err(viol("no-response", format!("TxPoolFullTransactions({count}): {e}"))));
                                continue;
                            }
                        };
                        let (class, res) = match &resp {
                            V2ResponseMessage::TxPoolFullTransactions(got) => {
                                let refused = matches!(got, Err(ResponseMessageErrorCode::RequestedRangeTooLarge));
                                if refused != over {
                                    (
                                        "limit-mismatch",
                                        Err(viol(
                                            if over { "over-limit-not-refused:tx-ids" } else { "within-limit-refused:tx-ids" },
                                            format!("{count} transaction ids requested, limit {max_t}: refused={refused}"),
                                        )),
                                    )
                                } else if over {
                                    ("refused", Ok(()))
                                } else {
                                    let want: Vec<Option<Transaction>> = ids.iter().map(|id| pool_txs().iter().find(|(i, _)| i == id).map(|(_, t)| t.clone())).collect();
                                    let same = match got {
                                        Ok(v) => {
                                            v.len() == want.len()
                                                && v.iter().zip(&want).all(|(g, w)| match (g, w) {
                                                    (None, None) => true,
                                                    (Some(NetworkableTransactionPool::Transaction(t)), Some(w)) => t == w,
                                                    _ => false,
                                                })
                                        }
                                        Err(_) => false,
                                    };
                                    if same {
                                        ("served", Ok(()))
                                    } else {
                                        ("served-wrong", Err(viol("served-differs-from-pool", format!("{count} ids (known={known}): got {got:?}"))))
                                    }
                                }
                            }
                            other => ("wrong-kind", Err(viol("response-of-wrong-kind", format!("TxPoolFullTransactions answered with {other:?}")))),
                        };
                        sw.case(nontrivial, class, input, res);
                    }
                }
                // all ids: the pool must not be asked for (nor the peer be sent) more than the limit
                n += 1;
                let input = || json!({"max_headers": max_h, "max_txs": max_t, "request": "TxPoolAllTransactionsIds"});
                match serve(&rt, &mut task, &mut watcher, n, RequestMessage::TxPoolAllTransactionsIds) {
                    Err(e) => sw.case(None, "no-response", input, Err(viol("no-response", format!("TxPoolAllTransactionsIds: {e}")))),
                    Ok(V2ResponseMessage::TxPoolAllTransactionsIds(Ok(ids))) => {
                        let want: Vec<TxId> = pool_txs().iter().take(max_t).map(|(i, _)| *i).collect();
                        let res = if ids.len() > max_t {
                            Err(viol("over-limit-served:all-tx-ids", format!("{} ids served, limit {max_t}", ids.len())))
                        } else if ids != want {
                            Err(viol("served-differs-from-pool", format!("ids served {ids:?}, pool returns {want:?}")))
                        } else {
                            Ok(())
                        };
                        sw.case(Some(hash_of(&(max_h, max_t, chain_len, "all"))), "served", input, res);
                    }
                    Ok(other) => sw.case(None, "wrong-kind", input, Err(viol("response-of-wrong-kind", format!("TxPoolAllTransactionsIds answered with {other:?}")))),
                }
                drop(task);
            }
        }
    }
    sw
}

/// `served_equal`: Ok(true/false) = data served and equal/unequal to the db; Err = an error code was sent.
fn judge_range(
    over: bool,
    len: usize,
    max: usize,
    served_equal: Result<bool, &ResponseMessageErrorCode>,
    code: Option<&ResponseMessageErrorCode>,
    db_has: bool,
    req: &str,
) -> (&'static str, Result<(), Violation>) {
    let refused = matches!(code, Some(ResponseMessageErrorCode::RequestedRangeTooLarge));
    if refused != over {
        return (
            "limit-mismatch",
            Err(viol(
                if over { "over-limit-not-refused:heights" } else { "within-limit-refused:heights" },
                format!("{req}: {len} heights requested, limit {max}: refused={refused} (error code {:?})", code.map(code_name)),
            )),
        );
    }
    if over {
        return ("refused", Ok(()));
    }
    match served_equal {
        Ok(true) => ("served", Ok(())),
        Ok(false) => ("served-wrong", Err(viol("served-differs-from-db", format!("{req}: served data differs from what the database returns (db has the range: {db_has})")))),
        Err(c) => {
            if db_has {
                ("error-but-db-has-data", Err(viol("served-nothing-db-has-data", format!("{req}: error {} although the database holds the whole range", code_name(c)))))
            } else {
                ("db-hole", Ok(()))
            }
        }
    }
}

// ---------------------------------------------------------------------------
// (c) codec round trips
// ---------------------------------------------------------------------------

fn pool_tx_arc() -> NetworkableTransactionPool {
    // what the node's TxPool adapter hands to the p2p service
    let checked = TransactionBuilder::script(vec![], vec![7, 7])
        .max_fee_limit(0)
        .add_fee_input()
        .finalize_checked_basic(BlockHeight::from(0));
    NetworkableTransactionPool::PoolTransaction(Arc::new(PoolTransaction::Script(checked, Metadata::new(0, 0, 0))))
}

fn as_plain(tx: &NetworkableTransactionPool) -> Transaction {
    match tx {
        NetworkableTransactionPool::Transaction(tx) => tx.clone(),
        NetworkableTransactionPool::PoolTransaction(p) => match p.as_ref() {
            PoolTransaction::Script(tx, _) => Transaction::Script(tx.transaction().clone()),
            PoolTransaction::Create(tx, _) => Transaction::Create(tx.transaction().clone()),
            PoolTransaction::Upgrade(tx, _) => Transaction::Upgrade(tx.transaction().clone()),
            PoolTransaction::Upload(tx, _) => Transaction::Upload(tx.transaction().clone()),
            PoolTransaction::Blob(tx, _) => Transaction::Blob(tx.transaction().clone()),
        },
    }
}

fn all_codes() -> Vec<ResponseMessageErrorCode> {
    vec![
        ResponseMessageErrorCode::ProtocolV1EmptyResponse,
        ResponseMessageErrorCode::RequestedRangeTooLarge,
        ResponseMessageErrorCode::Timeout,
        ResponseMessageErrorCode::SyncProcessorOutOfCapacity,
    ]
}

fn requests() -> Vec<RequestMessage> {
    let mut v = vec![];
    #[allow(clippy::reversed_empty_ranges)]
    let ranges = [0..0u32, 0..1, 2..6, 5..2, 0..u32::MAX, u32::MAX - 1..u32::MAX, 127..128, 128..16384];
    for r in &ranges {
        v.push(RequestMessage::SealedHeaders(r.clone()));
        v.push(RequestMessage::Transactions(r.clone()));
    }
    v.push(RequestMessage::TxPoolAllTransactionsIds);
    for n in [0usize, 1, 2, 3, 200] {
        v.push(RequestMessage::TxPoolFullTransactions((0..n).map(|i| TxId::from([i as u8; 32])).collect()));
    }
    v
}

fn responses() -> Vec<V2ResponseMessage> {
    let c = chain();
    let mut v = vec![];
    for n in 0..=2usize {
        v.push(V2ResponseMessage::SealedHeaders(Ok(c.headers[..n].to_vec())));
        v.push(V2ResponseMessage::SealedHeaders(Ok(c.headers[3..3 + n].to_vec())));
        // blocks 0,1,2 hold 0,1,2 transactions: empty lists, one-element and two-element lists
        v.push(V2ResponseMessage::Transactions(Ok(c.txs[..n].to_vec())));
        v.push(V2ResponseMessage::Transactions(Ok(c.txs[1..1 + n].to_vec())));
        v.push(V2ResponseMessage::Transactions(Ok(c.txs[5..5 + n].to_vec())));
        v.push(V2ResponseMessage::TxPoolAllTransactionsIds(Ok((0..n).map(|i| TxId::from([0x40 + i as u8; 32])).collect())));
    }
    let plain = |i: usize| Some(NetworkableTransactionPool::Transaction(pool_txs()[i].1.clone()));
    let shapes: Vec<Vec<Option<NetworkableTransactionPool>>> = vec![
        vec![],
        vec![None],
        vec![plain(0)],
        vec![Some(pool_tx_arc())],
        vec![None, None],
        vec![plain(1), None],
        vec![None, plain(2)],
        vec![plain(3), Some(pool_tx_arc())],
    ];
    for s in shapes {
        v.push(V2ResponseMessage::TxPoolFullTransactions(Ok(s)));
    }
    for code in all_codes() {
        v.push(V2ResponseMessage::SealedHeaders(Err(code.clone())));
        v.push(V2ResponseMessage::Transactions(Err(code.clone())));
        v.push(V2ResponseMessage::TxPoolAllTransactionsIds(Err(code.clone())));
        v.push(V2ResponseMessage::TxPoolFullTransactions(Err(code)));
    }
    v
}

/// Equality of responses (the type has no `PartialEq`). A pool transaction is
/// put on the wire as the transaction it wraps, so it compares by that.
fn resp_eq(a: &V2ResponseMessage, b: &V2ResponseMessage, v1: bool) -> bool {
    fn r<T>(a: &Result<T, ResponseMessageErrorCode>, b: &Result<T, ResponseMessageErrorCode>, v1: bool, eq: impl Fn(&T, &T) -> bool) -> bool {
        match (a, b) {
            (Ok(x), Ok(y)) => eq(x, y),
            // protocol V1 has no error codes: any error arrives as "empty response"
            (Err(_), Err(y)) if v1 => matches!(y, ResponseMessageErrorCode::ProtocolV1EmptyResponse),
            (Err(x), Err(y)) => code_name(x) == code_name(y),
            _ => false,
        }
    }
    match (a, b) {
        (V2ResponseMessage::SealedHeaders(x), V2ResponseMessage::SealedHeaders(y)) => r(x, y, v1, |p, q| p == q),
        (V2ResponseMessage::Transactions(x), V2ResponseMessage::Transactions(y)) => r(x, y, v1, |p, q| txs_eq(p, q)),
        (V2ResponseMessage::TxPoolAllTransactionsIds(x), V2ResponseMessage::TxPoolAllTransactionsIds(y)) => r(x, y, v1, |p, q| p == q),
        (V2ResponseMessage::TxPoolFullTransactions(x), V2ResponseMessage::TxPoolFullTransactions(y)) => r(x, y, v1, |p, q| {
            p.len() == q.len()
                && p.iter().zip(q).all(|(g, w)| match (g, w) {
                    (None, None) => true,
                    (Some(g), Some(w)) => as_plain(g) == as_plain(w),
                    _ => false,
                })
        }),
        _ => false,
    }
}

fn block<F: std::future::Future>(f: F) -> F::Output {
    futures::executor::block_on(f)
}

fn codec_sweep() -> Sweep {
    let mut sw = Sweep::new(
        "request-response codec round trip",
        "every RequestMessage shape (both range variants over 8 ranges incl. empty/reversed/u32::MAX/varint edges, TxPoolAllTransactionsIds, TxPoolFullTransactions with 0,1,2,3,200 ids) and every V2ResponseMessage shape (4 variants x Ok with 0/1/2 items incl. empty and non-empty transaction lists, None/plain/pool transactions, x each of the 4 sendable error codes), under protocol V1 and V2, written by the real RequestResponseMessageHandler<PostcardCodec> into memory and read back with size limit in {L-1, L/2, 1 (too small), L, L+1, 16 MiB (fits)} where L is the encoded size; oracle: limit >= L => decoded == original (V1 maps any error code to ProtocolV1EmptyResponse, pool transactions arrive as the transaction they wrap); limit < L => read fails; the unsendable code Unknown must fail to encode; non-trivial = every case, distinct by (message, protocol, limit class)",
    );
    let protos = [(RequestResponseProtocol::V1, true), (RequestResponseProtocol::V2, false)];
    let limits = |l: usize| -> Vec<(u32, bool, &'static str)> {
        let mut v = vec![(l as u32, true, "L"), (l as u32 + 1, true, "L+1"), (16 * 1024 * 1024, true, "16MiB")];
        if l >= 2 {
            v.push((l as u32 - 1, false, "L-1"));
        }
        if l >= 4 {
            v.push((l as u32 / 2, false, "L/2"));
        }
        if l >= 3 {
            v.push((1, false, "1"));
        }
        v
    };
    for (mi, req) in requests().into_iter().enumerate() {
        for (proto, _v1) in &protos {
            let mut writer = RequestResponseMessageHandler::<PostcardCodec>::new(NonZeroU32::new(1).unwrap());
            let mut buf: Vec<u8> = vec![];
            let input_w = || json!({"message": format!("{req:?}").chars().take(120).collect::<String>(), "protocol": proto.as_ref()});
            if let Err(e) = block(writer.write_request(proto, &mut buf, req.clone())) {
                sw.case(None, "encode-error", input_w, Err(viol("request-encode-failed", format!("{req:?}: {e}"))));
                continue;
            }
            for (limit, fits, lname) in limits(buf.len()) {
                let mut reader = RequestResponseMessageHandler::<PostcardCodec>::new(NonZeroU32::new(limit).unwrap());
                let got = block(reader.read_request(proto, &mut buf.as_slice()));
                let input = || json!({"message": format!("{req:?}").chars().take(120).collect::<String>(), "protocol": proto.as_ref(), "encoded_len": buf.len(), "limit": limit});
                let nt = Some(hash_of(&("req", mi, proto.as_ref(), lname)));
                let (class, res) = match (fits, got) {
                    (true, Ok(m)) if m == req => ("request-roundtrip", Ok(())),
                    (true, Ok(m)) => ("request-changed", Err(viol("request-changed-by-codec", format!("sent {req:?}, received {m:?} ({})", proto.as_ref())))),
                    (true, Err(e)) => ("request-lost", Err(viol("request-within-limit-rejected", format!("{req:?} ({} bytes, limit {limit}, {}): {e}", buf.len(), proto.as_ref())))),
                    (false, Err(_)) => ("request-oversize-rejected", Ok(())),
                    (false, Ok(m)) => ("request-oversize-accepted", Err(viol("oversize-accepted:request", format!("{} bytes with limit {limit} decoded to {m:?}", buf.len())))),
                };
                sw.case(nt, class, input, res);
            }
        }
    }
    for (mi, resp) in responses().into_iter().enumerate() {
        for (proto, v1) in &protos {
            let mut writer = RequestResponseMessageHandler::<PostcardCodec>::new(NonZeroU32::new(1).unwrap());
            let mut buf: Vec<u8> = vec![];
            let shown = || format!("{resp:?}").chars().take(160).collect::<String>();
            if let Err(e) = block(writer.write_response(proto, &mut buf, resp.clone())) {
                sw.case(None, "encode-error", || json!({"message": shown(), "protocol": proto.as_ref()}), Err(viol("response-encode-failed", format!("{}: {e}", shown()))));
                continue;
            }
            for (limit, fits, lname) in limits(buf.len()) {
                let mut reader = RequestResponseMessageHandler::<PostcardCodec>::new(NonZeroU32::new(limit).unwrap());
                let got = block(reader.read_response(proto, &mut buf.as_slice()));
                let input = || json!({"message": shown(), "protocol": proto.as_ref(), "encoded_len": buf.len(), "limit": limit});
                let nt = Some(hash_of(&("resp", mi, proto.as_ref(), lname)));
                let (class, res) = match (fits, got) {
                    (true, Ok(m)) if resp_eq(&resp, &m, *v1) => ("response-roundtrip", Ok(())),
                    (true, Ok(m)) => (
                        "response-changed",
                        Err(viol("response-changed-by-codec", format!("sent {}, received {} ({})", shown(), format!("{m:?}").chars().take(160).collect::<String>(), proto.as_ref()))),
                    ),
                    (true, Err(e)) => ("response-lost", Err(viol("response-within-limit-rejected", format!("{} ({} bytes, limit {limit}, {}): {e}", shown(), buf.len(), proto.as_ref())))),
                    (false, Err(_)) => ("response-oversize-rejected", Ok(())),
                    (false, Ok(m)) => (
                        "response-oversize-accepted",
                        Err(viol("oversize-accepted:response", format!("{} bytes with limit {limit} decoded to {}", buf.len(), format!("{m:?}").chars().take(120).collect::<String>()))),
                    ),
                };
                sw.case(nt, class, input, res);
            }
        }
    }
    // the receive-only code must not be sendable under V2 (under V1 codes are dropped anyway)
    {
        let mut writer = RequestResponseMessageHandler::<PostcardCodec>::new(NonZeroU32::new(1).unwrap());
        let mut buf: Vec<u8> = vec![];
        let r = block(writer.write_response(&RequestResponseProtocol::V2, &mut buf, V2ResponseMessage::SealedHeaders(Err(ResponseMessageErrorCode::Unknown))));
        // not part of the statement (Unknown is never produced by the node): recorded, never a violation
        sw.case(None, if r.is_err() { "unknown-code-not-encodable" } else { "unknown-code-encodable" }, || json!({"message": "SealedHeaders(Err(Unknown))"}), Ok(()));
    }
    sw
}

// ---------------------------------------------------------------------------

pub fn run(cli: &Cli) {
    let thorough = cli.tier == Tier::Thorough;
    let subs = cache_subjects(thorough);
    if let Some(path) = &cli.replay {
        let rf = load_replay(path);
        for t in [false, true] {
            for s in cache_subjects(t) {
                if s.name() == rf.subject {
                    replay_and_exit(&s, &rf);
                }
            }
        }
        // sweep cases: re-run the sweeps and report whether the signature still occurs
        let mut hit = false;
        for sw in [limits_sweep(cli), codec_sweep()] {
            for v in &sw.violations {
                if v.sig == rf.signature {
                    println!("replay: {} still occurs: {}", v.sig, v.msg);
                    hit = true;
                }
            }
        }
        if hit {
            println!("VIOLATION property=C32 replay=(replayed)");
            std::process::exit(1);
        }
        println!("replay: signature {} does not occur on this tree", rf.signature);
        std::process::exit(0);
    }
    let mut run = Run::new(cli, "model_checking");
    // The abstract state space (chain length x cache contents) is finite: the search runs until
    // the frontier is empty, the depth bound is only a safety net.
    let depth = cli.tier.pick(24, 40);
    let mut closed = vec![];
    for s in &subs {
        let b = Bounds::new(depth, cli).wall(cli.tier.pick(40, 1300));
        let r = explore(s, &b);
        closed.push(json!({"subject": r.subject, "state_space_closed": r.exhaustive && r.frontier_sizes.len() < depth, "bfs_levels": r.frontier_sizes.len()}));
        run.add(r);
    }
    run.note("cached_view_fixpoints", json!(closed));
    run.add_sweep(limits_sweep(cli));
    run.add_sweep(codec_sweep());
    run.assume("harness P2pDb has the semantics of the node's adapter: None as soon as one height of the range is missing, Some([]) for an empty range; blocks are immutable, the chain only grows");
    run.assume("cache replacement decisions are over-approximated by explicit Evict letters (any cached entry may disappear at any time); state = chain length + cache contents");
    run.assume("request limits are exercised through the real Task::run loop with inline (zero-thread) processors; heights limit = max_headers_per_request for both SealedHeaders and Transactions requests (as the code configures it)");
    run.assume("codec: protocol V1 cannot carry error codes (any error arrives as ProtocolV1EmptyResponse) and pool transactions are sent as the transaction they wrap; both are treated as 'unchanged'");
    run.finish();
}
