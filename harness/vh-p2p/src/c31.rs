//! C31 — peer slots and reputation.
//!
//! Real code driven: `PeerManager` (all public handlers), `ConnectionState`
//! (through the `SeqLock` it is shared by), and the connection-admission
//! component `ConnectionTracker::allow_peer` built by the real
//! `build_transport_function` (hook `VerifAdmissionGate`), wired together the
//! way `FuelP2PService::new` wires them.
use fuel_core_p2p::{
    config::Config,
    peer_manager::{ConnectionState, PeerManager, Punisher},
    verif_hooks::VerifAdmissionGate,
    Multiaddr, PeerId,
};
use fuel_core_types::services::p2p::peer_reputation::MAX_APP_SCORE;
use mcx::*;
use serde::{Deserialize, Serialize};
use serde_json::json;
use std::collections::{BTreeMap, BTreeSet};

/// Peer universe: index 0 = reserved R1, 1..=3 = non-reserved N1..N3.
/// Index 4 (N4) never connects; it is the "brand-new peer" used to probe the gate.
const RESERVED: u8 = 0;
const PEERS: [u8; 4] = [0, 1, 2, 3];
const PROBE: u8 = 4;

fn pid(i: u8) -> PeerId {
    // sha2-256 multihash (0x12, len 0x20) over a fixed digest: a valid, deterministic PeerId
    let mut b = vec![0x12u8, 0x20];
    b.extend([i.wrapping_add(1).wrapping_mul(17); 32]);
    PeerId::from_bytes(&b).expect("valid multihash")
}

fn pname(i: u8) -> String {
    if i == RESERVED {
        "R1".into()
    } else {
        format!("N{i}")
    }
}

#[derive(Clone, Copy, Debug, Serialize, Deserialize, PartialEq, Eq)]
pub enum Score {
    PlusBig,
    PlusSmall,
    MinusSmall,
    MinusBig,
}

impl Score {
    fn value(self) -> f64 {
        match self {
            Score::PlusBig => 200.0,   // alone exceeds MAX_APP_SCORE (150)
            Score::PlusSmall => 60.0,  // three of them exceed the maximum
            Score::MinusSmall => -30.0, // two of them cross MIN_APP_SCORE (-50)
            Score::MinusBig => -400.0, // alone crosses the minimum from any score
        }
    }
}

#[derive(Clone, Debug, Serialize, Deserialize)]
pub enum Op {
    /// Handshake (admission gate) and, if it passes, the `PeerConnected` event.
    Connect(u8),
    /// `PeerConnected` for a peer whose handshake passed earlier (while the gate
    /// was open): the manager's own admission decision, without asking the gate now.
    ConnectRaced(u8),
    /// `PeerDisconnected` (last connection closed) — also delivered for peers the
    /// manager refused, as the swarm does.
    Disconnect(u8),
    Identify(u8),
    Heartbeat(u8),
    AppScore(u8, Score),
    /// gossipsub score report: `true` = below the ban threshold, `false` = fine
    Gossip(u8, bool),
    Decay,
}

struct Bans(Vec<PeerId>);
impl Punisher for Bans {
    fn ban_peer(&mut self, peer_id: PeerId) {
        self.0.push(peer_id);
    }
}

#[derive(Default, Clone)]
struct Model {
    /// non-reserved peers the manager should hold
    connected: BTreeSet<u8>,
    reserved_connected: bool,
    /// the pool has been full and a connected peer left since (cleared when full again)
    left_full_by_disconnect: bool,
}

pub struct World {
    pm: PeerManager,
    gate: VerifAdmissionGate,
    model: Model,
    heights: u32,
}

pub struct SlotSubject {
    pub max: usize,
    max_cfg: usize,
    /// built once through the real `build_transport_function`; every world gets a copy bound to its own ConnectionState
    gate_proto: VerifAdmissionGate,
    /// offer the reputation letters (score / gossip / decay)
    pub with_scores: bool,
}

impl SlotSubject {
    pub fn new(max: usize, with_scores: bool) -> SlotSubject {
        let mut config = Config::default_initialized("verif");
        config.max_discovery_peers_connected = max as u32;
        let r1: Multiaddr = format!("/ip4/127.0.0.1/tcp/30333/p2p/{}", pid(RESERVED)).parse().expect("multiaddr");
        config.reserved_nodes = vec![r1];
        config.reserved_nodes_only_mode = false;
        let (_w, reader) = ConnectionState::new();
        let gate_proto = VerifAdmissionGate::new(&config, reader);
        let max_cfg = usize::try_from(config.max_discovery_peers_connected).expect("usize");
        SlotSubject { max, max_cfg, gate_proto, with_scores }
    }

    fn slot_free(&self, m: &Model) -> bool {
        m.connected.len() < self.max
    }

    /// Real state as the property sees it: (non-reserved connected with scores, reserved connected with scores).
    fn real_view(&self, w: &World) -> (BTreeMap<u8, u64>, BTreeMap<u8, u64>) {
        let mut nr = BTreeMap::new();
        let mut rs = BTreeMap::new();
        for i in PEERS.iter().copied().chain([PROBE]) {
            if let Some(info) = w.pm.get_peer_info(&pid(i)) {
                if w.pm.is_reserved(&pid(i)) {
                    rs.insert(i, info.score.to_bits());
                } else {
                    nr.insert(i, info.score.to_bits());
                }
            }
        }
        (nr, rs)
    }

    /// Invariants of the statement that must hold in every reached state.
    fn check_state(&self, w: &World) -> Result<(), Violation> {
        let (nr, rs) = self.real_view(w);
        let total = w.pm.total_peers_connected();
        let listed = w.pm.get_all_peers().count();
        if listed != total || nr.len() + rs.len() != total {
            return Err(viol(
                "peer-tables-inconsistent",
                format!("manager counts {total} connected peers (lists {listed}) but get_peer_info finds {} of the universe", nr.len() + rs.len()),
            ));
        }
        // (1) never more non-reserved peers than the limit
        if nr.len() > self.max {
            return Err(viol(
                "non-reserved-over-limit",
                format!("{} non-reserved peers connected, limit {}", nr.len(), self.max),
            ));
        }
        // the manager holds exactly the peers that were admitted while a slot was free
        let real_set: BTreeSet<u8> = nr.keys().copied().collect();
        if real_set != w.model.connected {
            return Err(viol(
                "connected-set-differs",
                format!("manager holds non-reserved {:?}, expected {:?}", real_set, w.model.connected),
            ));
        }
        if rs.contains_key(&RESERVED) != w.model.reserved_connected {
            return Err(viol(
                "reserved-set-differs",
                format!("reserved connected: manager {}, expected {}", rs.contains_key(&RESERVED), w.model.reserved_connected),
            ));
        }
        // (4) no reputation above the maximum
        for (i, bits) in nr.iter().chain(rs.iter()) {
            let s = f64::from_bits(*bits);
            if !(s <= MAX_APP_SCORE) {
                return Err(viol("score-above-max", format!("{} has score {s} > {MAX_APP_SCORE}", pname(*i))));
            }
        }
        // (3) reserved peers always pass the admission gate
        if !w.gate.allow_peer(&pid(RESERVED)) {
            return Err(viol("reserved-not-admitted:gate", "allow_peer(reserved) = false".to_string()));
        }
        // (2) a free slot means a new non-reserved peer can get in: the gate must be open for
        // every non-reserved peer that is not connected yet (connected ones do not need a slot)
        if self.slot_free(&w.model) {
            for i in [1u8, 2, 3, PROBE] {
                if !w.model.connected.contains(&i) && !w.gate.allow_peer(&pid(i)) {
                    let class = if w.model.left_full_by_disconnect { "after-disconnect-when-full" } else { "other" };
                    return Err(viol(
                        format!("slot-free-but-not-admitted:{class}"),
                        format!(
                            "{} of {} slots used, but ConnectionTracker::allow_peer({}) = false: a new non-reserved peer is turned away although a slot is free",
                            w.model.connected.len(),
                            self.max,
                            pname(i)
                        ),
                    ));
                }
            }
        }
        Ok(())
    }

    fn gate_open_for_new(&self, w: &World) -> bool {
        w.gate.allow_peer(&pid(PROBE))
    }
}

impl Subject for SlotSubject {
    type World = World;
    type Op = Op;

    fn name(&self) -> String {
        format!("peer-manager[max_non_reserved={},scores={}]", self.max, self.with_scores)
    }

    fn fresh(&self) -> World {
        // the wiring of FuelP2PService::new
        let (writer, reader) = ConnectionState::new();
        let gate = self.gate_proto.with_reader(reader);
        let (tx, _) = tokio::sync::broadcast::channel(4);
        let reserved = [pid(RESERVED)].into_iter().collect();
        let pm = PeerManager::new(tx, reserved, writer, self.max_cfg);
        World { pm, gate, model: Model::default(), heights: 0 }
    }

    fn enabled(&self, _w: &World) -> Vec<Op> {
        let mut v = vec![];
        for p in PEERS {
            v.push(Op::Connect(p));
        }
        for p in PEERS {
            v.push(Op::Disconnect(p));
        }
        for p in PEERS {
            v.push(Op::ConnectRaced(p));
        }
        if self.with_scores {
            for p in PEERS {
                for s in [Score::PlusBig, Score::PlusSmall, Score::MinusSmall, Score::MinusBig] {
                    v.push(Op::AppScore(p, s));
                }
            }
            for p in PEERS {
                v.push(Op::Gossip(p, true));
                v.push(Op::Gossip(p, false));
            }
            v.push(Op::Decay);
        }
        for p in PEERS {
            v.push(Op::Identify(p));
            v.push(Op::Heartbeat(p));
        }
        v
    }

    fn deviation(&self, op: &Op) -> u32 {
        matches!(op, Op::ConnectRaced(_)) as u32
    }

    fn step(&self, w: &mut World, op: &Op) -> Result<String, Violation> {
        let mut bans = Bans(vec![]);
        let obs = match *op {
            Op::Connect(p) | Op::ConnectRaced(p) => {
                let raced = matches!(op, Op::ConnectRaced(_));
                let id = pid(p);
                let reserved = p == RESERVED;
                let already = if reserved { w.model.reserved_connected } else { w.model.connected.contains(&p) };
                let free = self.slot_free(&w.model);
                let gate = if raced { true } else { w.gate.allow_peer(&id) };
                // without a passed handshake there is no connection and no event
                let refused = if gate { w.pm.handle_peer_connected(&id) } else { false };
                let admitted = gate && !refused;
                if reserved {
                    if !admitted {
                        return Err(viol(
                            "reserved-not-admitted",
                            format!("reserved peer R1: gate={gate}, handle_peer_connected asked to disconnect={refused}"),
                        ));
                    }
                    w.model.reserved_connected = true;
                } else if already {
                    // a further connection of a peer that already holds a slot: nothing is stated
                    // about it except that the counts stay right (checked below)
                    if refused {
                        // the swarm would now close every connection of the peer
                    }
                } else {
                    if admitted != free {
                        return Err(if free {
                            let class = if !gate {
                                if w.model.left_full_by_disconnect { "after-disconnect-when-full" } else { "other" }
                            } else {
                                "refused-by-manager"
                            };
                            viol(
                                format!("slot-free-but-not-admitted:{class}"),
                                format!(
                                    "{} of {} slots used, {} connects: gate={gate}, manager asked to disconnect={refused}",
                                    w.model.connected.len(),
                                    self.max,
                                    pname(p)
                                ),
                            )
                        } else {
                            viol(
                                "admitted-without-free-slot",
                                format!("all {} slots used, but {} was admitted (gate={gate}, refused={refused})", self.max, pname(p)),
                            )
                        });
                    }
                    if admitted {
                        w.model.connected.insert(p);
                        if w.model.connected.len() == self.max {
                            w.model.left_full_by_disconnect = false;
                        }
                    }
                }
                format!("gate={gate} refused={refused} free={free} already={already}")
            }
            Op::Disconnect(p) => {
                let id = pid(p);
                let reconnect = w.pm.handle_peer_disconnect(id);
                if p == RESERVED {
                    w.model.reserved_connected = false;
                } else {
                    let was_full = w.model.connected.len() == self.max;
                    if w.model.connected.remove(&p) && was_full {
                        w.model.left_full_by_disconnect = true;
                    }
                }
                format!("reconnect={reconnect}")
            }
            Op::Identify(p) => {
                let addr: Multiaddr = "/ip4/10.0.0.1/tcp/4000".parse().expect("addr");
                w.pm.handle_peer_identified(&pid(p), vec![addr], "fuel-core-verif".to_string());
                "identified".to_string()
            }
            Op::Heartbeat(p) => {
                w.heights += 1;
                w.pm.handle_peer_info_updated(&pid(p), w.heights.into());
                "heartbeat".to_string()
            }
            Op::AppScore(p, s) => {
                w.pm.update_app_score(pid(p), s.value(), "verif", &mut bans);
                let score = w.pm.get_peer_info(&pid(p)).map(|i| i.score);
                format!("score={score:?}")
            }
            Op::Gossip(p, low) => {
                let score = if low { fuel_core_p2p::gossipsub_config::GRAYLIST_THRESHOLD - 1.0 } else { 0.0 };
                w.pm.handle_gossip_score_update(pid(p), score, &mut bans);
                "gossip".to_string()
            }
            Op::Decay => {
                w.pm.batch_update_score_with_decay();
                "decay".to_string()
            }
        };
        // (3) reserved peers are never banned because of reputation
        if bans.0.contains(&pid(RESERVED)) {
            return Err(viol("reserved-banned", format!("ban_peer(R1) called by {op:?}")));
        }
        self.check_state(w)?;
        let banned: Vec<String> = (0..=PROBE).filter(|i| bans.0.contains(&pid(*i))).map(pname).collect();
        Ok(format!(
            "{obs} banned={banned:?} n={} gate_new={}",
            w.model.connected.len(),
            self.gate_open_for_new(w)
        ))
    }

    fn canon(&self, w: &World) -> Vec<u8> {
        // Everything later behaviour can depend on: the connected tables with scores, the
        // shared ConnectionState (read through the gate), and the model's witness flag.
        // Identify data and heartbeat history are written but never read by the slot,
        // admission or reputation handlers, so they are left out.
        let (nr, rs) = self.real_view(w);
        let gates: Vec<bool> = (0..=PROBE).map(|i| w.gate.allow_peer(&pid(i))).collect();
        serde_json::to_vec(&(nr, rs, gates, &w.model.connected, w.model.reserved_connected, w.model.left_full_by_disconnect)).unwrap()
    }

    fn label(&self, op: &Op) -> String {
        match op {
            Op::Connect(p) if *p == RESERVED => "ConnectReserved".into(),
            Op::Connect(_) => "Connect".into(),
            Op::ConnectRaced(_) => "ConnectRaced".into(),
            Op::Disconnect(_) => "Disconnect".into(),
            Op::Identify(_) => "Identify".into(),
            Op::Heartbeat(_) => "Heartbeat".into(),
            Op::AppScore(p, _) if *p == RESERVED => "AppScoreReserved".into(),
            Op::AppScore(..) => "AppScore".into(),
            Op::Gossip(p, _) if *p == RESERVED => "GossipReserved".into(),
            Op::Gossip(..) => "Gossip".into(),
            Op::Decay => "Decay".into(),
        }
    }

    fn interesting(&self, op: &Op, obs: &str) -> bool {
        match op {
            // the pool is full / a peer is turned away / a ban happened / a score is clamped
            Op::Connect(_) | Op::ConnectRaced(_) => obs.contains("free=false") || obs.contains("gate_new=false"),
            Op::Disconnect(_) => obs.contains("gate_new=false") || obs.contains("reconnect=true"),
            Op::AppScore(..) | Op::Gossip(..) => !obs.contains("banned=[]") || obs.contains("score=Some(150.0)"),
            Op::Decay => true,
            _ => false,
        }
    }

    fn required_labels(&self) -> Vec<String> {
        let mut v: Vec<String> = ["Connect", "ConnectReserved", "Disconnect", "ConnectRaced"].iter().map(|s| s.to_string()).collect();
        if self.with_scores {
            v.extend(["AppScore", "AppScoreReserved", "Gossip", "GossipReserved", "Decay"].iter().map(|s| s.to_string()));
        }
        v
    }
}

pub fn subjects() -> Vec<SlotSubject> {
    let mut v = vec![];
    for max in [0usize, 1, 2] {
        v.push(SlotSubject::new(max, true));
    }
    v
}

pub fn run(cli: &Cli) {
    let subs = subjects();
    if let Some(path) = &cli.replay {
        let rf = load_replay(path);
        for s in &subs {
            if s.name() == rf.subject {
                replay_and_exit(s, &rf);
            }
        }
        machinery_failure("replay: unknown subject");
    }
    let mut run = Run::new(cli, "model_checking");
    let depth = cli.tier.pick(6, 9);
    for s in &subs {
        let b = Bounds::new(depth, cli).deviations(cli.tier.pick(1, 2)).wall(cli.tier.pick(40, 1200));
        let r = explore(s, &b);
        if r.violations.is_empty() && r.exhaustive {
            // independent re-run on one thread at a smaller depth: counts must agree with a
            // parallel run at that depth (cross-check of the parallel search)
            let d = depth - 2;
            let mut b1 = Bounds::new(d, cli).deviations(cli.tier.pick(1, 2)).wall(60);
            let rp = explore(s, &b1);
            b1.threads = 1;
            let r1 = explore(s, &b1);
            if (r1.states, r1.transitions) != (rp.states, rp.transitions) || !r1.exhaustive || !rp.exhaustive {
                machinery_failure(&format!(
                    "{}: single-threaded re-run at depth {d} disagrees: states {} vs {}, transitions {} vs {}",
                    s.name(),
                    r1.states,
                    rp.states,
                    r1.transitions,
                    rp.transitions
                ));
            }
        }
        run.add(r);
    }
    run.note(
        "peers",
        json!({"reserved": ["R1"], "non_reserved": ["N1", "N2", "N3"], "probe_only": ["N4"], "max_non_reserved": [0, 1, 2]}),
    );
    run.assume("admission of a new non-reserved peer = handshake gate (ConnectionTracker::allow_peer) passes AND PeerManager::handle_peer_connected does not ask to disconnect; a gate that is open while no slot is free is not counted as admission because the manager then refuses the peer");
    run.assume("in every reached state with a free slot the gate must be open for every non-connected non-reserved peer (otherwise the peer cannot be admitted although a slot is free)");
    run.assume("ConnectRaced = PeerConnected event of a handshake that passed earlier (gate not consulted now); budgeted as a deviation");
    run.assume("scores are finite f64 reports {+200,+60,-30,-400}; gossip scores {threshold-1, 0}; reserved_nodes_only_mode = false");
    run.finish();
}
