//! vh-p2p — C31 (peer slots and reputation) and C32 (serving peers: cached
//! view, request limits, codec) on the real `fuel-core-p2p` crate.
mod c31;
mod c32;

fn main() {
    let cli = mcx::Cli::parse();
    match cli.property.as_str() {
        "C31" => c31::run(&cli),
        "C32" => c32::run(&cli),
        other => mcx::machinery_failure(&format!("vh-p2p does not serve {other}")),
    }
}
