//! C34 (gas price bounds / rate) and C35 (worst-case estimate) on the real
//! `fuel-gas-price-algorithm` crate.
use fuel_gas_price_algorithm::{
    cumulative_percentage_change,
    v1::{AlgorithmUpdaterV1, L2ActivityTracker},
};
use mcx::*;
use serde::{Deserialize, Serialize};
use serde_json::json;
use std::collections::BTreeMap;
use std::num::NonZeroU64;

fn main() {
    let cli = Cli::parse();
    match cli.property.as_str() {
        "C34" => c34(&cli),
        "C35" => c35(&cli),
        other => machinery_failure(&format!("vh-gas does not serve {other}")),
    }
}

// ---------------------------------------------------------------------------
// C35
// ---------------------------------------------------------------------------

/// Reference: apply the maximal per-block increase, integer rounding down,
/// once per block (saturating at u64::MAX).
fn compounded(price: u64, pct: u64, blocks: u32) -> u64 {
    let mut p = price as u128;
    for _ in 0..blocks {
        let inc = p * pct as u128 / 100;
        p += inc;
        if p >= u64::MAX as u128 {
            return u64::MAX;
        }
        if inc == 0 {
            break; // fixed point: nothing changes any more
        }
    }
    p as u64
}

fn c35_prices() -> Vec<u64> {
    let p53 = 1u64 << 53;
    vec![
        0,
        1,
        2,
        3,
        7,
        99,
        100,
        101,
        1_000,
        1_000_000_000,
        p53 - 1,
        p53,
        p53 + 1,
        p53 + 3,
        10_000_000_000_000_001,
        16948547188989276,
        16948547188989277,
        16948547188989278,
        (1u64 << 62) + 1,
        u64::MAX / 2,
        u64::MAX - 1,
        u64::MAX,
    ]
}

fn c35(cli: &Cli) {
    if cli.replay.is_some() {
        let rf = load_replay(cli.replay.as_ref().unwrap());
        let h = &rf.history;
        let price = h["price"].as_u64().unwrap();
        let pct = h["pct"].as_u64().unwrap();
        let horizon = h["horizon"].as_u64().unwrap() as u32;
        let r = guarded(|| cumulative_percentage_change(price, 0, pct, horizon));
        println!("replay: cumulative_percentage_change({price}, 0, {pct}, {horizon}) = {r:?}; compounded reference = {}", compounded(price, pct, horizon));
        let bad = match r {
            Err(_) => true,
            Ok(v) => v < compounded(price, pct, horizon),
        };
        if bad {
            println!("VIOLATION property=C35 replay=(replayed)");
            std::process::exit(1);
        }
        std::process::exit(0);
    }
    let mut run = Run::new(cli, "exploration");
    let prices = c35_prices();
    let grid_max: u32 = cli.tier.pick(40, 64);
    let edge_h: Vec<u32> = vec![100, 1000, 10_000, 1_000_000, u32::MAX];
    let edge_p: Vec<u64> = vec![100, 1000, u16::MAX as u64];

    // (a) the raw function over the table region, both of its edges and beyond
    let pcts: Vec<u64> = (0..=grid_max as u64).chain(edge_p.iter().copied()).collect();
    let sw = par_sweep(
        "cumulative_percentage_change",
        "every (price in 22-value edge list) x (percentage 0..=grid and edges) x (horizon 0..=grid and edges), for_height 0 and one shifted base; non-trivial = price>0, pct>0, horizon>0 (the estimate really compounds); distinct by (price,pct,horizon)",
        pcts.len(),
        cli.threads,
        |pi, sw| {
            let pct = pcts[pi];
            for &price in &prices {
                let mut prev: Option<(u32, u64)> = None;
                let horizons: Vec<u32> = (0..=grid_max).chain(edge_h.iter().copied()).collect();
                for &h in &horizons {
                    let r = guarded(|| cumulative_percentage_change(price, 0, pct, h));
                    let nontrivial = if price > 0 && pct > 0 && h > 0 { Some(hash_of(&(price, pct, h))) } else { None };
                    let input = || json!({"price": price, "pct": pct, "horizon": h});
                    match r {
                        Err(p) => sw.case(nontrivial, "panic", input, Err(viol(format!("panic:{}", classify_c35(h, pct)), format!("cumulative_percentage_change(price={price}, for_height=0, pct={pct}, height={h}) panicked: {p}")))),
                        Ok(v) => {
                            // shifted base must agree (only the difference matters)
                            let shifted = guarded(|| cumulative_percentage_change(price, 7, pct, h.saturating_add(7)));
                            let refv = compounded(price, pct, h);
                            let res = if h != u32::MAX && shifted != Ok(v) {
                                Err(viol("base-shift", format!("estimate depends on the base height: (0,{h}) -> {v}, (7,{}) -> {shifted:?}", h + 7)))
                            } else if v < refv {
                                Err(viol(
                                    below_sig(format!("f:{price}:{pct}:{h}"), refv, v, h, pct),
                                    format!("estimate {v} < integer-compounded price {refv} for price={price} pct={pct} horizon={h}"),
                                ))
                            } else if let Some((ph, pv)) = prev.filter(|(_, pv)| *pv > v) {
                                Err(viol("non-monotone", format!("estimate decreases with the horizon: h={ph} -> {pv}, h={h} -> {v} (price={price}, pct={pct})")))
                            } else {
                                Ok(())
                            };
                            let class = if v == u64::MAX { "saturated" } else if v == refv { "tight" } else { "above" };
                            sw.case(nontrivial, class, input, res);
                            prev = Some((h, v));
                        }
                    }
                }
            }
        },
    );
    run.add_sweep(sw);

    // (b) AlgorithmV1::worst_case through the real updater (two compounding parts)
    let small: Vec<u64> = vec![0, 1, 100, 1_000_000_000, (1 << 53) + 1, u64::MAX / 2, u64::MAX];
    let pcts2: Vec<u16> = vec![0, 1, 10, 24, 25, 26, 100];
    let sw2 = par_sweep(
        "AlgorithmV1::worst_case",
        "updater.algorithm().worst_case(h) for exec/da prices from a 7-value list each, exec/da percentages from {0,1,10,24,25,26,100}, base height {0,5}, horizon 0..=30 and edges; oracle: no panic, monotone in h, >= compounded(exec)+compounded(da) (saturating); non-trivial = both prices and a percentage non-zero and horizon>0",
        small.len() * small.len(),
        cli.threads,
        |i, sw| {
            let exec = small[i / small.len()];
            let da = small[i % small.len()];
            for &ep in &pcts2 {
                for &dp in &pcts2 {
                    for base in [0u32, 5] {
                        let mut u = base_updater(1, 0, ep, 0, u64::MAX, dp, 0, 0, false);
                        u.new_scaled_exec_price = exec;
                        u.new_scaled_da_gas_price = da;
                        u.l2_block_height = base;
                        let alg = u.algorithm();
                        let mut prev: Option<u64> = None;
                        for h in (0..=30u32).chain([100, 10_000, u32::MAX - 5]) {
                            let target = base.saturating_add(h);
                            let r = guarded(|| alg.worst_case(target));
                            let nontrivial = if exec > 0 && da > 0 && (ep > 0 || dp > 0) && h > 0 { Some(hash_of(&(exec, da, ep, dp, base, h))) } else { None };
                            let input = || json!({"exec": exec, "da": da, "exec_pct": ep, "da_pct": dp, "base": base, "horizon": h});
                            match r {
                                Err(p) => sw.case(nontrivial, "panic", input, Err(viol(format!("panic:{}", classify_c35(h, ep.max(dp) as u64)), format!("worst_case panicked: {p}")))),
                                Ok(v) => {
                                    let refv = compounded(exec, ep as u64, h).saturating_add(compounded(da, dp as u64, h));
                                    let res = if v < refv {
                                        Err(viol(below_sig(format!("w:{exec}:{da}:{ep}:{dp}:{base}:{h}"), refv, v, h, ep.max(dp) as u64), format!("worst_case {v} < compounded {refv} (exec={exec} da={da} ep={ep} dp={dp} h={h})")))
                                    } else if prev.map(|p| p > v).unwrap_or(false) {
                                        Err(viol("non-monotone", format!("worst_case decreases at h={h}: {prev:?} -> {v}")))
                                    } else {
                                        Ok(())
                                    };
                                    sw.case(nontrivial, if v == u64::MAX { "saturated" } else { "finite" }, input, res);
                                    prev = Some(v);
                                }
                            }
                        }
                    }
                }
            }
        },
    );
    run.add_sweep(sw2);
    run.assume("reference = integer compounding p += floor(p*pct/100) per block, saturating at u64::MAX");
    run.assume("f64 arithmetic of the host (IEEE-754 round-to-nearest-even)");
    run.assume("known float-rounding witnesses are listed one by one in harness/vh-gas/known_c35_witnesses.json; any unlisted failing input is a violation");
    if std::env::var("VH_C35_DUMP").is_ok() {
        let d = DUMP.lock().unwrap();
        std::fs::write(witnesses_path(), serde_json::to_string_pretty(&*d).unwrap()).unwrap();
        println!("dumped {} witnesses", d.len());
    }
    run.note("listed_known_witnesses", json!(KNOWN_WITNESSES.get().map(|k| k.len()).unwrap_or(0)));
    run.finish();
}

fn classify_c35(h: u32, pct: u64) -> &'static str {
    if h == 25 || pct == 25 {
        "table-edge-25"
    } else {
        "other"
    }
}


// The genuine float-rounding shortfalls of the unchanged tree are recorded as a
// known finding *witness by witness*: `known_c35_witnesses.json` lists every
// failing input of the thorough grid with the shortfall observed. A failing
// input that is not listed, or whose shortfall grew, gets a different
// signature (`below-compounded:unlisted:…`) and is reported as a violation.
static KNOWN_WITNESSES: std::sync::OnceLock<BTreeMap<String, u64>> = std::sync::OnceLock::new();
static DUMP: std::sync::Mutex<BTreeMap<String, u64>> = std::sync::Mutex::new(BTreeMap::new());

fn witnesses_path() -> std::path::PathBuf {
    verif_root().join("harness/vh-gas/known_c35_witnesses.json")
}

fn below_sig(key: String, reference: u64, got: u64, horizon: u32, pct: u64) -> String {
    let known = KNOWN_WITNESSES.get_or_init(|| {
        std::fs::read_to_string(witnesses_path())
            .ok()
            .and_then(|s| serde_json::from_str::<BTreeMap<String, u64>>(&s).ok())
            .unwrap_or_default()
    });
    let short = reference - got;
    if std::env::var("VH_C35_DUMP").is_ok() {
        DUMP.lock().unwrap().insert(key.clone(), short);
    }
    let class = classify_below(reference, got, horizon, pct);
    match known.get(&key) {
        Some(&s) if short <= s && class != "significant" => format!("below-compounded:{class}"),
        _ => format!("below-compounded:unlisted:{class}"),
    }
}

fn classify_below(reference: u64, got: u64, horizon: u32, pct: u64) -> &'static str {
    // Witness class. The estimate is computed in f64. (1) Above 2^53 an f64
    // cannot represent every integer; (2) outside the precomputed table the
    // multiple is exp(blocks * ln(1 + pct/100)), accurate to ~1e-15 relative,
    // so an exactly-integer compounded price (e.g. 100% per block) can be
    // missed by one unit. Both give a relative shortfall far below 1e-12.
    // Anything else (table path below 2^53, or a larger shortfall) is a
    // different, significant failure.
    let short = reference.saturating_sub(got) as f64;
    let tiny = short / (reference as f64) < 1e-12;
    if tiny && reference > (1u64 << 53) {
        "fp-rounding-above-2^53"
    } else if tiny && (horizon >= 25 || pct >= 25) {
        "fp-rounding-exp-path"
    } else {
        "significant"
    }
}

// ---------------------------------------------------------------------------
// C34
// ---------------------------------------------------------------------------

#[allow(clippy::too_many_arguments)]
fn base_updater(factor: u64, min_exec: u64, exec_pct: u16, min_da: u64, max_da: u64, da_pct: u16, p: i64, d: i64, small_activity: bool) -> AlgorithmUpdaterV1 {
    let start_da = if max_da == u64::MAX { 100 } else { min_da.max(max_da.min(10)) };
    AlgorithmUpdaterV1 {
        new_scaled_exec_price: min_exec.max(100).saturating_mul(factor),
        min_exec_gas_price: min_exec,
        exec_gas_price_change_percent: exec_pct,
        l2_block_height: 0,
        l2_block_fullness_threshold_percent: 50.into(),
        new_scaled_da_gas_price: start_da.saturating_mul(factor),
        gas_price_factor: NonZeroU64::new(factor).unwrap(),
        min_da_gas_price: min_da,
        max_da_gas_price: max_da,
        max_da_gas_price_change_percent: da_pct,
        total_da_rewards: 0,
        latest_known_total_da_cost: 0,
        projected_total_da_cost: 0,
        da_p_component: p,
        da_d_component: d,
        last_profit: 0,
        second_to_last_profit: 0,
        latest_da_cost_per_byte: 0,
        l2_activity: if small_activity {
            L2ActivityTracker::new(1, 1, 1, 2, 50.into())
        } else {
            L2ActivityTracker::new_always_normal()
        },
        unrecorded_blocks_bytes: 0,
    }
}

#[derive(Clone, Debug, Serialize, Deserialize)]
enum GasOp {
    /// height: 0 = next, 1 = skip one, 2 = same again
    L2 { height: u8, used_pct: u8, bytes: u64, fee: u128 },
    /// range: 0 = oldest unrecorded block, 1 = all unrecorded, 2 = unknown height, 3 = empty
    Da { range: u8, bytes: u32, cost: u128 },
}

#[derive(Clone)]
struct GasWorld {
    u: AlgorithmUpdaterV1,
    unrecorded: BTreeMap<u32, u64>,
}

struct GasSubject {
    name: String,
    init: AlgorithmUpdaterV1,
    thorough: bool,
}

const CAPACITY: u64 = 1000;

impl GasSubject {
    fn min_scaled_exec(u: &AlgorithmUpdaterV1) -> u64 {
        u.min_exec_gas_price.saturating_mul(u.gas_price_factor.get())
    }
    fn min_scaled_da(u: &AlgorithmUpdaterV1) -> u64 {
        u.min_da_gas_price.saturating_mul(u.gas_price_factor.get())
    }
    fn max_scaled_da(u: &AlgorithmUpdaterV1) -> u64 {
        u.max_da_gas_price.max(u.min_da_gas_price).saturating_mul(u.gas_price_factor.get())
    }
    fn check_bounds(before: &AlgorithmUpdaterV1, after: &AlgorithmUpdaterV1, l2: bool) -> Result<(), Violation> {
        let f = after.gas_price_factor.get();
        // bounds
        if l2 && after.new_scaled_exec_price < Self::min_scaled_exec(after) {
            return Err(viol("exec-below-min", format!("scaled exec price {} < min {}", after.new_scaled_exec_price, Self::min_scaled_exec(after))));
        }
        let (lo, hi) = (Self::min_scaled_da(after), Self::max_scaled_da(after));
        if after.new_scaled_da_gas_price < lo || after.new_scaled_da_gas_price > hi {
            return Err(viol("da-out-of-bounds", format!("scaled DA price {} outside [{lo},{hi}]", after.new_scaled_da_gas_price)));
        }
        // rate (scaled prices, exact)
        if l2 {
            let old = before.new_scaled_exec_price;
            let new = after.new_scaled_exec_price;
            let allowed = (old as u128 * before.exec_gas_price_change_percent as u128 / 100) as u64;
            let clamped = new == Self::min_scaled_exec(after);
            if old.abs_diff(new) > allowed && !clamped {
                return Err(viol("exec-rate", format!("exec price moved {old} -> {new}, more than {}% (= {allowed}) and not a clamp", before.exec_gas_price_change_percent)));
            }
        } else if before.new_scaled_exec_price != after.new_scaled_exec_price {
            return Err(viol("exec-moved-on-da-update", format!("exec price changed by a DA record update: {} -> {}", before.new_scaled_exec_price, after.new_scaled_exec_price)));
        }
        let old = before.new_scaled_da_gas_price;
        let new = after.new_scaled_da_gas_price;
        let allowed = (old as u128 * before.max_da_gas_price_change_percent as u128 / 100) as u64;
        let clamped = new == lo || new == hi;
        if old.abs_diff(new) > allowed && !clamped {
            return Err(viol("da-rate", format!("DA price moved {old} -> {new}, more than {}% (= {allowed}) and not a clamp to [{lo},{hi}]", before.max_da_gas_price_change_percent)));
        }
        // de-scaled prices as handed to users
        let alg = after.algorithm();
        let total = alg.calculate();
        let exec = after.new_scaled_exec_price / f;
        let da = after.new_scaled_da_gas_price / f;
        if total != exec.saturating_add(da) {
            return Err(viol("algorithm-price", format!("algorithm().calculate() = {total}, expected {exec}+{da}")));
        }
        if l2 && exec < after.min_exec_gas_price && Self::min_scaled_exec(after) != u64::MAX {
            return Err(viol("exec-below-min-descaled", format!("exec price {exec} < min {}", after.min_exec_gas_price)));
        }
        Ok(())
    }
}

impl Subject for GasSubject {
    type World = GasWorld;
    type Op = GasOp;
    fn name(&self) -> String {
        self.name.clone()
    }
    fn fresh(&self) -> GasWorld {
        GasWorld { u: self.init.clone(), unrecorded: BTreeMap::new() }
    }
    fn clone_world(&self, w: &GasWorld) -> Option<GasWorld> {
        Some(w.clone())
    }
    fn enabled(&self, _w: &GasWorld) -> Vec<GasOp> {
        let mut v = vec![];
        let useds: &[u8] = if self.thorough { &[0, 50, 100] } else { &[0, 100] };
        let bytes: &[u64] = if self.thorough { &[0, 100, 1_000_000] } else { &[0, 100] };
        let fees: &[u128] = if self.thorough { &[0, 1, 1_000_000_000_000] } else { &[0, 1_000_000_000_000] };
        for &u in useds {
            for &b in bytes {
                for &f in fees {
                    v.push(GasOp::L2 { height: 0, used_pct: u, bytes: b, fee: f });
                }
            }
        }
        v.push(GasOp::L2 { height: 1, used_pct: 100, bytes: 100, fee: 1 });
        v.push(GasOp::L2 { height: 2, used_pct: 0, bytes: 100, fee: 1 });
        for range in 0..=3u8 {
            v.push(GasOp::Da { range, bytes: 100, cost: 1_000_000 });
        }
        v.push(GasOp::Da { range: 0, bytes: 1, cost: u128::MAX });
        v.push(GasOp::Da { range: 1, bytes: 100, cost: 0 });
        v
    }
    fn deviation(&self, op: &GasOp) -> u32 {
        match op {
            GasOp::L2 { height, .. } if *height != 0 => 1,
            _ => 0,
        }
    }
    fn step(&self, w: &mut GasWorld, op: &GasOp) -> Result<String, Violation> {
        let before = w.u.clone();
        let before_unrec = w.unrecorded.clone();
        match op {
            GasOp::L2 { height, used_pct, bytes, fee } => {
                let h = match height {
                    0 => w.u.l2_block_height + 1,
                    1 => w.u.l2_block_height + 2,
                    _ => w.u.l2_block_height,
                };
                let used = CAPACITY * (*used_pct as u64) / 100;
                let r = w.u.update_l2_block_data(h, used, NonZeroU64::new(CAPACITY).unwrap(), *bytes, *fee, &mut w.unrecorded);
                if *height != 0 {
                    if r.is_ok() {
                        return Err(viol("non-consecutive-accepted", format!("L2 update for height {h} accepted while the updater is at {}", before.l2_block_height)));
                    }
                    if w.u != before || w.unrecorded != before_unrec {
                        return Err(viol("rejected-update-changed-state", format!("rejected L2 update for height {h} changed the updater state")));
                    }
                    return Ok("rejected".to_string());
                }
                if let Err(e) = r {
                    return Err(viol("consecutive-rejected", format!("L2 update for the next height failed: {e}")));
                }
                Self::check_bounds(&before, &w.u, true)?;
                Ok(format!("exec {} da {}", w.u.new_scaled_exec_price, w.u.new_scaled_da_gas_price))
            }
            GasOp::Da { range, bytes, cost } => {
                let first = w.unrecorded.keys().next().copied();
                let last = w.unrecorded.keys().next_back().copied();
                let r = match (range, first, last) {
                    (0, Some(f), _) => f..=f,
                    (1, Some(f), Some(l)) => f..=l,
                    (2, _, _) => 1000..=1001,
                    #[allow(clippy::reversed_empty_ranges)]
                    _ => 1..=0,
                };
                let empty = r.is_empty();
                let res = w.u.update_da_record_data(r, *bytes, *cost, &mut w.unrecorded);
                if res.is_err() {
                    return Ok("da-err".to_string());
                }
                if empty {
                    if w.u != before {
                        return Err(viol("empty-da-update-changed-state", "empty DA range changed the updater".to_string()));
                    }
                    return Ok("da-empty".to_string());
                }
                Self::check_bounds(&before, &w.u, false)?;
                Ok(format!("da {}", w.u.new_scaled_da_gas_price))
            }
        }
    }
    fn canon(&self, w: &GasWorld) -> Vec<u8> {
        serde_json::to_vec(&(&w.u, &w.unrecorded)).unwrap()
    }
    fn interesting(&self, _op: &GasOp, obs: &str) -> bool {
        obs != "rejected" && obs != "da-empty"
    }
    fn required_labels(&self) -> Vec<String> {
        vec!["L2".into(), "Da".into()]
    }
}

fn c34_subjects(full: bool, rich: bool) -> Vec<GasSubject> {
    let mut subjects = vec![];
    let factors = [1u64, 100];
    let exec_pcts = [0u16, 10];
    let da_pcts = [0u16, 10];
    let bounds = [(0u64, u64::MAX), (5, 20), (10, 5)];
    let pds: Vec<(i64, i64)> = if full { vec![(0, 0), (1, 1), (1, 10), (10, 1), (10, 10), (0, 10), (10, 0), (-1, 1), (1, 0)] } else { vec![(0, 0), (1, 1), (10, 1)] };
    for &f in &factors {
        for &ep in &exec_pcts {
            for &dp in &da_pcts {
                for &(lo, hi) in &bounds {
                    for &(p, d) in &pds {
                        for act in [false, true] {
                            for min_exec in [0u64, 100] {
                                if !full && min_exec == 0 && act {
                                    continue;
                                }
                                subjects.push(GasSubject {
                                    name: format!("updater[f={f},exec%={ep},da%={dp},da=[{lo},{hi}],pd=({p},{d}),activity={act},min_exec={min_exec}{}]", if rich { ",rich-alphabet" } else { "" }),
                                    init: base_updater(f, min_exec, ep, lo, hi, dp, p, d, act),
                                    thorough: rich,
                                });
                            }
                        }
                    }
                }
            }
        }
    }
    subjects
}

fn c34(cli: &Cli) {
    // quick: basic alphabet, 216 configurations, depth 5.
    // thorough: the same at depth 6, plus the rich alphabet over all 864 configurations at depth 4.
    let plans: Vec<(Vec<GasSubject>, usize, u32)> = match cli.tier {
        Tier::Quick => vec![(c34_subjects(false, false), 5, 1)],
        Tier::Thorough => vec![(c34_subjects(false, false), 6, 2), (c34_subjects(true, true), 4, 2)],
    };
    if let Some(path) = &cli.replay {
        let rf = load_replay(path);
        for s in c34_subjects(true, false).iter().chain(c34_subjects(true, true).iter()) {
            if s.name() == rf.subject {
                replay_and_exit(s, &rf);
            }
        }
        machinery_failure("replay: unknown subject");
    }
    let mut run = Run::new(cli, "model_checking");
    let n_subjects: usize = plans.iter().map(|p| p.0.len()).sum();
    let per_cap = cli.tier.pick(10u64, 40);
    let mut total = Report { subject: format!("{} updater configurations (merged)", n_subjects), exhaustive: true, max_depth_bound: plans.iter().map(|p| p.1).max().unwrap_or(0), ..Default::default() };
    let mut shown = 0;
    for (s, depth, devs) in plans.iter().flat_map(|(ss, d, v)| ss.iter().map(move |s| (s, *d, *v))) {
        let b = Bounds::new(depth, cli).deviations(devs).wall(per_cap);
        let r = explore(s, &b);
        if !r.violations.is_empty() || !r.exhaustive || shown < 2 {
            shown += 1;
            run.add(r.clone());
        } else {
            // merge quietly to keep the evidence file readable
            total.states += r.states;
            total.transitions += r.transitions;
            total.replayed_prefixes += r.replayed_prefixes;
            total.depth_completed = total.depth_completed.max(r.depth_completed);
            total.distinct_observations += r.distinct_observations;
            total.interesting_transitions += r.interesting_transitions;
            total.distinct_interesting += r.distinct_interesting;
            total.terminal_states += r.terminal_states;
            for (k, v) in r.label_hits {
                *total.label_hits.entry(k).or_default() += v;
            }
            if total.samples.len() < 3 {
                total.samples.extend(r.samples.into_iter().take(1));
            }
            total.wall_s += r.wall_s;
            total.max_deviations = r.max_deviations;
        }
    }
    if total.transitions > 0 {
        run.add(total);
    }
    run.note("configurations", json!(n_subjects));
    run.assume("rate bound is checked per update call on the scaled prices (exact integer arithmetic); clamping to min/max is exempt as the statement says");
    run.assume("DA record updates with zero recorded bytes fail after partially updating the cost totals; the statement only covers rejected non-consecutive L2 heights, so this is not checked");
    run.finish();
}
