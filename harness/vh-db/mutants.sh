#!/bin/bash
# Mutation demonstration for C08/C09/C11/C12 (BUILDER_GUIDE section 6).
# usage: mutants.sh <round>   (1 or 2) -- builds a scratch worktree with one
# property-breaking edit per property, runs the four quick checks against it
# (expect exit 1 with a signature that does not occur on the unchanged tree),
# and removes the worktree again.
set -u
ROUND=${1:-1}
WT=/tmp/wt-vh-db
git -C /repo worktree remove --force $WT 2>/dev/null
git -C /repo worktree add $WT HEAD >/dev/null || exit 2
S=$WT/crates/fuel-core/src
case $ROUND in
1)
  # C11: next_prefix steps by two
  sed -i 's/if let Some(new_byte) = byte.checked_add(1) {/if let Some(new_byte) = byte.checked_add(2) {/' $S/state/rocks_db.rs
  # C12: create_view_at forgets the +1 (serves the state before block h)
  sed -i 's/let rollback_height = height_for_the_state.saturating_add(1);/let rollback_height = height_for_the_state;/' $S/state/historical_rocksdb.rs
  # C09: skipped heights are accepted
  sed -i 's/if next_expected_height != new_height {/if next_expected_height > new_height {/' $S/database.rs
  # C08: transaction uniqueness is not checked
  python3 - <<EOF
p='$WT/crates/services/importer/src/ports.rs'
s=open(p).read()
old="""            found |= storage
                .storage_as_mut::<Transactions>()"""
new="""            let _ = storage
                .storage_as_mut::<Transactions>()"""
assert old in s
open(p,'w').write(s.replace(old,new))
EOF
  ;;
2)
  # C11: MemoryStore ignores removals
  python3 - <<EOF
p='$S/state/in_memory/memory_store.rs'
s=open(p).read()
old="""                    WriteOperation::Remove => {
                        lock.remove(&key);
                    }"""
new="""                    WriteOperation::Remove => {}"""
assert old in s
open(p,'w').write(s.replace(old,new,1))
p='$S/state/historical_rocksdb.rs'
s=open(p).read()
# C12: the reverse diff stores the new value instead of the old one
old="""                    (Some(old_value), WriteOperation::Insert(new_value)) => {
                        if *old_value != **new_value {
                            entry.insert(
                                key.clone(),
                                WriteOperation::Insert(old_value.into()),"""
new="""                    (Some(old_value), WriteOperation::Insert(new_value)) => {
                        if *old_value != **new_value {
                            entry.insert(
                                key.clone(),
                                WriteOperation::Insert(new_value.clone()),"""
assert old in s
open(p,'w').write(s.replace(old,new,1))
p='$S/database.rs'
s=open(p).read()
# C09: the cached height is updated before the linking checks
old="""    let prev_height = *database.stage.height.lock();

    match (prev_height, new_height) {"""
new="""    let prev_height = *database.stage.height.lock();
    if new_height.is_some() {
        *database.stage.height.lock() = new_height;
    }

    match (prev_height, new_height) {"""
assert old in s
open(p,'w').write(s.replace(old,new,1))
p='$WT/crates/services/importer/src/importer.rs'
s=open(p).read()
# C08: subscribers are notified before the commit
old="""        self.database
            .commit_changes(StorageChanges::ChangesList(vec![block_changes, changes]))?;
"""
assert old in s
s=s.replace(old,"",1)
old2="""        let _ = self.broadcast.send(result);

        Ok(())"""
assert old2 in s
s=s.replace(old2,"""        let _ = self.broadcast.send(result);
        self.database
            .commit_changes(StorageChanges::ChangesList(vec![block_changes, changes]))?;

        Ok(())""",1)
open(p,'w').write(s)
EOF
  ;;
3)
  # C08: the block Merkle root comparison is dropped and subscribers are notified before the commit;
  # C09: two heights in one commit accepted
  sed -i 's/if actual_block_root != expected_block_root {/if false \&\& actual_block_root != expected_block_root {/' $WT/crates/services/importer/src/importer.rs
  sed -i 's/if new_heights.len() > 1 {/if new_heights.len() > 2 {/' $S/database.rs
  python3 - <<EOF
p='$WT/crates/services/importer/src/importer.rs'
s=open(p).read()
old="""        self.database
            .commit_changes(StorageChanges::ChangesList(vec![block_changes, changes]))?;
"""
assert old in s
s=s.replace(old,"",1)
old2="""        let _ = self.broadcast.send(result);

        Ok(())"""
assert old2 in s
s=s.replace(old2,"""        let _ = self.broadcast.send(result);
        self.database
            .commit_changes(StorageChanges::ChangesList(vec![block_changes, changes]))?;

        Ok(())""",1)
open(p,'w').write(s)
EOF
  ;;
4)
  # C08: only the LAST transaction of a block decides whether the block is new (`found |=` -> `found =`)
  python3 - <<EOF
p='$WT/crates/services/importer/src/ports.rs'
s=open(p).read()
old="""            found |= storage
                .storage_as_mut::<Transactions>()"""
new="""            found = storage
                .storage_as_mut::<Transactions>()"""
assert old in s
open(p,'w').write(s.replace(old,new))
EOF
  ;;
5)
  # C12: rollback_block_to leaves the stale key||height entries in the historical duplicate columns
  python3 - <<EOF
p='$S/state/historical_rocksdb.rs'
s=open(p).read()
old="""        remove_historical_modifications(
            &height_to_rollback,
            &mut storage_transaction,
            &last_changes,
        )?;
"""
assert s.count(old)==1
open(p,'w').write(s.replace(old,""))
EOF
  ;;
esac
git -C $WT diff --stat
export VERIF_REPO_OVERRIDE=$WT
cd /verif
for id in ${IDS:-C11 C12 C09 C08}; do
  echo "=== $id (mutant round $ROUND)"
  ./check $id --tier quick 2>&1 | grep -v "^  \[" | tail -25
  echo "exit=$?"
done
git -C /repo worktree remove --force $WT
