//! C09 — database commits are height-linked and the reported height is exact.
//!
//! Real `Database<D>` for D in {OnChain, OffChain, GasPrice, Relayer,
//! Compression}, in memory and on RocksDB (with reopen). Alphabet: commits
//! carrying no height / next / skipped / repeated / previous / two heights /
//! height + other data (and, where the node has such an entry point, the same as
//! change lists), reopen. Model: `Option<height>`.
use crate::c11::Policy;
use crate::util::{hex, merge_reports, replay_exit, scratch_cleanup, Scratch};
use fuel_core::{
    database::{
        database_description::{compression::CompressionDatabase, gas_price::GasPriceDatabase, off_chain::OffChain, on_chain::OnChain, relayer::Relayer, DatabaseDescription, DatabaseHeight},
        metadata::MetadataTable,
        Database,
    },
    fuel_core_graphql_api::storage::blocks::FuelBlockIdsToHeights,
    state::rocks_db::DatabaseConfig,
};
use fuel_core_storage::{
    iter::{IterDirection, IterableStore},
    kv_store::{StorageColumn, WriteOperation},
    structured_storage::TableWithBlueprint,
    tables::{Coins, FuelBlocks},
    transactional::{Changes, HistoricalView, Modifiable, ReferenceBytesKey, StorageChanges},
    Error as StorageError, StorageInspect,
};
use mcx::*;
use serde::{Deserialize, Serialize};
use serde_json::json;
use std::collections::BTreeSet;

type Entry = (u32, Vec<u8>, Vec<u8>);

/// What the harness needs to know about one database description.
pub trait Desc: DatabaseDescription
where
    Database<Self>: Modifiable + StorageInspect<MetadataTable<Self>, Error = StorageError>,
{
    const NAME: &'static str;
    /// the entry whose presence makes a commit "carry block data for height h"
    fn height_entry(h: u64) -> Entry;
    /// an entry that carries no height
    fn data_entry() -> Option<Entry>;
    fn columns() -> Vec<Self::Column>;
    /// commit through the node's change-list entry point, if the description has one
    fn commit_list(_db: &mut Database<Self>, _list: Vec<Changes>) -> Option<Result<(), String>> {
        None
    }
}

impl Desc for OnChain {
    const NAME: &'static str = "OnChain";
    fn height_entry(h: u64) -> Entry {
        (FuelBlocks::column().id(), (h as u32).to_be_bytes().to_vec(), vec![0xB1])
    }
    fn data_entry() -> Option<Entry> {
        Some((Coins::column().id(), vec![7u8; 34], vec![0xD1]))
    }
    fn columns() -> Vec<Self::Column> {
        vec![FuelBlocks::column(), Coins::column()]
    }
    fn commit_list(db: &mut Database<Self>, list: Vec<Changes>) -> Option<Result<(), String>> {
        use fuel_core_importer::ports::ImporterDatabase;
        Some(ImporterDatabase::commit_changes(db, StorageChanges::ChangesList(list)).map_err(|e| format!("{e:?}")))
    }
}

impl Desc for OffChain {
    const NAME: &'static str = "OffChain";
    fn height_entry(h: u64) -> Entry {
        // block id -> height
        let mut id = vec![0xEE; 32];
        id[31] = h as u8;
        (FuelBlockIdsToHeights::column().id(), id, (h as u32).to_be_bytes().to_vec())
    }
    fn data_entry() -> Option<Entry> {
        Some((fuel_core::fuel_core_graphql_api::storage::Column::Statistic.id(), vec![7u8; 4], vec![0xD1]))
    }
    fn columns() -> Vec<Self::Column> {
        vec![FuelBlockIdsToHeights::column(), fuel_core::fuel_core_graphql_api::storage::Column::Statistic]
    }
}

impl Desc for GasPriceDatabase {
    const NAME: &'static str = "GasPrice";
    fn height_entry(h: u64) -> Entry {
        use fuel_core_gas_price_service::common::fuel_core_storage_adapter::storage::GasPriceColumn;
        (GasPriceColumn::State.id(), (h as u32).to_be_bytes().to_vec(), vec![0xB1])
    }
    fn data_entry() -> Option<Entry> {
        use fuel_core_gas_price_service::common::fuel_core_storage_adapter::storage::GasPriceColumn;
        Some((GasPriceColumn::UnrecordedBlocks.id(), vec![7u8; 4], vec![0xD1]))
    }
    fn columns() -> Vec<Self::Column> {
        use fuel_core_gas_price_service::common::fuel_core_storage_adapter::storage::GasPriceColumn;
        vec![GasPriceColumn::State, GasPriceColumn::UnrecordedBlocks]
    }
}

impl Desc for Relayer {
    const NAME: &'static str = "Relayer";
    fn height_entry(h: u64) -> Entry {
        (fuel_core_relayer::storage::Column::History.id(), h.to_be_bytes().to_vec(), vec![0x00])
    }
    fn data_entry() -> Option<Entry> {
        // the relayer database has no table besides the DA-height keyed history
        None
    }
    fn columns() -> Vec<Self::Column> {
        vec![fuel_core_relayer::storage::Column::History]
    }
}

impl Desc for CompressionDatabase {
    const NAME: &'static str = "Compression";
    fn height_entry(h: u64) -> Entry {
        use fuel_core_compression_service::storage::CompressedBlocks;
        (CompressedBlocks::column().id(), (h as u32).to_be_bytes().to_vec(), vec![0xB1])
    }
    fn data_entry() -> Option<Entry> {
        use fuel_core_compression_service::storage::column::CompressionColumn;
        use fuel_core_storage::merkle::column::MerkleizedColumn;
        Some((MerkleizedColumn::TableColumn(CompressionColumn::Timestamps).id(), vec![7u8; 4], vec![0xD1]))
    }
    fn columns() -> Vec<Self::Column> {
        use fuel_core_compression_service::storage::{column::CompressionColumn, CompressedBlocks};
        use fuel_core_storage::merkle::column::MerkleizedColumn;
        vec![CompressedBlocks::column(), MerkleizedColumn::TableColumn(CompressionColumn::Timestamps)]
    }
}

#[derive(Clone, Copy, Debug, Serialize, Deserialize, PartialEq, Eq)]
pub enum Shape {
    NoHeight,
    Next,
    NextWithData,
    Skip,
    Same,
    Prev,
    NextAndSkip,
    SameAndNext,
    ListNext,
    ListDataThenNext,
    ListNextThenSkip,
    ListNextWithConflictingData,
}

impl Shape {
    fn is_list(self) -> bool {
        matches!(self, Shape::ListNext | Shape::ListDataThenNext | Shape::ListNextThenSkip | Shape::ListNextWithConflictingData)
    }
}

#[derive(Clone, Debug, Serialize, Deserialize)]
pub enum Op09 {
    Commit(Shape),
    Reopen,
}

pub struct Subject09<D> {
    rocks: Option<Policy>,
    _d: std::marker::PhantomData<D>,
}

pub struct W09<D: Desc>
where
    Database<D>: Modifiable + StorageInspect<MetadataTable<D>, Error = StorageError>,
{
    db: Option<Database<D>>,
    dir: Option<Scratch>,
    tip: Option<u64>,
    /// model of the stored keys (column id, key)
    present: BTreeSet<(u32, Vec<u8>)>,
}

/// With no height yet the "next" height is 3 (any first height is legal).
const VIRTUAL_TIP: u64 = 2;

impl<D: Desc> Subject09<D>
where
    Database<D>: Modifiable + StorageInspect<MetadataTable<D>, Error = StorageError>,
{
    fn open(&self, dir: Option<&Scratch>) -> Database<D> {
        match (self.rocks, dir) {
            (Some(p), Some(d)) => Database::<D>::open_rocksdb(d.path(), p.to_real(), DatabaseConfig::config_for_tests()).unwrap_or_else(|e| machinery_failure(&format!("cannot open the database: {e:?}"))),
            _ => Database::<D>::in_memory(),
        }
    }
    fn dump(db: &Database<D>) -> Result<BTreeSet<(u32, Vec<u8>)>, String> {
        let mut s = BTreeSet::new();
        for c in D::columns() {
            for r in db.iter_store_keys(c, None, None, IterDirection::Forward) {
                s.insert((c.id(), r.map_err(|e| format!("{e:?}"))?));
            }
        }
        Ok(s)
    }
    fn sets(shape: Shape, t: u64) -> Vec<Vec<Entry>> {
        let h = D::height_entry;
        let data = D::data_entry();
        let d: Vec<Entry> = data.into_iter().collect();
        match shape {
            Shape::NoHeight => vec![d],
            Shape::Next => vec![vec![h(t + 1)]],
            Shape::NextWithData => vec![[vec![h(t + 1)], d].concat()],
            Shape::Skip => vec![vec![h(t + 2)]],
            Shape::Same => vec![vec![h(t)]],
            Shape::Prev => vec![vec![h(t - 1)]],
            Shape::NextAndSkip => vec![vec![h(t + 1), h(t + 2)]],
            Shape::SameAndNext => vec![vec![h(t), h(t + 1)]],
            Shape::ListNext => vec![vec![h(t + 1)]],
            Shape::ListDataThenNext => vec![d, vec![h(t + 1)]],
            Shape::ListNextThenSkip => vec![vec![h(t + 1)], vec![h(t + 2)]],
            Shape::ListNextWithConflictingData => vec![[vec![h(t + 1)], d.clone()].concat(), d],
        }
    }
    /// heights carried by the commit (inserted height entries)
    fn heights(shape: Shape, t: u64) -> Vec<u64> {
        match shape {
            Shape::NoHeight => vec![],
            Shape::Next | Shape::NextWithData | Shape::ListNext | Shape::ListDataThenNext | Shape::ListNextWithConflictingData => vec![t + 1],
            Shape::Skip => vec![t + 2],
            Shape::Same => vec![t],
            Shape::Prev => vec![t - 1],
            Shape::NextAndSkip | Shape::ListNextThenSkip => vec![t + 1, t + 2],
            Shape::SameAndNext => vec![t, t + 1],
        }
    }
}

fn to_changes(set: &[Entry]) -> Changes {
    let mut c = Changes::default();
    for (col, k, v) in set {
        c.entry(*col).or_default().insert(ReferenceBytesKey::from(k.clone()), WriteOperation::Insert(v.clone().into()));
    }
    c
}

impl<D: Desc> Subject for Subject09<D>
where
    Database<D>: Modifiable + StorageInspect<MetadataTable<D>, Error = StorageError>,
{
    type World = W09<D>;
    type Op = Op09;
    fn name(&self) -> String {
        format!("height-linking[{} on {}]", D::NAME, self.rocks.map(|p| format!("RocksDB/{}", p.name())).unwrap_or_else(|| "MemoryStore".into()))
    }
    fn fresh(&self) -> W09<D> {
        let dir = self.rocks.map(|_| Scratch::new());
        let db = self.open(dir.as_ref());
        W09 { db: Some(db), dir, tip: None, present: BTreeSet::new() }
    }
    fn enabled(&self, _w: &W09<D>) -> Vec<Op09> {
        let mut v = vec![];
        let has_list = D::NAME == "OnChain";
        for s in [
            Shape::Next,
            Shape::NoHeight,
            Shape::NextWithData,
            Shape::Skip,
            Shape::Same,
            Shape::Prev,
            Shape::NextAndSkip,
            Shape::SameAndNext,
            Shape::ListNext,
            Shape::ListDataThenNext,
            Shape::ListNextThenSkip,
            Shape::ListNextWithConflictingData,
        ] {
            if s.is_list() && !has_list {
                continue;
            }
            v.push(Op09::Commit(s));
        }
        if self.rocks.is_some() {
            v.push(Op09::Reopen);
        }
        v
    }
    fn label(&self, op: &Op09) -> String {
        match op {
            Op09::Commit(s) => format!("{s:?}"),
            Op09::Reopen => "Reopen".into(),
        }
    }
    fn interesting(&self, _op: &Op09, obs: &str) -> bool {
        obs.starts_with("rejected") || obs.starts_with("accepted") || obs.starts_with("reopened")
    }
    fn step(&self, w: &mut W09<D>, op: &Op09) -> Result<String, Violation> {
        let tag;
        match op {
            Op09::Reopen => {
                w.db = None;
                w.db = Some(self.open(w.dir.as_ref()));
                tag = "reopened".to_string();
            }
            Op09::Commit(shape) => {
                let t = w.tip.unwrap_or(VIRTUAL_TIP);
                let sets = Self::sets(*shape, t);
                let mut hs = Self::heights(*shape, t);
                hs.dedup();
                // the statement: at most one height; exactly the next one (or any first one); mandatory after the first
                let expect_ok = match (w.tip, hs.as_slice()) {
                    (_, [_, _, ..]) => false,
                    (None, []) => true,
                    (None, [_]) => true,
                    (Some(_), []) => false,
                    (Some(t), [h]) => *h == t + 1,
                };
                let db = w.db.as_mut().expect("open");
                let r: Result<(), String> = if shape.is_list() {
                    D::commit_list(db, sets.iter().map(|s| to_changes(s)).collect()).unwrap_or_else(|| machinery_failure("list commit on a description without a list entry point"))
                } else {
                    db.commit_changes(to_changes(&sets[0])).map_err(|e| format!("{e:?}"))
                };
                let conflicting = *shape == Shape::ListNextWithConflictingData && D::data_entry().is_some();
                if conflicting {
                    // the statement does not say whether a list writing one key twice is accepted;
                    // either way the reported height must follow the verdict
                    match &r {
                        Ok(()) if expect_ok => {
                            w.tip = Some(hs[0]);
                            w.present = Self::dump(w.db.as_ref().expect("open")).map_err(|e| viol("read-error", e))?;
                            tag = format!("accepted(conflicting list) {:?}", w.tip);
                        }
                        Ok(()) => return Err(viol("unlinked-commit-accepted", format!("{}: commit {shape:?} on tip {:?} was accepted", self.name(), w.tip))),
                        Err(_) => {
                            // a refused commit may not move the height; stored data is not compared for this letter
                            w.present = Self::dump(w.db.as_ref().expect("open")).map_err(|e| viol("read-error", e))?;
                            tag = "rejected(conflicting list)".to_string();
                        }
                    }
                } else {
                    match (&r, expect_ok) {
                        (Ok(()), true) => {
                            if let Some(h) = hs.first() {
                                w.tip = Some(*h);
                            }
                            for s in &sets {
                                for (c, k, _) in s {
                                    w.present.insert((*c, k.clone()));
                                }
                            }
                            tag = format!("accepted {:?}", w.tip);
                        }
                        (Err(e), true) => return Err(viol("linked-commit-rejected", format!("{}: commit {shape:?} (heights {hs:?}) on tip {:?} must be accepted but failed: {e}", self.name(), w.tip))),
                        (Ok(()), false) => {
                            return Err(viol(
                                format!("unlinked-commit-accepted:{shape:?}"),
                                format!("{}: commit {shape:?} carrying heights {:?} on tip {:?} was accepted", self.name(), Self::heights(*shape, t), w.tip),
                            ))
                        }
                        (Err(_), false) => tag = "rejected".to_string(),
                    }
                }
            }
        }
        // oracle: reported height, persisted height and stored keys
        let db = w.db.as_ref().expect("open");
        let reported = db.latest_height().map(|h| h.as_u64());
        if reported != w.tip {
            return Err(viol(
                format!("latest-height-wrong:after-{}", tag.split(|c: char| !c.is_alphabetic()).next().unwrap_or("")),
                format!("{}: after {op:?} ({tag}) latest_height() = {reported:?}, the last successfully committed height is {:?}", self.name(), w.tip),
            ));
        }
        let persisted = db.latest_height_from_metadata().map_err(|e| viol("read-error", format!("{e:?}")))?.map(|h| h.as_u64());
        if persisted != w.tip {
            return Err(viol("metadata-height-wrong", format!("{}: after {op:?} ({tag}) the metadata table holds {persisted:?}, expected {:?}", self.name(), w.tip)));
        }
        let real = Self::dump(db).map_err(|e| viol("read-error", e))?;
        if real != w.present {
            let show = |s: &BTreeSet<(u32, Vec<u8>)>| s.iter().map(|(c, k)| format!("{c}:{}", hex(k))).collect::<Vec<_>>().join(",");
            return Err(viol(
                if tag.starts_with("rejected") { "rejected-commit-changed-data" } else { "stored-data-wrong" },
                format!("{}: after {op:?} ({tag}) stored keys [{}], expected [{}]", self.name(), show(&real), show(&w.present)),
            ));
        }
        Ok(format!("{tag} tip={:?} keys={}", w.tip, w.present.len()))
    }
    fn canon(&self, w: &W09<D>) -> Vec<u8> {
        serde_json::to_vec(&(&w.tip, &w.present)).unwrap()
    }
}

fn run_desc<D: Desc>(cli: &Cli, threads: usize, rf: Option<&ReplayFile>) -> Vec<Report>
where
    Database<D>: Modifiable + StorageInspect<MetadataTable<D>, Error = StorageError>,
{
    // quick: memory + RocksDB with history; thorough (and replay): every policy
    let mut subs: Vec<Subject09<D>> = vec![Subject09 { rocks: None, _d: Default::default() }, Subject09 { rocks: Some(Policy::Full), _d: Default::default() }];
    if cli.tier == Tier::Thorough || rf.is_some() {
        subs.push(Subject09 { rocks: Some(Policy::NoRewind), _d: Default::default() });
        subs.push(Subject09 { rocks: Some(Policy::Range(1)), _d: Default::default() });
    }
    if let Some(rf) = rf {
        for s in &subs {
            if s.name() == rf.subject {
                replay_exit(s, rf);
            }
        }
        return vec![];
    }
    let depth_of = |s: &Subject09<D>| if s.rocks.is_some() { cli.tier.pick(3, 6) } else { cli.tier.pick(6, 8) };
    crate::util::explore_parallel(&subs, |s| Bounds::new(depth_of(s), cli).wall(cli.tier.pick(110, 900)), threads)
}

pub fn run(cli: &Cli) {
    let rf = cli.replay.as_ref().map(|p| load_replay(p));
    let mut run = Run::new(cli, "model_checking");
    let mut quiet = vec![];
    // the five descriptions are explored concurrently
    let t = cli.threads.div_ceil(5).max(2);
    let rfr = rf.as_ref();
    let all: Vec<Report> = std::thread::scope(|sc| {
        let hs = vec![
            sc.spawn(move || run_desc::<OnChain>(cli, t, rfr)),
            sc.spawn(move || run_desc::<OffChain>(cli, t, rfr)),
            sc.spawn(move || run_desc::<GasPriceDatabase>(cli, t, rfr)),
            sc.spawn(move || run_desc::<Relayer>(cli, t, rfr)),
            sc.spawn(move || run_desc::<CompressionDatabase>(cli, t, rfr)),
        ];
        hs.into_iter().flat_map(|h| h.join().unwrap_or_else(|_| machinery_failure("an exploration thread panicked"))).collect()
    });
    for r in all {
        crate::util::require_labels(&r, &["Next", "NoHeight", "Skip", "Same", "Prev", "NextAndSkip", "SameAndNext"]);
        if r.subject.contains("RocksDB") {
            crate::util::require_labels(&r, &["Reopen"]);
        }
        if !r.violations.is_empty() || !r.exhaustive {
            run.add(r);
        } else {
            quiet.push(r);
        }
    }
    if rf.is_some() {
        machinery_failure("replay: unknown subject");
    }
    if !quiet.is_empty() {
        let n = quiet.len();
        let depth = quiet.iter().map(|r| r.max_depth_bound).max().unwrap_or(0);
        run.add(merge_reports(&format!("height-linking: {n} database/backend configurations without findings (merged)"), depth, quiet));
    }
    run.note("scratch", json!(crate::util::scratch_root_description()));
    run.note("descriptions", json!(["OnChain", "OffChain", "GasPrice", "Relayer", "Compression"]));
    run.assume("a commit 'carries block data for height h' when it inserts an entry of the description's height table (FuelBlocks, FuelBlockIdsToHeights, GasPriceMetadata, EventsHistory, CompressedBlocks); values of those entries are opaque bytes (never decoded on this path, except the off-chain height value)");
    run.assume("change-list commits exist only for OnChain (ImporterDatabase::commit_changes); a list that writes one data key twice may be accepted or refused, only the height bookkeeping is checked for it");
    run.assume("before the first height the 'next' height is 3 (any first height is legal)");
    scratch_cleanup();
    run.finish();
}
