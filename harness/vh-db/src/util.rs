//! Scratch directories (RocksDB temp dirs owned and removed by the check) and
//! small helpers shared by the checks.
use std::path::PathBuf;
use std::sync::atomic::{AtomicU64, Ordering};
use std::sync::OnceLock;

static ROOT: OnceLock<PathBuf> = OnceLock::new();
static NEXT: AtomicU64 = AtomicU64::new(0);

/// `/dev/shm` when it is a roomy tmpfs (RocksDB syncs every manifest change; on a disk that
/// dominates the run time), otherwise the system temp dir. `VH_DB_SCRATCH` overrides both.
fn scratch_base() -> PathBuf {
    if let Some(p) = std::env::var_os("VH_DB_SCRATCH") {
        return PathBuf::from(p);
    }
    let shm = std::path::Path::new("/dev/shm");
    if shm.is_dir() {
        if let Ok(out) = std::process::Command::new("df").arg("-Pk").arg(shm).output() {
            let text = String::from_utf8_lossy(&out.stdout);
            let avail_kb = text.lines().nth(1).and_then(|l| l.split_whitespace().nth(3)).and_then(|v| v.parse::<u64>().ok()).unwrap_or(0);
            if avail_kb >= 1024 * 1024 {
                return shm.to_path_buf();
            }
        }
    }
    std::env::temp_dir()
}

fn root() -> &'static PathBuf {
    ROOT.get_or_init(|| scratch_base().join(format!("vh-db-{}", std::process::id())))
}

pub fn scratch_root_description() -> String {
    root().parent().map(|p| p.display().to_string()).unwrap_or_default()
}

pub fn scratch_init() {
    let r = root();
    // housekeeping: roots left behind by runs of this tool that ended abnormally
    if let Some(base) = r.parent() {
        if let Ok(rd) = std::fs::read_dir(base) {
            for e in rd.flatten() {
                let name = e.file_name().to_string_lossy().to_string();
                if let Some(pid) = name.strip_prefix("vh-db-").and_then(|p| p.parse::<u32>().ok()) {
                    if !std::path::Path::new(&format!("/proc/{pid}")).exists() {
                        let _ = std::fs::remove_dir_all(e.path());
                    }
                }
            }
        }
    }
    let _ = std::fs::remove_dir_all(r);
    if std::fs::create_dir_all(r).is_err() {
        mcx::machinery_failure("cannot create the scratch directory");
    }
}

/// Remove everything the check created on disk. Called before `Run::finish`.
pub fn scratch_cleanup() {
    let _ = std::fs::remove_dir_all(root());
}

/// A private directory below the scratch root; removed when dropped.
pub struct Scratch {
    path: PathBuf,
}

impl Scratch {
    pub fn new() -> Scratch {
        let n = NEXT.fetch_add(1, Ordering::Relaxed);
        let path = root().join(format!("d{n}"));
        if std::fs::create_dir_all(&path).is_err() {
            mcx::machinery_failure("cannot create a scratch sub-directory");
        }
        Scratch { path }
    }
    pub fn path(&self) -> &std::path::Path {
        &self.path
    }
}

impl Drop for Scratch {
    fn drop(&mut self) {
        let _ = std::fs::remove_dir_all(&self.path);
    }
}

pub fn hex(b: &[u8]) -> String {
    hex::encode(b)
}

/// Merge many per-configuration reports into one line of evidence.
pub fn merge_reports(name: &str, depth: usize, reports: Vec<mcx::Report>) -> mcx::Report {
    let mut total = mcx::Report { subject: name.to_string(), exhaustive: true, max_depth_bound: depth, ..Default::default() };
    for r in reports {
        total.states += r.states;
        total.transitions += r.transitions;
        total.replayed_prefixes += r.replayed_prefixes;
        total.depth_completed = total.depth_completed.max(r.depth_completed);
        total.distinct_observations += r.distinct_observations;
        total.interesting_transitions += r.interesting_transitions;
        total.distinct_interesting += r.distinct_interesting;
        total.terminal_states += r.terminal_states;
        for (k, v) in r.label_hits {
            *total.label_hits.entry(k).or_default() += v;
        }
        if total.samples.len() < 3 {
            total.samples.extend(r.samples.into_iter().take(1));
        }
        total.wall_s += r.wall_s;
        total.max_deviations = r.max_deviations;
        total.exhaustive &= r.exhaustive;
        if total.cap_hit.is_none() {
            total.cap_hit = r.cap_hit;
        }
        total.violations.extend(r.violations);
    }
    total
}

/// `mcx::replay_and_exit` plus removal of the scratch root.
pub fn replay_exit<S: mcx::Subject>(s: &S, rf: &mcx::ReplayFile) -> ! {
    let ops: Vec<S::Op> = serde_json::from_value(rf.history.clone()).unwrap_or_else(|e| mcx::machinery_failure(&format!("history does not decode for {}: {e}", s.name())));
    let r = mcx::replay_history(s, &ops);
    scratch_cleanup();
    match r {
        Ok(obs) => {
            println!("replay: {} ops executed, no violation; observations:", ops.len());
            for (o, op) in obs.iter().zip(ops.iter()) {
                println!("  {op:?} -> {o}");
            }
            std::process::exit(0)
        }
        Err((i, v)) => {
            println!("replay: violation at step {i} ({:?}): {} / {}", ops.get(i), v.sig, v.msg);
            println!("VIOLATION property={} replay=(replayed)", rf.property);
            std::process::exit(1)
        }
    }
}

/// Explore several subjects concurrently (the early BFS levels of one subject cannot use many
/// threads and every world costs a RocksDB open); `total_threads` is shared between them.
pub fn explore_parallel<S: mcx::Subject>(subjects: &[S], bounds_for: impl Fn(&S) -> mcx::Bounds + Sync, total_threads: usize) -> Vec<mcx::Report> {
    let n = subjects.len().max(1);
    let per = total_threads.div_ceil(n).max(2);
    let mut out: Vec<Option<mcx::Report>> = (0..subjects.len()).map(|_| None).collect();
    std::thread::scope(|sc| {
        let handles: Vec<_> = subjects
            .iter()
            .map(|s| {
                let bf = &bounds_for;
                sc.spawn(move || {
                    let mut b = bf(s);
                    b.threads = per;
                    mcx::explore(s, &b)
                })
            })
            .collect();
        for (i, h) in handles.into_iter().enumerate() {
            match h.join() {
                Ok(r) => out[i] = Some(r),
                Err(_) => mcx::machinery_failure("an exploration thread panicked"),
            }
        }
    });
    out.into_iter().map(|r| r.expect("report")).collect()
}

/// Vacuity guard: every letter class must have fired, unless findings cut the exploration short
/// (a violating transition is a leaf, so deeper letters may legitimately never be reached).
pub fn require_labels(r: &mcx::Report, labels: &[&str]) {
    if !r.violations.is_empty() || !r.exhaustive {
        return;
    }
    for l in labels {
        if !r.label_hits.contains_key(*l) {
            mcx::machinery_failure(&format!("{}: vacuous exploration, letter {l} never fired", r.subject));
        }
    }
}
