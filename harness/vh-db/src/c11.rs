//! C11 — all storage backends store and iterate identically.
//!
//! Part A (model checking): every commit history (bounded depth) over a menu of
//! `StorageChanges` shapes (single sets, lists, lists whose sets share a column,
//! conflicting lists, with/without height) on each real backend; after every
//! commit the backend's contents (`get` + iteration for every column x prefix x
//! start x direction) are compared with a sorted-map model.
//!
//! Part B (exhaustive sweep): for every key subset of small key universes
//! (bytes 00/01/FF so prefix successors, 0xFF carries and range edges occur)
//! every prefix/start/direction/kind query on every backend against the model.
use crate::util::{hex, merge_reports, scratch_cleanup, Scratch};
use fuel_core::{
    database::database_description::on_chain::OnChain,
    state::{
        historical_rocksdb::{HistoricalRocksDB, StateRewindPolicy},
        in_memory::memory_store::MemoryStore,
        rocks_db::{DatabaseConfig, RocksDb},
        TransactableStorage,
    },
};
use fuel_core_storage::{
    column::Column,
    iter::{IterDirection, IterableStore},
    kv_store::{StorageColumn, WriteOperation},
    transactional::{Changes, ReferenceBytesKey, StorageChanges},
};
use mcx::*;
use serde::{Deserialize, Serialize};
use serde_json::json;
use std::collections::{BTreeMap, BTreeSet};
use std::num::NonZeroU64;

// ---------------------------------------------------------------------------
// Backends
// ---------------------------------------------------------------------------

#[derive(Clone, Copy, Debug, PartialEq, Eq, Serialize, Deserialize)]
pub enum Policy {
    NoRewind,
    Full,
    Range(u64),
}

impl Policy {
    pub fn to_real(self) -> StateRewindPolicy {
        match self {
            Policy::NoRewind => StateRewindPolicy::NoRewind,
            Policy::Full => StateRewindPolicy::RewindFullRange,
            Policy::Range(n) => StateRewindPolicy::RewindRange { size: NonZeroU64::new(n).expect("non-zero") },
        }
    }
    pub fn name(self) -> String {
        match self {
            Policy::NoRewind => "NoRewind".into(),
            Policy::Full => "RewindFullRange".into(),
            Policy::Range(n) => format!("RewindRange{{{n}}}"),
        }
    }
}

#[derive(Clone, Copy, Debug, PartialEq, Eq)]
enum Kind {
    Memory,
    Rocks,
    Hist(Policy),
}

impl Kind {
    fn name(self) -> String {
        match self {
            Kind::Memory => "MemoryStore".into(),
            Kind::Rocks => "RocksDb".into(),
            Kind::Hist(p) => format!("HistoricalRocksDB[{}]", p.name()),
        }
    }
    fn keeps_history(self) -> bool {
        matches!(self, Kind::Hist(p) if p != Policy::NoRewind)
    }
}

enum Store {
    Mem(MemoryStore<OnChain>),
    Rocks(RocksDb<OnChain>),
    Hist(HistoricalRocksDB<OnChain>),
}

struct Backend {
    // declared before `_dir`: the store is dropped (closed) before its directory is removed
    store: Store,
    _dir: Option<Scratch>,
}

impl Backend {
    fn open(kind: Kind) -> Backend {
        match kind {
            Kind::Memory => Backend { store: Store::Mem(MemoryStore::default()), _dir: None },
            Kind::Rocks => {
                let dir = Scratch::new();
                let db = RocksDb::<OnChain>::default_open(dir.path(), DatabaseConfig::config_for_tests()).unwrap_or_else(|e| machinery_failure(&format!("cannot open RocksDb: {e}")));
                Backend { store: Store::Rocks(db), _dir: Some(dir) }
            }
            Kind::Hist(p) => {
                let dir = Scratch::new();
                let db = HistoricalRocksDB::<OnChain>::default_open(dir.path(), p.to_real(), DatabaseConfig::config_for_tests())
                    .unwrap_or_else(|e| machinery_failure(&format!("cannot open HistoricalRocksDB: {e}")));
                Backend { store: Store::Hist(db), _dir: Some(dir) }
            }
        }
    }
    fn kv(&self) -> &dyn IterableStore<Column = Column> {
        match &self.store {
            Store::Mem(s) => s,
            Store::Rocks(s) => s,
            Store::Hist(s) => s,
        }
    }
    fn commit(&self, height: Option<u32>, ch: StorageChanges) -> Result<(), String> {
        match &self.store {
            Store::Mem(s) => s.commit_changes(height.map(Into::into), ch).map_err(|e| e.to_string()),
            Store::Rocks(s) => s.commit_changes(&ch).map_err(|e| e.to_string()),
            Store::Hist(s) => TransactableStorage::commit_changes(s, height.map(Into::into), ch).map_err(|e| e.to_string()),
        }
    }
}

// ---------------------------------------------------------------------------
// Key universes and the sorted-map model
// ---------------------------------------------------------------------------

const ALPHA: [u8; 3] = [0x00, 0x01, 0xFF];

type Map = BTreeMap<Vec<u8>, Vec<u8>>;

#[derive(Clone)]
struct Universe {
    name: &'static str,
    col: Column,
    keys: Vec<Vec<u8>>,
    prefixes: Vec<Option<Vec<u8>>>,
    starts: Vec<Option<Vec<u8>>>,
    /// length of the column's RocksDB prefix extractor, if it has one
    extractor: Option<usize>,
}

fn strings(pad: &[u8], n: usize) -> Vec<Vec<u8>> {
    let mut out = vec![pad.to_vec()];
    for _ in 0..n {
        let mut next = vec![];
        for s in &out {
            for a in ALPHA {
                let mut t = s.clone();
                t.push(a);
                next.push(t);
            }
        }
        out = next;
    }
    out
}

/// The smallest byte string greater than every string that starts with `p`
/// (None if there is none: `p` is empty or all 0xFF).
fn successor(p: &[u8]) -> Option<Vec<u8>> {
    let mut v = p.to_vec();
    while let Some(last) = v.pop() {
        if last != 0xFF {
            v.push(last + 1);
            return Some(v);
        }
    }
    None
}

fn universe(name: &'static str, col: Column, pad: &[u8], len: usize) -> Universe {
    let keys = strings(pad, len);
    let mut prefixes: Vec<Option<Vec<u8>>> = vec![None];
    if !pad.is_empty() {
        prefixes.push(Some(pad[..1].to_vec()));
        prefixes.push(Some(pad.to_vec()));
    }
    for l in 1..=len {
        for s in strings(pad, l) {
            prefixes.push(Some(s));
        }
    }
    let mut nomatch = pad.to_vec();
    nomatch.push(0x02);
    prefixes.push(Some(nomatch));
    let mut starts: BTreeSet<Vec<u8>> = BTreeSet::new();
    for k in &keys {
        starts.insert(k.clone());
        let mut longer = k.clone();
        longer.push(0x00);
        starts.insert(longer);
    }
    for p in prefixes.iter().flatten() {
        starts.insert(p.clone());
        if let Some(s) = successor(p) {
            starts.insert(s);
        }
    }
    let mut ff = pad.to_vec();
    ff.extend(std::iter::repeat_n(0xFF, len + 1));
    starts.insert(ff);
    starts.insert(vec![]);
    let mut st: Vec<Option<Vec<u8>>> = vec![None];
    st.extend(starts.into_iter().map(Some));
    let extractor = <OnChain as fuel_core::database::database_description::DatabaseDescription>::prefix(&col);
    Universe { name, col, keys, prefixes, starts: st, extractor }
}

fn ux2() -> Universe {
    universe("Coins/2-byte keys", Column::Coins, &[], 2)
}
fn ux3() -> Universe {
    universe("Coins/3-byte keys", Column::Coins, &[], 3)
}
/// `ContractsState` has a 32-byte RocksDB prefix extractor: 31 fixed bytes + 1
/// varying byte make the extractor prefix, the last byte is the suffix.
fn uy2() -> Universe {
    universe("ContractsState/31-byte pad + 2 bytes", Column::ContractsState, &[0x00; 31], 2)
}
fn uy3() -> Universe {
    universe("ContractsState/30-byte pad + 3 bytes", Column::ContractsState, &[0x00; 30], 3)
}

/// Sorted-map specification of `iter_store`: the entries whose key starts with
/// `prefix` and is >= `start` (forward) / <= `start` (reverse), in key order
/// (forward) or reverse key order. Undefined (None) when both are given and
/// `start` does not itself start with `prefix`.
fn model_iter(m: &Map, prefix: Option<&[u8]>, start: Option<&[u8]>, dir: IterDirection) -> Option<Vec<(Vec<u8>, Vec<u8>)>> {
    if let (Some(p), Some(s)) = (prefix, start) {
        if !s.starts_with(p) {
            return None;
        }
    }
    let mut v: Vec<(Vec<u8>, Vec<u8>)> = m
        .iter()
        .filter(|(k, _)| prefix.map(|p| k.starts_with(p)).unwrap_or(true))
        .filter(|(k, _)| match (start, dir) {
            (None, _) => true,
            (Some(s), IterDirection::Forward) => k.as_slice() >= s,
            (Some(s), IterDirection::Reverse) => k.as_slice() <= s,
        })
        .map(|(k, v)| (k.clone(), v.clone()))
        .collect();
    if dir == IterDirection::Reverse {
        v.reverse();
    }
    Some(v)
}

fn real_iter(kv: &dyn IterableStore<Column = Column>, col: Column, prefix: Option<&[u8]>, start: Option<&[u8]>, dir: IterDirection) -> Result<Vec<(Vec<u8>, Vec<u8>)>, String> {
    kv.iter_store(col, prefix, start, dir).map(|r| r.map(|(k, v)| (k, v.to_vec())).map_err(|e| e.to_string())).collect()
}

fn real_keys(kv: &dyn IterableStore<Column = Column>, col: Column, prefix: Option<&[u8]>, start: Option<&[u8]>, dir: IterDirection) -> Result<Vec<Vec<u8>>, String> {
    kv.iter_store_keys(col, prefix, start, dir).map(|r| r.map_err(|e| e.to_string())).collect()
}

fn show_entries(v: &[(Vec<u8>, Vec<u8>)]) -> String {
    let s: Vec<String> = v.iter().map(|(k, v)| format!("{}={}", short(k), hex(v))).collect();
    format!("[{}]", s.join(","))
}

/// Keys are printed without a long constant zero pad.
fn short(k: &[u8]) -> String {
    let zeros = k.iter().take_while(|b| **b == 0).count();
    if zeros >= 8 {
        format!("00*{}|{}", zeros, hex(&k[zeros..]))
    } else {
        hex(k)
    }
}

fn show_opt(k: Option<&[u8]>) -> String {
    k.map(short).unwrap_or_else(|| "none".into())
}

fn dir_name(d: IterDirection) -> &'static str {
    match d {
        IterDirection::Forward => "forward",
        IterDirection::Reverse => "reverse",
    }
}

/// Class of an iteration mismatch (stable part of the signature).
fn iter_class(u: &Universe, m: &Map, prefix: Option<&[u8]>, start: Option<&[u8]>, dir: IterDirection) -> String {
    if let (Some(ext), Some(p)) = (u.extractor, prefix) {
        if p.len() < ext && !(start.is_none() && dir == IterDirection::Reverse) {
            return format!("{}:prefix-shorter-than-the-column-prefix-extractor{}", dir_name(dir), if start.is_some() { "+start" } else { "" });
        }
    }
    match (prefix, start, dir) {
        (Some(p), None, IterDirection::Reverse) => {
            let trailing_ff = p.last() == Some(&0xFF) && p.iter().any(|b| *b != 0xFF);
            if trailing_ff {
                "reverse-prefix:prefix-ends-with-0xff".into()
            } else if successor(p).map(|s| m.contains_key(&s)).unwrap_or(false) {
                "reverse-prefix:successor-of-prefix-is-a-key".into()
            } else {
                "reverse-prefix:other".into()
            }
        }
        (p, s, d) => format!("{}:{}{}", dir_name(d), if p.is_some() { "prefix" } else { "noprefix" }, if s.is_some() { "+start" } else { "" }),
    }
}

/// Iteration code family of a backend name: the history-keeping store iterates through `RocksDb`.
fn family(who: &str) -> &'static str {
    if who.starts_with("MemoryStore") {
        "memory"
    } else {
        "rocksdb"
    }
}

fn show_map(m: &Map) -> String {
    show_entries(&m.iter().map(|(k, v)| (k.clone(), v.clone())).collect::<Vec<_>>())
}

/// Point reads and full scans of one column against the model (cheap contents check).
fn check_contents(u: &Universe, m: &Map, kv: &dyn IterableStore<Column = Column>, who: &str) -> Result<(), Violation> {
    let fam = family(who);
    for k in &u.keys {
        let got = kv.get(k, u.col).map_err(|e| viol("get-error", format!("{who}: get({}) failed: {e}", short(k))))?.map(|v| v.to_vec());
        let want = m.get(k).cloned();
        if got != want {
            return Err(viol(format!("get-mismatch:{fam}"), format!("{who}: get({}) = {:?}, model has {:?}", short(k), got.map(|v| hex(&v)), want.map(|v| hex(&v)))));
        }
        let ex = kv.exists(k, u.col).map_err(|e| viol("get-error", format!("{who}: exists failed: {e}")))?;
        if ex != m.contains_key(k) {
            return Err(viol(format!("exists-mismatch:{fam}"), format!("{who}: exists({}) = {ex}, model says {}", short(k), m.contains_key(k))));
        }
    }
    for dir in [IterDirection::Forward, IterDirection::Reverse] {
        let want = model_iter(m, None, None, dir).expect("defined");
        let got = real_iter(kv, u.col, None, None, dir).map_err(|e| viol("iter-error", format!("{who}: iter_store failed: {e}")))?;
        if got != want {
            return Err(viol(format!("scan-mismatch:{fam}"), format!("{who}: full {} scan of {} returned {} but the model holds {}", dir_name(dir), u.col.name(), show_entries(&got), show_entries(&want))));
        }
    }
    Ok(())
}

/// Compare every query of the universe on one backend with the model. Returns
/// one witness per distinct mismatch class (empty = everything agrees).
fn check_queries(u: &Universe, m: &Map, kv: &dyn IterableStore<Column = Column>, who: &str, mut on_query: impl FnMut()) -> Vec<Violation> {
    let fam = family(who);
    let mut out: Vec<Violation> = vec![];
    let mut push = |v: Violation| {
        if !out.iter().any(|o| o.sig == v.sig) {
            out.push(v);
        }
    };
    if let Err(v) = check_contents(u, m, kv, who) {
        push(v);
    }
    for p in &u.prefixes {
        for s in &u.starts {
            for dir in [IterDirection::Forward, IterDirection::Reverse] {
                let (p, s) = (p.as_deref(), s.as_deref());
                let Some(want) = model_iter(m, p, s, dir) else { continue };
                on_query();
                let entries = real_iter(kv, u.col, p, s, dir);
                match &entries {
                    Err(e) => push(viol("iter-error", format!("{who}: iter_store failed: {e}"))),
                    Ok(got) => {
                        if *got != want {
                            push(viol(
                                format!("iter-mismatch:{fam}:{}", iter_class(u, m, p, s, dir)),
                                format!(
                                    "{who}: iter_store({}, prefix={}, start={}, {}) returned {} but the sorted-map model gives {} (column contents {})",
                                    u.col.name(),
                                    show_opt(p),
                                    show_opt(s),
                                    dir_name(dir),
                                    show_entries(got),
                                    show_entries(&want),
                                    show_map(m)
                                ),
                            ));
                        }
                    }
                }
                let entries_agree = !matches!(&entries, Ok(got) if *got != want);
                match real_keys(kv, u.col, p, s, dir) {
                    Err(e) => push(viol("iter-error", format!("{who}: iter_store_keys failed: {e}"))),
                    Ok(gotk) => {
                        let wantk: Vec<Vec<u8>> = want.iter().map(|(k, _)| k.clone()).collect();
                        // (the key iterator shares the seek logic: reported only when the entry iterator was right)
                        if gotk != wantk && entries_agree {
                            push(viol(
                                format!("iter-keys-mismatch:{fam}:{}", iter_class(u, m, p, s, dir)),
                                format!(
                                    "{who}: iter_store_keys({}, prefix={}, start={}, {}) returned [{}] but the model gives [{}] (column contents {})",
                                    u.col.name(),
                                    show_opt(p),
                                    show_opt(s),
                                    dir_name(dir),
                                    gotk.iter().map(|k| short(k)).collect::<Vec<_>>().join(","),
                                    wantk.iter().map(|k| short(k)).collect::<Vec<_>>().join(","),
                                    show_map(m)
                                ),
                            ));
                        }
                    }
                }
            }
        }
    }
    out
}

// ---------------------------------------------------------------------------
// Part A: commit histories
// ---------------------------------------------------------------------------

/// slot = (universe index, key); value 0 = remove, 1 = v1, 2 = v2 (the empty value)
#[derive(Clone, Copy, Debug, Serialize, Deserialize, PartialEq, Eq)]
struct Atom {
    slot: u8,
    val: u8,
}

#[derive(Clone, Debug, Serialize, Deserialize)]
enum Op11 {
    /// `list == false`: `StorageChanges::Changes(sets[0])`; otherwise `ChangesList(sets)`.
    Commit { height: bool, list: bool, sets: Vec<Vec<Atom>> },
}

struct HistSubject {
    kind: Kind,
    /// run the whole query matrix after every commit (otherwise contents only)
    full_queries: bool,
    us: [Universe; 2],
    slots: Vec<(usize, Vec<u8>)>,
}

struct W11 {
    be: Backend,
    model: [Map; 2],
    next_height: u32,
}

fn value(val: u8) -> Option<Vec<u8>> {
    match val {
        0 => None,
        1 => Some(vec![0x11]),
        _ => Some(vec![]),
    }
}

impl HistSubject {
    fn new(kind: Kind) -> HistSubject {
        let us = [ux2(), uy2()];
        let mut ykey = vec![0u8; 31];
        ykey.extend([0x00, 0xFF]);
        let slots = vec![(0usize, vec![0x00, 0xFF]), (0usize, vec![0x01, 0x00]), (1usize, ykey)];
        HistSubject { kind, full_queries: true, us, slots }
    }
    fn changes_of(&self, set: &[Atom]) -> Changes {
        let mut c = Changes::default();
        for a in set {
            let (ui, key) = &self.slots[a.slot as usize];
            let op = match value(a.val) {
                None => WriteOperation::Remove,
                Some(v) => WriteOperation::Insert(v.into()),
            };
            c.entry(self.us[*ui].col as u32).or_default().insert(ReferenceBytesKey::from(key.clone()), op);
        }
        c
    }
    fn shape(&self, op: &Op11) -> &'static str {
        let Op11::Commit { list, sets, .. } = op;
        if sets.iter().all(|s| s.is_empty()) {
            return "empty";
        }
        if !*list {
            return "single_set";
        }
        if self.conflicting(sets) {
            return "list_conflicting";
        }
        if self.shares_column(sets) {
            return "list_sets_share_column";
        }
        "list_disjoint_columns"
    }
    fn conflicting(&self, sets: &[Vec<Atom>]) -> bool {
        let mut seen = BTreeSet::new();
        sets.iter().flatten().any(|a| !seen.insert(a.slot))
    }
    fn shares_column(&self, sets: &[Vec<Atom>]) -> bool {
        let mut seen = BTreeSet::new();
        for s in sets {
            let cols: BTreeSet<usize> = s.iter().map(|a| self.slots[a.slot as usize].0).collect();
            for c in cols {
                if !seen.insert(c) {
                    return true;
                }
            }
        }
        false
    }
    fn menu(&self) -> Vec<Op11> {
        let mut v = vec![];
        let n = self.slots.len() as u8;
        let vals = [1u8, 2, 0];
        let mk = |height: bool, list: bool, sets: Vec<Vec<Atom>>| Op11::Commit { height, list, sets };
        // single set, one atom (with and without height)
        for h in [true, false] {
            for s in 0..n {
                for &a in &vals {
                    v.push(mk(h, false, vec![vec![Atom { slot: s, val: a }]]));
                }
            }
        }
        // single set, two atoms in distinct slots
        for s1 in 0..n {
            for s2 in (s1 + 1)..n {
                for &a in &vals {
                    for &b in &vals {
                        v.push(mk(true, false, vec![vec![Atom { slot: s1, val: a }, Atom { slot: s2, val: b }]]));
                    }
                }
            }
        }
        // list of two one-atom sets in distinct slots (slots 0,1 share a column)
        for s1 in 0..n {
            for s2 in 0..n {
                if s1 == s2 || (s1 > s2 && self.slots[s1 as usize].0 != self.slots[s2 as usize].0) {
                    continue;
                }
                for &a in &vals {
                    for &b in &vals {
                        v.push(mk(true, true, vec![vec![Atom { slot: s1, val: a }], vec![Atom { slot: s2, val: b }]]));
                        if s1 < s2 && self.slots[s1 as usize].0 == self.slots[s2 as usize].0 {
                            v.push(mk(false, true, vec![vec![Atom { slot: s1, val: a }], vec![Atom { slot: s2, val: b }]]));
                        }
                    }
                }
            }
        }
        // list of three sets, first and last share a column
        for &a in &vals {
            for &b in &vals {
                v.push(mk(true, true, vec![vec![Atom { slot: 0, val: a }], vec![Atom { slot: 2, val: 1 }], vec![Atom { slot: 1, val: b }]]));
            }
        }
        // list with a two-atom set and a one-atom set sharing a column
        for &a in &vals {
            v.push(mk(true, true, vec![vec![Atom { slot: 0, val: a }, Atom { slot: 2, val: 1 }], vec![Atom { slot: 1, val: 1 }]]));
        }
        // list of one set
        for &a in &vals {
            v.push(mk(true, true, vec![vec![Atom { slot: 0, val: a }]]));
        }
        // conflicting lists: the same key in two sets
        for s in 0..n {
            for &a in &vals {
                for &b in &vals {
                    v.push(mk(true, true, vec![vec![Atom { slot: s, val: a }], vec![Atom { slot: s, val: b }]]));
                }
            }
        }
        for &a in &vals {
            v.push(mk(false, true, vec![vec![Atom { slot: 0, val: a }], vec![Atom { slot: 0, val: 1 }]]));
        }
        // empty
        v.push(mk(true, false, vec![vec![]]));
        v.push(mk(true, true, vec![]));
        v.push(mk(false, true, vec![]));
        v
    }
    fn dump(&self, w: &W11) -> String {
        let mut parts = vec![];
        for (i, m) in w.model.iter().enumerate() {
            parts.push(format!("{}:{}", i, show_entries(&m.iter().map(|(k, v)| (k.clone(), v.clone())).collect::<Vec<_>>())));
        }
        parts.join(" ")
    }
}

impl Subject for HistSubject {
    type World = W11;
    type Op = Op11;
    fn name(&self) -> String {
        format!("commit-histories[{}]", self.kind.name())
    }
    fn fresh(&self) -> W11 {
        W11 { be: Backend::open(self.kind), model: [Map::new(), Map::new()], next_height: 1 }
    }
    fn enabled(&self, w: &W11) -> Vec<Op11> {
        let mut v = vec![];
        if w.next_height == 1 && w.model.iter().all(|m| m.is_empty()) {
            // populate: every content of the three slots as one height-carrying set
            for code in 1..27u8 {
                let vals = [code % 3, (code / 3) % 3, (code / 9) % 3];
                let set: Vec<Atom> = vals.iter().enumerate().filter(|(_, v)| **v != 0).map(|(s, v)| Atom { slot: s as u8, val: *v }).collect();
                if set.len() == 3 {
                    v.push(Op11::Commit { height: true, list: false, sets: vec![set] });
                }
            }
        }
        v.extend(self.menu());
        v
    }
    fn label(&self, op: &Op11) -> String {
        self.shape(op).to_string()
    }
    fn interesting(&self, _op: &Op11, obs: &str) -> bool {
        !obs.starts_with("unchanged")
    }
    fn step(&self, w: &mut W11, op: &Op11) -> Result<String, Violation> {
        let Op11::Commit { height, list, sets } = op;
        let who = self.kind.name();
        let real: StorageChanges = if *list {
            StorageChanges::ChangesList(sets.iter().map(|s| self.changes_of(s)).collect())
        } else {
            StorageChanges::Changes(self.changes_of(&sets[0]))
        };
        let h = if *height { Some(w.next_height) } else { None };
        let conflict = *list && self.conflicting(sets);
        let before = w.model.clone();
        let r = w.be.commit(h, real);
        let verdict;
        if conflict {
            // the atomic reading: a list that writes one key twice is refused and nothing is stored
            if r.is_ok() {
                return Err(viol("conflicting-list:accepted", format!("{who}: a ChangesList writing the same key in two sets was accepted ({op:?}); RocksDb's conflict finder refuses it")));
            }
            verdict = "rejected";
        } else {
            if let Err(e) = r {
                return Err(viol("commit-rejected", format!("{who}: a non-conflicting commit was rejected: {e} ({op:?})")));
            }
            for set in sets {
                for a in set {
                    let (ui, key) = &self.slots[a.slot as usize];
                    match value(a.val) {
                        None => {
                            w.model[*ui].remove(key);
                        }
                        Some(v) => {
                            w.model[*ui].insert(key.clone(), v);
                        }
                    }
                }
            }
            if *height {
                w.next_height += 1;
            }
            verdict = "ok";
        }
        // contents (and, on fresh stores, every query) in both columns
        for (i, u) in self.us.iter().enumerate() {
            let found = if self.full_queries { check_queries(u, &w.model[i], w.be.kv(), &who, || {}).into_iter().next() } else { check_contents(u, &w.model[i], w.be.kv(), &who).err() };
            if let Some(v) = found {
                let content_class = v.sig.starts_with("get-") || v.sig.starts_with("exists-") || v.sig.starts_with("scan-");
                if conflict {
                    return Err(viol("conflicting-list:partially-applied", format!("a rejected ChangesList changed the store: {}", v.msg)));
                }
                if content_class && self.kind.keeps_history() && *list && *height && self.shares_column(sets) {
                    return Err(viol(
                        "historical-changeslist-same-column-lost-write",
                        format!("after committing {op:?} at height {:?}: {} (model contents now: {})", h, v.msg, self.dump(w)),
                    ));
                }
                if content_class {
                    return Err(viol(format!("contents-mismatch:{}", v.sig), format!("after {op:?}: {}", v.msg)));
                }
                return Err(v);
            }
        }
        let changed = before != w.model;
        Ok(format!("{}{} {}", if changed { "" } else { "unchanged " }, verdict, self.dump(w)))
    }
    fn canon(&self, w: &W11) -> Vec<u8> {
        format!("{:?}|{}", w.model, w.next_height).into_bytes()
    }
}

fn kinds() -> Vec<Kind> {
    vec![Kind::Memory, Kind::Rocks, Kind::Hist(Policy::NoRewind), Kind::Hist(Policy::Full), Kind::Hist(Policy::Range(1)), Kind::Hist(Policy::Range(2))]
}

// ---------------------------------------------------------------------------
// Part A (long-lived stores): every (prior content, letter) pair
// ---------------------------------------------------------------------------

fn restore_op(code: u8) -> Op11 {
    let vals = [code % 3, (code / 3) % 3, (code / 9) % 3];
    Op11::Commit { height: true, list: false, sets: vec![vals.iter().enumerate().map(|(s, v)| Atom { slot: s as u8, val: *v }).collect()] }
}

/// Sigs already re-checked on a fresh store (one confirmation per backend and class is enough).
static CONFIRMED: std::sync::Mutex<BTreeMap<String, bool>> = std::sync::Mutex::new(BTreeMap::new());

/// Does the class reproduce on fresh stores? Decided by re-executing its first witness.
fn reproduces_fresh(key: String, check: impl FnOnce() -> bool) -> bool {
    if let Some(r) = CONFIRMED.lock().unwrap().get(&key) {
        return *r;
    }
    let r = check();
    *CONFIRMED.lock().unwrap().entry(key).or_insert(r)
}

/// Replay `restore(code); op` on a fresh store; the violation of the second step, if any.
fn fresh_pair(subj: &HistSubject, code: u8, op: &Op11) -> Option<Violation> {
    let mut w = subj.fresh();
    let _ = subj.step(&mut w, &restore_op(code));
    subj.step(&mut w, op).err()
}

/// One store lives through: restore(content); then for every letter: letter, restore(content).
fn long_case(kind: Kind, code: u8, sw: &mut Sweep) {
    let mut subj = HistSubject::new(kind);
    subj.full_queries = false;
    let menu = subj.menu();
    let mut w = subj.fresh();
    let restore = restore_op(code);
    let nontrivial = |i: usize| Some(hash_of(&(kind.name(), code, i)));
    if let Err(v) = subj.step(&mut w, &restore) {
        sw.case(None, "error", || json!({"backend": kind.name(), "prior": code, "op": restore}), Err(v));
        return;
    }
    for (i, op) in menu.iter().enumerate() {
        let input = || json!({"backend": kind.name(), "prior": code, "op": op});
        let shape = subj.shape(op);
        match subj.step(&mut w, op) {
            Ok(_) => sw.case(nontrivial(i), shape, input, Ok(())),
            Err(v) => {
                let mut v = v;
                let mut fresh_sig = None;
                if !reproduces_fresh(format!("{}|{}", kind.name(), v.sig), || {
                    fresh_sig = fresh_pair(&subj, code, op).map(|f| f.sig);
                    fresh_sig.as_deref() == Some(v.sig.as_str())
                }) {
                    v = viol(format!("{}:only-on-a-long-lived-store", v.sig), format!("{} (the first witness of this class did not reproduce with the same two commits on a fresh store: {:?}; this store had seen {} commits)", v.msg, fresh_sig, 2 * i + 1));
                }
                sw.case(nontrivial(i), shape, input, Err(v));
            }
        }
        if let Err(v) = subj.step(&mut w, &restore) {
            sw.case(nontrivial(i), "restore", || json!({"backend": kind.name(), "prior": code, "op": restore, "after": op}), Err(viol(format!("after-restore:{}", v.sig), v.msg)));
            // resynchronise on a new store
            w = subj.fresh();
            let _ = subj.step(&mut w, &restore);
        }
    }
}

// ---------------------------------------------------------------------------
// Part B: key-set sweep
// ---------------------------------------------------------------------------

fn subsets(n: usize, max_size: Option<usize>) -> Vec<Vec<usize>> {
    match max_size {
        None => (0..(1usize << n)).map(|mask| (0..n).filter(|i| mask >> i & 1 == 1).collect()).collect(),
        Some(k) => {
            let mut out: Vec<Vec<usize>> = vec![vec![]];
            let mut layer: Vec<Vec<usize>> = vec![vec![]];
            for _ in 0..k {
                let mut next = vec![];
                for s in &layer {
                    let from = s.last().map(|l| l + 1).unwrap_or(0);
                    for i in from..n {
                        let mut t = s.clone();
                        t.push(i);
                        next.push(t);
                    }
                }
                out.extend(next.iter().cloned());
                layer = next;
            }
            out
        }
    }
}

fn sweep_value(i: usize) -> Vec<u8> {
    vec![0xA0, i as u8]
}

const SWEEP_KINDS: [Kind; 3] = [Kind::Memory, Kind::Rocks, Kind::Hist(Policy::Full)];

struct SweepStores {
    bes: Vec<(Kind, Backend)>,
    content: BTreeSet<usize>,
    next_height: u32,
}

impl SweepStores {
    fn open() -> SweepStores {
        SweepStores { bes: SWEEP_KINDS.iter().map(|k| (*k, Backend::open(*k))).collect(), content: BTreeSet::new(), next_height: 1 }
    }
    /// One height-carrying single change set that turns the stored key set into `subset`.
    fn move_to(&mut self, u: &Universe, subset: &[usize]) -> Result<Map, Violation> {
        let want: BTreeSet<usize> = subset.iter().copied().collect();
        let mut c = Changes::default();
        for &i in want.difference(&self.content) {
            c.entry(u.col as u32).or_default().insert(ReferenceBytesKey::from(u.keys[i].clone()), WriteOperation::Insert(sweep_value(i).into()));
        }
        for &i in self.content.difference(&want) {
            c.entry(u.col as u32).or_default().insert(ReferenceBytesKey::from(u.keys[i].clone()), WriteOperation::Remove);
        }
        for (k, be) in &self.bes {
            be.commit(Some(self.next_height), StorageChanges::Changes(c.clone())).map_err(|e| viol("commit-rejected", format!("{}: commit failed: {e}", k.name())))?;
        }
        self.next_height += 1;
        self.content = want;
        Ok(subset.iter().map(|i| (u.keys[*i].clone(), sweep_value(*i))).collect())
    }
}

#[derive(Serialize, Deserialize)]
struct SweepInput {
    universe: String,
    keys: Vec<String>,
}

/// Every query of the universe on every backend; returns (violations, evaluated queries).
fn sweep_checks(u: &Universe, m: &Map, bes: &[(Kind, Backend)]) -> (Vec<Violation>, u64) {
    let mut out: Vec<Violation> = vec![];
    let mut n = 0u64;
    // queries with a model answer
    for (k, be) in bes {
        for v in check_queries(u, m, be.kv(), &k.name(), || n += 1) {
            if !out.iter().any(|o| o.sig == v.sig) {
                out.push(v);
            }
        }
    }
    // queries whose start is outside the prefix: no model answer, the backends must still agree
    'q: for p in &u.prefixes {
        for s in &u.starts {
            let (Some(p), Some(s)) = (p.as_deref(), s.as_deref()) else { continue };
            if s.starts_with(p) {
                continue;
            }
            for dir in [IterDirection::Forward, IterDirection::Reverse] {
                n += bes.len() as u64;
                let answers: Vec<Result<Vec<(Vec<u8>, Vec<u8>)>, String>> = bes.iter().map(|(_, be)| real_iter(be.kv(), u.col, Some(p), Some(s), dir)).collect();
                if answers.iter().any(|a| a != &answers[0]) {
                    let shown: Vec<String> = bes
                        .iter()
                        .zip(answers.iter())
                        .map(|((k, _), a)| format!("{} -> {}", k.name(), a.as_ref().map(|v| show_entries(v)).unwrap_or_else(|e| format!("error {e}"))))
                        .collect();
                    out.push(viol(
                        "backends-disagree:start-outside-prefix",
                        format!("iter_store({}, prefix={}, start={}, {}) on contents {}: {}", u.col.name(), short(p), short(s), dir_name(dir), show_map(m), shown.join("; ")),
                    ));
                    break 'q;
                }
            }
        }
    }
    (out, n)
}

/// The key set committed as one change set to fresh stores (replay form of a sweep case).
fn sweep_fresh(u: &Universe, subset: &[usize]) -> Vec<Violation> {
    let mut st = SweepStores::open();
    match st.move_to(u, subset) {
        Err(v) => vec![v],
        Ok(m) => sweep_checks(u, &m, &st.bes).0,
    }
}

/// A contiguous chunk of key sets on one set of stores, moving from set to set with one commit each.
fn sweep_chunk(u: &Universe, chunk: &[Vec<usize>], sw: &mut Sweep) {
    let mut st = SweepStores::open();
    for subset in chunk {
        let input = || json!({"universe": u.name, "keys": subset.iter().map(|i| hex(&u.keys[*i])).collect::<Vec<_>>()});
        let nontrivial = if subset.is_empty() { None } else { Some(hash_of(&(u.name, subset))) };
        let m = match st.move_to(u, subset) {
            Ok(m) => m,
            Err(v) => {
                sw.case(nontrivial, "error", input, Err(v));
                st = SweepStores::open();
                continue;
            }
        };
        let (viols, n) = sweep_checks(u, &m, &st.bes);
        sw.evaluations += n.saturating_sub(1);
        if viols.is_empty() {
            sw.case(nontrivial, "every query agrees", input, Ok(()));
        }
        for (j, v) in viols.into_iter().enumerate() {
            if j > 0 {
                sw.evaluations = sw.evaluations.saturating_sub(1);
            }
            let mut v = v;
            if !reproduces_fresh(format!("{}|{}", u.name, v.sig), || sweep_fresh(u, subset).iter().any(|f| f.sig == v.sig)) {
                v = viol(format!("{}:only-on-a-long-lived-store", v.sig), format!("{} (the first witness of this class did not reproduce by committing the key set to fresh stores; these stores had seen {} commits)", v.msg, st.next_height - 1));
            }
            sw.case(nontrivial, "a query differs", input, Err(v));
        }
    }
}

fn sweeps(cli: &Cli) -> Vec<(Universe, Vec<Vec<usize>>)> {
    let k = cli.tier.pick(2, 3);
    vec![(ux2(), subsets(9, None)), (uy2(), subsets(9, None)), (ux3(), subsets(27, Some(k))), (uy3(), subsets(27, Some(k)))]
}

// ---------------------------------------------------------------------------

pub fn run(cli: &Cli) {
    let subjects: Vec<HistSubject> = kinds().into_iter().map(HistSubject::new).collect();
    let sweep_defs = sweeps(cli);
    if let Some(path) = &cli.replay {
        let rf = load_replay(path);
        for s in &subjects {
            if s.name() == rf.subject {
                crate::util::replay_exit(s, &rf);
            }
            if format!("commit-sweep[{}]", s.kind.name()) == rf.subject {
                let code = rf.history["prior"].as_u64().unwrap_or_else(|| machinery_failure("bad replay: prior")) as u8;
                let op: Op11 = serde_json::from_value(rf.history["op"].clone()).unwrap_or_else(|e| machinery_failure(&format!("bad replay: {e}")));
                let mut subj = HistSubject::new(s.kind);
                subj.full_queries = false;
                let r = guarded(|| fresh_pair(&subj, code, &op));
                scratch_cleanup();
                match r {
                    Ok(None) => {
                        println!("replay: restore({code}); {op:?} on a fresh {}: no violation", s.kind.name());
                        std::process::exit(0);
                    }
                    Ok(Some(v)) => println!("replay: {} / {}", v.sig, v.msg),
                    Err(p) => println!("replay: panic {p}"),
                }
                println!("VIOLATION property=C11 replay=(replayed)");
                std::process::exit(1);
            }
        }
        for (u, _) in &sweep_defs {
            if format!("iteration-sweep[{}]", u.name) == rf.subject {
                let inp: SweepInput = serde_json::from_value(rf.history.clone()).unwrap_or_else(|e| machinery_failure(&format!("bad sweep replay: {e}")));
                let subset: Vec<usize> = inp.keys.iter().map(|h| u.keys.iter().position(|k| &hex(k) == h).unwrap_or_else(|| machinery_failure("replay key not in universe"))).collect();
                let viols = sweep_fresh(u, &subset);
                scratch_cleanup();
                if viols.is_empty() {
                    println!("replay: key set {:?}: every query agrees", inp.keys);
                    std::process::exit(0);
                }
                for v in &viols {
                    println!("replay: {} / {}", v.sig, v.msg);
                }
                println!("VIOLATION property=C11 replay=(replayed)");
                std::process::exit(1);
            }
        }
        machinery_failure("replay: unknown subject");
    }
    let mut run = Run::new(cli, "model_checking");
    // (A1) breadth-first over commit histories on fresh stores
    let mut quiet = vec![];
    let depth_of = |s: &HistSubject| if s.kind == Kind::Memory { cli.tier.pick(2, 3) } else { cli.tier.pick(1, 2) };
    let max_depth = subjects.iter().map(depth_of).max().unwrap_or(0);
    let reports = crate::util::explore_parallel(&subjects, |s| Bounds::new(depth_of(s), cli).wall(cli.tier.pick(110, 1200)), cli.threads);
    for r in reports {
        crate::util::require_labels(&r, &["empty", "single_set", "list_conflicting", "list_sets_share_column", "list_disjoint_columns"]);
        if !r.violations.is_empty() || !r.exhaustive {
            run.add(r);
        } else {
            quiet.push(r);
        }
    }
    if !quiet.is_empty() {
        let n = quiet.len();
        run.add(merge_reports(&format!("commit-histories: {n} backend configurations without findings (merged)"), max_depth, quiet));
    }
    // (A2) every (content, letter) pair on long-lived stores
    let ks = kinds();
    for k in &ks {
        let sw = par_sweep(
            &format!("commit-sweep[{}]", k.name()),
            "for each of the 27 contents of the three slots: one store lives through restore(content) and then, for every letter of the commit menu, the letter followed by restore(content) (several hundred commits per store, heights increasing); after every commit get/exists of every universe key and full forward and reverse scans of both columns are compared with the model; one evaluation = one (content, letter) pair, all distinct; the first witness of each class is re-executed on a fresh store",
            27,
            cli.threads,
            |code, sw| long_case(*k, code as u8, sw),
        );
        run.add_sweep(sw);
    }
    // (B) every key set x every query
    for (u, subs) in &sweep_defs {
        let chunk = subs.len().div_ceil(cli.threads.max(1) * 2).max(1);
        let chunks: Vec<&[Vec<usize>]> = subs.chunks(chunk).collect();
        let sw = par_sweep(
            &format!("iteration-sweep[{}]", u.name),
            "for every key set (all subsets of the 9-key universes, all subsets up to the tier's size of the 27-key universes) held by MemoryStore / RocksDb / HistoricalRocksDB[RewindFullRange] (stores move from key set to key set by one commit; the first witness of each class is re-executed on fresh stores): get+exists for every universe key and iter_store + iter_store_keys for every prefix x start x direction of the universe's query lists; one evaluation = one query on one backend; non-trivial = non-empty key set, distinct by (universe, key set)",
            chunks.len(),
            cli.threads,
            |i, sw| sweep_chunk(u, chunks[i], sw),
        );
        run.add_sweep(sw);
    }
    run.note("scratch", json!(crate::util::scratch_root_description()));
    run.note("backends", json!(kinds().iter().map(|k| k.name()).collect::<Vec<_>>()));
    run.assume("keys have one fixed length per column (as every fuel-core table has); key bytes drawn from {00,01,FF}");
    run.assume("sorted-map model: entries whose key starts with the prefix and is >= start (forward) / <= start (reverse), in iteration order; when the start key does not itself start with the prefix no model answer is defined and the backends are only compared with each other");
    run.assume("a ChangesList that writes one key in two of its sets is expected to be refused without storing anything (RocksDb's documented conflict finder); reported under separate conflicting-list:* signatures");
    run.assume("heights handed to TransactableStorage::commit_changes are consecutive from 1 (what Database guarantees)");
    scratch_cleanup();
    run.finish();
}
