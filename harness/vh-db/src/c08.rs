//! C08 — the importer only commits the next unique block, atomically, in order.
//!
//! Real `fuel_core_importer::Importer` over a real `Database<OnChain>` (through
//! fuel-core's `ImporterDatabase for Database` adapter), with a scripted
//! `Validator`, a scripted `BlockVerifier` and a recording reconciliation port.
//! The database handed to the importer is a pure-delegation decorator that
//! drains the subscriber right before every commit, so that a notification sent
//! before its data is readable is observed deterministically.
use crate::c11::Policy;
use crate::util::{hex, merge_reports, replay_exit, scratch_cleanup, Scratch};
use fuel_core::{
    database::{database_description::on_chain::OnChain, Database},
    state::rocks_db::DatabaseConfig,
};
use fuel_core_importer::{
    ports::{BlockReconciliationWritePort, BlockVerifier, ImporterDatabase, Validator},
    Config, Importer, ImporterResult,
};
use fuel_core_storage::{
    column::Column,
    iter::{IterDirection, IterableStore},
    kv_store::{KeyValueInspect, StorageColumn, Value, WriteOperation},
    tables::{
        merkle::{DenseMerkleMetadata, DenseMetadataKey, FuelBlockMerkleMetadata},
        FuelBlocks, SealedBlockConsensus, Transactions,
    },
    transactional::{Changes, HistoricalView, ReadTransaction, ReferenceBytesKey, StorageChanges},
    MerkleRoot, Result as StorageResult, StorageAsMut, StorageAsRef,
};
use fuel_core_types::{
    blockchain::{
        block::Block,
        consensus::Consensus,
        header::PartialBlockHeader,
        SealedBlock,
    },
    fuel_tx::{policies::Policies, Transaction, UniqueIdentifier},
    fuel_types::{BlockHeight, Bytes32, ChainId},
    services::{
        block_importer::{ImportResult, UncommittedResult},
        executor::{Error as ExecutorError, Result as ExecutorResult, UncommittedValidationResult, ValidationResult},
        Uncommitted,
    },
};
use mcx::*;
use serde::{Deserialize, Serialize};
use serde_json::json;
use std::collections::BTreeMap;
use std::sync::{
    mpsc::{channel, Receiver, Sender},
    Arc, Mutex,
};
use std::time::Duration;
use tokio::sync::broadcast;

type Dump = BTreeMap<(u32, Vec<u8>), Vec<u8>>;

// ---------------------------------------------------------------------------
// Environment: scripted ports and the observing database decorator
// ---------------------------------------------------------------------------

#[derive(Clone, Debug, PartialEq, Eq)]
struct Notice {
    height: u32,
    id: [u8; 32],
    readable: bool,
    at: &'static str,
}

#[derive(Default)]
struct Probe {
    rx: Mutex<Option<broadcast::Receiver<ImporterResult>>>,
    log: Mutex<Vec<Notice>>,
}

fn id32(b: &SealedBlock) -> [u8; 32] {
    let mut a = [0u8; 32];
    a.copy_from_slice(b.entity.id().as_slice());
    a
}

fn block_readable(db: &Database<OnChain>, sealed: &SealedBlock) -> bool {
    let chain = ChainId::default();
    let h = *sealed.entity.header().height();
    let stored = db.storage::<FuelBlocks>().get(&h).ok().flatten().map(|c| c.into_owned());
    if stored != Some(sealed.entity.compress(&chain)) {
        return false;
    }
    let cons = db.storage::<SealedBlockConsensus>().get(&h).ok().flatten().map(|c| c.into_owned());
    if cons.as_ref() != Some(&sealed.consensus) {
        return false;
    }
    for tx in sealed.entity.transactions() {
        let got = db.storage::<Transactions>().get(&tx.id(&chain)).ok().flatten().map(|c| c.into_owned());
        if got.as_ref() != Some(tx) {
            return false;
        }
    }
    true
}

impl Probe {
    fn drain(&self, db: &Database<OnChain>, at: &'static str) {
        let mut g = self.rx.lock().unwrap();
        let Some(rx) = g.as_mut() else { return };
        loop {
            match rx.try_recv() {
                Ok(r) => {
                    let sealed = &r.shared_result.sealed_block;
                    let n = Notice { height: **sealed.entity.header().height(), id: id32(sealed), readable: block_readable(db, sealed), at };
                    self.log.lock().unwrap().push(n);
                }
                Err(broadcast::error::TryRecvError::Lagged(_)) => continue,
                Err(_) => break,
            }
        }
    }
}

struct ObservedDb {
    inner: Database<OnChain>,
    probe: Arc<Probe>,
}

impl KeyValueInspect for ObservedDb {
    type Column = Column;
    fn get(&self, key: &[u8], column: Column) -> StorageResult<Option<Value>> {
        self.inner.get(key, column)
    }
    fn exists(&self, key: &[u8], column: Column) -> StorageResult<bool> {
        self.inner.exists(key, column)
    }
    fn size_of_value(&self, key: &[u8], column: Column) -> StorageResult<Option<usize>> {
        self.inner.size_of_value(key, column)
    }
}

impl ImporterDatabase for ObservedDb {
    fn latest_block_height(&self) -> StorageResult<Option<BlockHeight>> {
        ImporterDatabase::latest_block_height(&self.inner)
    }
    fn latest_block_root(&self) -> StorageResult<Option<MerkleRoot>> {
        ImporterDatabase::latest_block_root(&self.inner)
    }
    fn commit_changes(&mut self, changes: StorageChanges) -> StorageResult<()> {
        // anything already announced at this point was announced before its commit
        self.probe.drain(&self.inner, "before-commit");
        ImporterDatabase::commit_changes(&mut self.inner, changes)
    }
}

#[derive(Default)]
struct ValidatorScript {
    result: Option<Result<Changes, ()>>,
    gate: Option<(Sender<()>, Receiver<()>)>,
    calls: u32,
}

#[derive(Clone, Default)]
struct ScriptedValidator(Arc<Mutex<ValidatorScript>>);

impl Validator for ScriptedValidator {
    fn validate(&self, _block: &Block) -> ExecutorResult<UncommittedValidationResult<Changes>> {
        let (result, gate) = {
            let mut s = self.0.lock().unwrap();
            s.calls += 1;
            (s.result.take(), s.gate.take())
        };
        if let Some((entered, release)) = gate {
            let _ = entered.send(());
            let _ = release.recv_timeout(Duration::from_secs(30));
        }
        match result {
            Some(Ok(changes)) => Ok(Uncommitted::new(ValidationResult { tx_status: vec![], events: vec![] }, changes)),
            Some(Err(())) => Err(ExecutorError::BlockMismatch),
            None => Err(ExecutorError::Other("validator called without a script".into())),
        }
    }
}

#[derive(Clone, Default)]
struct ScriptedVerifier(Arc<Mutex<bool>>);

impl BlockVerifier for ScriptedVerifier {
    fn verify_block_fields(&self, _consensus: &Consensus, _block: &Block) -> anyhow::Result<()> {
        if *self.0.lock().unwrap() {
            Err(anyhow::anyhow!("not verified"))
        } else {
            Ok(())
        }
    }
}

#[derive(Clone, Default)]
struct Publisher {
    fail: Arc<Mutex<bool>>,
    published: Arc<Mutex<Vec<u32>>>,
}

impl BlockReconciliationWritePort for Publisher {
    fn publish_produced_block(&self, block: &SealedBlock) -> anyhow::Result<()> {
        self.published.lock().unwrap().push(**block.entity.header().height());
        if *self.fail.lock().unwrap() {
            Err(anyhow::anyhow!("publish failed"))
        } else {
            Ok(())
        }
    }
}

// ---------------------------------------------------------------------------
// Alphabet
// ---------------------------------------------------------------------------

#[derive(Clone, Copy, Debug, Serialize, Deserialize, PartialEq, Eq)]
pub enum BlockKind {
    /// genesis consensus at height 0 / 5
    Genesis0,
    Genesis5,
    /// PoA at tip+1 without transactions
    NextA,
    /// PoA at tip+1 with one new transaction
    NextB,
    /// PoA at tip+1 carrying a transaction that an earlier block already stored
    NextWithStoredTx,
    /// PoA at tip+1 with two transactions: an already stored one, then a new one
    NextStoredThenNewTx,
    /// PoA at tip+1 with two transactions: a new one, then an already stored one
    NextNewThenStoredTx,
    /// the tip block again
    DuplicateTip,
    /// PoA at tip+2
    Skip,
    /// PoA at tip-1 (a new block at a stale height)
    Stale,
    /// PoA at height 0
    PoAZero,
}

#[derive(Clone, Copy, Debug, Serialize, Deserialize, PartialEq, Eq)]
pub enum ExecChanges {
    Empty,
    /// writes one coin-column entry per height
    Data,
    /// changes the latest root of the block Merkle accumulator
    TouchBlockMerkleRoot,
}

#[derive(Clone, Copy, Debug, Serialize, Deserialize, PartialEq, Eq)]
pub enum Fault {
    None,
    VerificationFails,
    ExecutionFails,
    PublishFails,
}

#[derive(Clone, Debug, Serialize, Deserialize)]
pub enum Op08 {
    /// `Importer::commit_result`
    Commit { block: BlockKind, changes: ExecChanges, local: bool, fault: Fault },
    /// `Importer::execute_and_commit`
    Execute { block: BlockKind, changes: ExecChanges, fault: Fault },
    /// `execute_and_commit(first)` is parked inside the validator, `second` is issued, then the first is released
    Concurrent { first: BlockKind, second: BlockKind, second_executes: bool },
}

pub struct Subject08 {
    rocks: Option<Policy>,
    /// import a genesis block and one block with a transaction before the exploration starts
    prefill: bool,
}

pub struct W08 {
    rt: tokio::runtime::Runtime,
    importer: Arc<Importer>,
    // the importer (and its database handle) goes before `db`, `db` before `dir`
    db: Database<OnChain>,
    _dir: Option<Scratch>,
    probe: Arc<Probe>,
    validator: ScriptedValidator,
    verifier: ScriptedVerifier,
    publisher: Publisher,
    // model
    chain: BTreeMap<u32, [u8; 32]>,
    tip_block: Option<SealedBlock>,
    stored_txs: Vec<Transaction>,
    notices_seen: usize,
    published_seen: usize,
    prefill_violation: Option<Violation>,
}

fn new_tx(height: u32, variant: u8) -> Transaction {
    Transaction::script(0, vec![], vec![0x7A, height as u8, variant], Policies::new(), vec![], vec![], vec![]).into()
}

fn make_block(height: u32, txs: Vec<Transaction>, genesis: bool, variant: u8) -> SealedBlock {
    let mut header = PartialBlockHeader::default();
    header.consensus.height = height.into();
    // distinct blocks at one height differ in their producer time
    header.consensus.time = fuel_core_types::tai64::Tai64(4611686018427387914 + variant as u64);
    let block = Block::new(header, txs, &[], Bytes32::zeroed()).expect("block");
    SealedBlock { entity: block, consensus: if genesis { Consensus::Genesis(Default::default()) } else { Consensus::PoA(Default::default()) } }
}

fn dump(db: &Database<OnChain>) -> Result<Dump, String> {
    let mut d = Dump::new();
    for id in 0..Column::COUNT as u32 {
        let Ok(col) = Column::try_from(id) else { continue };
        for r in db.iter_store(col, None, None, IterDirection::Forward) {
            let (k, v) = r.map_err(|e| format!("{e:?}"))?;
            d.insert((id, k), v.to_vec());
        }
    }
    Ok(d)
}

fn data_key(height: u32) -> Vec<u8> {
    let mut k = vec![0x33u8; 34];
    k[33] = height as u8;
    k
}

struct Planned {
    sealed: SealedBlock,
    /// the statement's conditions hold for this block on the current database
    admissible: bool,
    why: &'static str,
}

impl W08 {
    fn tip(&self) -> Option<u32> {
        self.chain.keys().next_back().copied()
    }
    fn plan(&mut self, kind: BlockKind) -> Option<Planned> {
        let tip = self.tip();
        let chain_id = ChainId::default();
        let stored = |tx: &Transaction, me: &W08| me.stored_txs.iter().any(|t| t.id(&chain_id) == tx.id(&chain_id));
        let p = match kind {
            BlockKind::Genesis0 | BlockKind::Genesis5 => {
                let h = if kind == BlockKind::Genesis0 { 0 } else { 5 };
                Planned { sealed: make_block(h, vec![], true, 0), admissible: tip.is_none(), why: "genesis needs an empty database" }
            }
            BlockKind::NextA => {
                let h = tip.map(|t| t + 1).unwrap_or(1);
                Planned { sealed: make_block(h, vec![], false, 0), admissible: tip.is_some(), why: "next height after the tip" }
            }
            BlockKind::NextB => {
                let h = tip.map(|t| t + 1).unwrap_or(1);
                Planned { sealed: make_block(h, vec![new_tx(h, 1)], false, 1), admissible: tip.is_some(), why: "next height after the tip, new transaction" }
            }
            BlockKind::NextWithStoredTx => {
                let tx = self.stored_txs.last()?.clone();
                let h = tip? + 1;
                let dup = stored(&tx, self);
                Planned { sealed: make_block(h, vec![tx], false, 3), admissible: !dup, why: "a transaction of the block already exists" }
            }
            BlockKind::NextStoredThenNewTx | BlockKind::NextNewThenStoredTx => {
                let old = self.stored_txs.last()?.clone();
                let h = tip? + 1;
                let dup = stored(&old, self);
                let (txs, variant) = if kind == BlockKind::NextStoredThenNewTx { (vec![old, new_tx(h, 4)], 4) } else { (vec![new_tx(h, 5), old], 5) };
                Planned { sealed: make_block(h, txs, false, variant), admissible: !dup, why: "one of the block's transactions already exists" }
            }
            BlockKind::DuplicateTip => {
                let b = self.tip_block.clone()?;
                if matches!(b.consensus, Consensus::Genesis(_)) {
                    // (a genesis duplicate is the Genesis letter on a non-empty database)
                    return None;
                }
                Planned { sealed: b, admissible: false, why: "the block exists already / stale height" }
            }
            BlockKind::Skip => {
                let h = tip? + 2;
                Planned { sealed: make_block(h, vec![], false, 0), admissible: false, why: "height is not tip+1" }
            }
            BlockKind::Stale => {
                let t = tip?;
                if t == 0 {
                    return None;
                }
                Planned { sealed: make_block(t - 1, vec![], false, 2), admissible: false, why: "height is not tip+1" }
            }
            BlockKind::PoAZero => Planned { sealed: make_block(0, vec![], false, 0), admissible: false, why: "non-genesis block at height 0" },
        };
        Some(p)
    }
    fn exec_changes(&self, c: ExecChanges, height: u32) -> Changes {
        match c {
            ExecChanges::Empty => Changes::default(),
            ExecChanges::Data => {
                let mut ch = Changes::default();
                ch.entry(Column::Coins.id()).or_default().insert(ReferenceBytesKey::from(data_key(height)), WriteOperation::Insert(vec![0xDA, height as u8].into()));
                ch
            }
            ExecChanges::TouchBlockMerkleRoot => {
                let mut tx = self.db.read_transaction();
                let mut root = [0x5Au8; 32];
                root[0] = height as u8;
                tx.storage_as_mut::<FuelBlockMerkleMetadata>().insert(&DenseMetadataKey::Latest, &DenseMerkleMetadata::new(root, 99)).expect("insert");
                tx.into_changes()
            }
        }
    }
    /// After a letter: compare the database and the notifications with the model.
    /// `committed`: the blocks (with their execution changes) that the model says were committed by the letter, in order.
    fn settle(&mut self, before: &Dump, committed: &[(SealedBlock, ExecChanges, bool)], what: &str) -> Result<String, Violation> {
        self.probe.drain(&self.db, "after-call");
        let after = dump(&self.db).map_err(|e| viol("read-error", e))?;
        let chain_id = ChainId::default();
        if committed.is_empty() {
            if &after != before {
                let diff: Vec<String> = after.iter().filter(|(k, v)| before.get(*k) != Some(*v)).map(|((c, k), _)| format!("{c}:{}", hex(k))).chain(before.keys().filter(|k| !after.contains_key(*k)).map(|(c, k)| format!("-{c}:{}", hex(k)))).collect();
                return Err(viol("failed-import-changed-database", format!("{what}: the import failed but the database changed: {}", diff.join(", "))));
            }
        } else {
            let allowed_new = [Column::FuelBlocks.id(), Column::FuelBlockMerkleData.id(), Column::FuelBlockMerkleMetadata.id(), Column::FuelBlockConsensus.id(), Column::Transactions.id(), Column::Metadata.id(), Column::Coins.id()];
            for (k, v) in before {
                let may_change = k.0 == Column::Metadata.id() || k.0 == Column::FuelBlockMerkleMetadata.id();
                match after.get(k) {
                    Some(v2) if v2 == v || may_change => {}
                    other => return Err(viol("import-modified-existing-entry", format!("{what}: entry {}:{} changed from {} to {:?}", k.0, hex(&k.1), hex(v), other.map(|o| hex(o))))),
                }
            }
            for k in after.keys() {
                if !before.contains_key(k) && !allowed_new.contains(&k.0) {
                    return Err(viol("import-wrote-unexpected-column", format!("{what}: new entry in column {}", k.0)));
                }
            }
            for (sealed, exec, local) in committed {
                let h = **sealed.entity.header().height();
                if !block_readable(&self.db, sealed) {
                    return Err(viol("committed-block-not-readable", format!("{what}: block {h} reported as imported but block / consensus / transactions are not all readable")));
                }
                if *exec == ExecChanges::Data && after.get(&(Column::Coins.id(), data_key(h))).is_none() {
                    return Err(viol("execution-changes-not-committed", format!("{what}: the execution changes of block {h} are missing")));
                }
                self.chain.insert(h, id32(sealed));
                self.tip_block = Some(sealed.clone());
                for tx in sealed.entity.transactions() {
                    self.stored_txs.push(tx.clone());
                }
                let _ = (local, &chain_id);
            }
        }
        // heights
        let tip = self.tip();
        let reported = self.db.latest_height().map(|h| *h);
        if reported != tip {
            return Err(viol("latest-height-wrong", format!("{what}: database height {reported:?}, model tip {tip:?}")));
        }
        // notifications: exactly the committed blocks, once, in order, readable at receipt, never before the commit
        let log = self.probe.log.lock().unwrap().clone();
        let new = &log[self.notices_seen..];
        let want: Vec<(u32, [u8; 32])> = committed.iter().map(|(s, _, _)| (**s.entity.header().height(), id32(s))).collect();
        let got: Vec<(u32, [u8; 32])> = new.iter().map(|n| (n.height, n.id)).collect();
        if let Some(n) = new.iter().find(|n| !n.readable || n.at == "before-commit") {
            return Err(viol(
                "announced-before-readable",
                format!("{what}: the notification for block {} was in the subscriber's channel {} and the block was {}readable", n.height, n.at, if n.readable { "" } else { "not " }),
            ));
        }
        if got != want {
            let class = if got.len() > want.len() {
                "unexpected-notification"
            } else if got.len() < want.len() {
                "missing-notification"
            } else {
                "wrong-notification"
            };
            return Err(viol(class, format!("{what}: subscribers received {:?}, expected {:?}", got.iter().map(|g| g.0).collect::<Vec<_>>(), want.iter().map(|g| g.0).collect::<Vec<_>>())));
        }
        self.notices_seen = log.len();
        Ok(format!("tip={tip:?} blocks={} notices={}", self.chain.len(), log.len()))
    }
}

impl Subject08 {
    fn menu(&self) -> Vec<Op08> {
        use BlockKind::*;
        let mut v = vec![];
        let all = [Genesis0, NextA, NextB, Genesis5, NextWithStoredTx, NextStoredThenNewTx, NextNewThenStoredTx, DuplicateTip, Skip, Stale, PoAZero];
        for b in all {
            v.push(Op08::Commit { block: b, changes: ExecChanges::Empty, local: false, fault: Fault::None });
        }
        for b in [NextA, NextB, Genesis0] {
            v.push(Op08::Commit { block: b, changes: ExecChanges::Data, local: true, fault: Fault::None });
        }
        for b in [NextA, NextB] {
            v.push(Op08::Commit { block: b, changes: ExecChanges::TouchBlockMerkleRoot, local: false, fault: Fault::None });
            v.push(Op08::Commit { block: b, changes: ExecChanges::Empty, local: true, fault: Fault::PublishFails });
        }
        v.push(Op08::Commit { block: NextA, changes: ExecChanges::Empty, local: false, fault: Fault::PublishFails });
        for b in all {
            v.push(Op08::Execute { block: b, changes: ExecChanges::Empty, fault: Fault::None });
        }
        for f in [Fault::VerificationFails, Fault::ExecutionFails] {
            v.push(Op08::Execute { block: NextA, changes: ExecChanges::Data, fault: f });
        }
        v.push(Op08::Execute { block: NextB, changes: ExecChanges::Data, fault: Fault::None });
        v.push(Op08::Execute { block: NextA, changes: ExecChanges::TouchBlockMerkleRoot, fault: Fault::None });
        v.push(Op08::Concurrent { first: NextA, second: NextB, second_executes: false });
        v.push(Op08::Concurrent { first: NextB, second: NextA, second_executes: true });
        v.push(Op08::Concurrent { first: NextA, second: Skip, second_executes: false });
        v
    }
}

impl Subject for Subject08 {
    type World = W08;
    type Op = Op08;
    fn name(&self) -> String {
        format!("importer[{}{}]", self.rocks.map(|p| format!("RocksDB/{}", p.name())).unwrap_or_else(|| "MemoryStore".into()), if self.prefill { ", 2 blocks pre-imported" } else { "" })
    }
    fn fresh(&self) -> W08 {
        let dir = self.rocks.map(|_| Scratch::new());
        let db = match (self.rocks, dir.as_ref()) {
            (Some(p), Some(d)) => Database::<OnChain>::open_rocksdb(d.path(), p.to_real(), DatabaseConfig::config_for_tests()).unwrap_or_else(|e| machinery_failure(&format!("cannot open the database: {e:?}"))),
            _ => Database::<OnChain>::in_memory(),
        };
        let probe = Arc::new(Probe::default());
        let validator = ScriptedValidator::default();
        let verifier = ScriptedVerifier::default();
        let publisher = Publisher::default();
        let observed = ObservedDb { inner: db.clone(), probe: probe.clone() };
        let importer = Importer::new(ChainId::default(), Config::new(false), observed, validator.clone(), verifier.clone(), publisher.clone());
        *probe.rx.lock().unwrap() = Some(importer.subscribe());
        let rt = tokio::runtime::Builder::new_current_thread().enable_time().build().expect("runtime");
        let mut w = W08 {
            rt,
            importer: Arc::new(importer),
            db,
            _dir: dir,
            probe,
            validator,
            verifier,
            publisher,
            chain: BTreeMap::new(),
            tip_block: None,
            stored_txs: vec![],
            notices_seen: 0,
            published_seen: 0,
            prefill_violation: None,
        };
        if self.prefill {
            for op in [
                Op08::Commit { block: BlockKind::Genesis0, changes: ExecChanges::Empty, local: false, fault: Fault::None },
                Op08::Commit { block: BlockKind::NextB, changes: ExecChanges::Data, local: true, fault: Fault::None },
            ] {
                if let Err(v) = self.step(&mut w, &op) {
                    w.prefill_violation = Some(viol(v.sig, format!("while importing the two pre-imported blocks: {}", v.msg)));
                    break;
                }
            }
        }
        w
    }
    fn enabled(&self, w: &W08) -> Vec<Op08> {
        // letters that need a tip / a stored transaction are offered only when they exist
        self.menu()
            .into_iter()
            .filter(|op| {
                let kinds: Vec<BlockKind> = match op {
                    Op08::Commit { block, .. } | Op08::Execute { block, .. } => vec![*block],
                    Op08::Concurrent { first, second, .. } => vec![*first, *second],
                };
                kinds.iter().all(|k| match k {
                    BlockKind::NextWithStoredTx | BlockKind::NextStoredThenNewTx | BlockKind::NextNewThenStoredTx => w.tip().is_some() && !w.stored_txs.is_empty(),
                    BlockKind::DuplicateTip => w.tip_block.as_ref().map(|b| !matches!(b.consensus, Consensus::Genesis(_))).unwrap_or(false),
                    BlockKind::Skip => w.tip().is_some(),
                    BlockKind::Stale => w.tip().map(|t| t > 0).unwrap_or(false),
                    _ => true,
                }) && (!matches!(op, Op08::Concurrent { .. }) || w.tip().is_some())
            })
            .collect()
    }
    fn label(&self, op: &Op08) -> String {
        match op {
            Op08::Commit { block, fault, changes, .. } | Op08::Execute { block, fault, changes, .. } => {
                let l = if matches!(op, Op08::Commit { .. }) { "commit" } else { "execute" };
                if *fault != Fault::None {
                    format!("{l}:{fault:?}")
                } else if *changes == ExecChanges::TouchBlockMerkleRoot {
                    format!("{l}:TouchBlockMerkleRoot")
                } else {
                    format!("{l}:{block:?}")
                }
            }
            Op08::Concurrent { .. } => "concurrent".into(),
        }
    }
    fn interesting(&self, _op: &Op08, obs: &str) -> bool {
        obs.starts_with("imported") || obs.starts_with("refused")
    }
    fn step(&self, w: &mut W08, op: &Op08) -> Result<String, Violation> {
        if let Some(v) = w.prefill_violation.clone() {
            return Err(v);
        }
        let before = dump(&w.db).map_err(|e| viol("read-error", e))?;
        match op {
            Op08::Commit { block, changes, local, fault } => {
                let Some(p) = w.plan(*block) else { return Ok("skipped (letter not applicable)".into()) };
                let h = **p.sealed.entity.header().height();
                let exec = w.exec_changes(*changes, h);
                *w.publisher.fail.lock().unwrap() = *fault == Fault::PublishFails;
                let import = if *local { ImportResult::new_from_local(p.sealed.clone(), vec![], vec![]) } else { ImportResult::new_from_network(p.sealed.clone(), vec![], vec![]) };
                let r = w.rt.block_on(w.importer.commit_result(UncommittedResult::new(import, exec)));
                let expect = p.admissible && *changes != ExecChanges::TouchBlockMerkleRoot && !(*local && *fault == Fault::PublishFails);
                let what = format!("commit_result({block:?} at height {h}, {changes:?}, {}, {fault:?})", if *local { "local" } else { "network" });
                verdict(&what, expect, &r.as_ref().map(|_| ()).map_err(|e| e.to_string()), p.why)?;
                let committed = if r.is_ok() { vec![(p.sealed.clone(), *changes, *local)] } else { vec![] };
                let obs = w.settle(&before, &committed, &what)?;
                // the reconciliation port sees exactly the locally produced blocks that reach the commit step
                let published = w.publisher.published.lock().unwrap().clone();
                let new_pub = &published[w.published_seen..];
                if r.is_ok() && *local && new_pub != [h] {
                    return Err(viol("local-block-not-published", format!("{what}: imported but the reconciliation port saw {new_pub:?}")));
                }
                if !*local && !new_pub.is_empty() {
                    return Err(viol("network-block-published", format!("{what}: a network block was handed to the reconciliation port")));
                }
                w.published_seen = published.len();
                Ok(format!("{} {obs}", if r.is_ok() { "imported" } else { "refused" }))
            }
            Op08::Execute { block, changes, fault } => {
                let Some(p) = w.plan(*block) else { return Ok("skipped (letter not applicable)".into()) };
                let h = **p.sealed.entity.header().height();
                let exec = w.exec_changes(*changes, h);
                *w.verifier.0.lock().unwrap() = *fault == Fault::VerificationFails;
                {
                    let mut s = w.validator.0.lock().unwrap();
                    s.result = Some(if *fault == Fault::ExecutionFails { Err(()) } else { Ok(exec) });
                    s.gate = None;
                }
                let r = w.rt.block_on(w.importer.execute_and_commit(p.sealed.clone()));
                let genesis = matches!(p.sealed.consensus, Consensus::Genesis(_));
                let expect = p.admissible && !genesis && *changes != ExecChanges::TouchBlockMerkleRoot && *fault == Fault::None;
                let what = format!("execute_and_commit({block:?} at height {h}, {changes:?}, {fault:?})");
                verdict(&what, expect, &r.as_ref().map(|_| ()).map_err(|e| e.to_string()), if genesis { "genesis blocks are not executed" } else { p.why })?;
                let committed = if r.is_ok() { vec![(p.sealed.clone(), *changes, false)] } else { vec![] };
                let obs = w.settle(&before, &committed, &what)?;
                Ok(format!("{} {obs}", if r.is_ok() { "imported" } else { "refused" }))
            }
            Op08::Concurrent { first, second, second_executes } => {
                let (Some(p1), Some(p2)) = (w.plan(*first), w.plan(*second)) else { return Ok("skipped (letter not applicable)".into()) };
                let what = format!("execute_and_commit({first:?}) parked in the validator while {}({second:?}) is issued", if *second_executes { "execute_and_commit" } else { "commit_result" });
                let (entered_tx, entered_rx) = channel();
                let (release_tx, release_rx) = channel();
                *w.verifier.0.lock().unwrap() = false;
                *w.publisher.fail.lock().unwrap() = false;
                {
                    let mut s = w.validator.0.lock().unwrap();
                    s.result = Some(Ok(Changes::default()));
                    s.gate = Some((entered_tx, release_rx));
                }
                let imp = w.importer.clone();
                let b1 = p1.sealed.clone();
                let h1 = w.rt.spawn(async move { imp.execute_and_commit(b1).await.map_err(|e| e.to_string()) });
                // drive the runtime until the first call sits inside the validator
                let parked = w.rt.block_on(async {
                    for _ in 0..20_000 {
                        if entered_rx.try_recv().is_ok() {
                            return true;
                        }
                        tokio::time::sleep(Duration::from_micros(500)).await;
                    }
                    false
                });
                if !parked {
                    let _ = release_tx.send(());
                    machinery_failure("the first concurrent call never reached the validator");
                }
                // the second call, while the first is in flight; it must come back by itself
                let imp = w.importer.clone();
                let b2 = p2.sealed.clone();
                let exec2 = *second_executes;
                let r2 = w.rt.block_on(async {
                    let call = async {
                        if exec2 {
                            imp.execute_and_commit(b2).await.map_err(|e| e.to_string())
                        } else {
                            imp.commit_result(UncommittedResult::new(ImportResult::new_from_network(b2, vec![], vec![]), Changes::default())).await.map_err(|e| e.to_string())
                        }
                    };
                    tokio::time::timeout(Duration::from_millis(1500), call).await
                });
                let _ = release_tx.send(());
                let r1 = w.rt.block_on(h1).unwrap_or_else(|e| Err(format!("task failed: {e}")));
                let Ok(r2) = r2 else {
                    // not refused and not finished while the first was in flight: the statement does not forbid queueing,
                    // but then the outcome cannot be attributed deterministically
                    return Err(viol("concurrent-call-neither-refused-nor-completed", format!("{what}: the second call was still pending after 1.5 s")));
                };
                // judge the calls in their completion order: second first (it returned while the first was parked)
                let mut committed = vec![];
                let mut tip = w.tip();
                for (r, p) in [(&r2, &p2), (&r1, &p1)] {
                    let h = **p.sealed.entity.header().height();
                    let admissible_now = matches!(p.sealed.consensus, Consensus::PoA(_)) && h != 0 && tip.map(|t| t + 1 == h).unwrap_or(false) && p.admissible;
                    if r.is_ok() {
                        if !admissible_now {
                            return Err(viol("concurrent-inadmissible-block-committed", format!("{what}: block at height {h} was imported on tip {tip:?}")));
                        }
                        committed.push((p.sealed.clone(), ExecChanges::Empty, false));
                        tip = Some(h);
                    }
                }
                if r1.is_err() && r2.is_err() {
                    return Err(viol("concurrent-both-refused", format!("{what}: neither call imported its admissible block (first: {r1:?}, second: {r2:?})")));
                }
                let obs = w.settle(&before, &committed, &what)?;
                Ok(format!("imported first={} second={} {obs}", r1.is_ok(), r2.is_ok()))
            }
        }
    }
    fn canon(&self, w: &W08) -> Vec<u8> {
        // (the metadata entry serialises a HashSet, whose byte order differs from instance to instance)
        let mut d = dump(&w.db).unwrap_or_default();
        d.retain(|k, _| k.0 != Column::Metadata.id());
        serde_json::to_vec(&(&w.chain, w.stored_txs.len(), d.len(), hash_of(&d))).unwrap()
    }
}

fn verdict(what: &str, expect_ok: bool, r: &Result<(), String>, why: &str) -> Result<(), Violation> {
    match (expect_ok, r) {
        (true, Err(e)) => Err(viol("admissible-block-refused", format!("{what}: every condition of the statement holds ({why}) but the import failed: {e}"))),
        (false, Ok(())) => Err(viol("inadmissible-block-committed", format!("{what}: imported although a condition of the statement is violated ({why})"))),
        _ => Ok(()),
    }
}

pub fn run(cli: &Cli) {
    let mut subs = vec![Subject08 { rocks: None, prefill: false }];
    subs.push(Subject08 { rocks: Some(Policy::NoRewind), prefill: true });
    if cli.tier == Tier::Thorough {
        subs.push(Subject08 { rocks: Some(Policy::Full), prefill: true });
    }
    if let Some(path) = &cli.replay {
        let rf = load_replay(path);
        for s in [Subject08 { rocks: None, prefill: false }, Subject08 { rocks: Some(Policy::NoRewind), prefill: true }, Subject08 { rocks: Some(Policy::Full), prefill: true }] {
            if s.name() == rf.subject {
                replay_exit(&s, &rf);
            }
        }
        machinery_failure("replay: unknown subject");
    }
    let mut run = Run::new(cli, "model_checking");
    let mut quiet = vec![];
    let depth_of = |s: &Subject08| if s.rocks.is_some() { cli.tier.pick(2, 3) } else { cli.tier.pick(4, 6) };
    let max_depth = subs.iter().map(depth_of).max().unwrap_or(0);
    let reports = crate::util::explore_parallel(&subs, |s| Bounds::new(depth_of(s), cli).wall(cli.tier.pick(110, 1200)), cli.threads);
    for r in reports {
        crate::util::require_labels(
            &r,
            &[
                "commit:Genesis0", "commit:NextA", "commit:NextB", "commit:NextWithStoredTx", "commit:NextStoredThenNewTx", "commit:NextNewThenStoredTx", "execute:NextStoredThenNewTx", "commit:DuplicateTip", "commit:Skip", "commit:Stale", "commit:PoAZero", "commit:PublishFails", "commit:TouchBlockMerkleRoot", "execute:NextA",
                "execute:VerificationFails", "execute:ExecutionFails", "execute:TouchBlockMerkleRoot", "concurrent",
            ],
        );
        if !r.violations.is_empty() || !r.exhaustive {
            run.add(r);
        } else {
            quiet.push(r);
        }
    }
    if !quiet.is_empty() {
        let n = quiet.len();
        run.add(merge_reports(&format!("importer: {n} database backends without findings (merged)"), max_depth, quiet));
    }
    run.note("scratch", json!(crate::util::scratch_root_description()));
    run.note("subjects", json!(subs.iter().map(|s| s.name()).collect::<Vec<_>>()));
    run.assume("Validator, BlockVerifier and the reconciliation port are scripted; the database is the real Database<OnChain> reached through fuel-core's ImporterDatabase adapter, wrapped in a pure-delegation decorator that drains the subscriber right before each commit");
    run.assume("a failing import is any Err from commit_result / execute_and_commit; 'unchanged' = byte-identical dump of every on-chain column");
    run.assume("concurrent calls: the statement does not require the second call to be refused, only that whatever is committed is the next unique block; a second call that neither fails nor completes while the first is parked is reported separately");
    scratch_cleanup();
    run.finish();
}
