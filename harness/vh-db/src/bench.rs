//! micro benchmark (debugging aid): cost of opening the backends
use crate::util::Scratch;
use fuel_core::{database::{database_description::on_chain::OnChain, Database}, state::{rocks_db::{DatabaseConfig, RocksDb}, historical_rocksdb::{HistoricalRocksDB, StateRewindPolicy}}};
use std::time::Instant;

pub fn run() {
    let n = 20;
    let t = Instant::now();
    for _ in 0..n {
        let d = Scratch::new();
        let db = RocksDb::<OnChain>::default_open(d.path(), DatabaseConfig::config_for_tests()).unwrap();
        drop(db);
    }
    println!("RocksDb open+drop: {:?} each", t.elapsed() / n);
    let t = Instant::now();
    for _ in 0..n {
        let d = Scratch::new();
        let db = HistoricalRocksDB::<OnChain>::default_open(d.path(), StateRewindPolicy::RewindFullRange, DatabaseConfig::config_for_tests()).unwrap();
        drop(db);
    }
    println!("Historical open+drop: {:?} each", t.elapsed() / n);
    let t = Instant::now();
    for _ in 0..n {
        let d = Scratch::new();
        let db = Database::<OnChain>::open_rocksdb(d.path(), StateRewindPolicy::RewindFullRange, DatabaseConfig::config_for_tests()).unwrap();
        drop(db);
    }
    println!("Database open+drop: {:?} each", t.elapsed() / n);
    let d = Scratch::new();
    let t = Instant::now();
    for _ in 0..n {
        let db = Database::<OnChain>::open_rocksdb(d.path(), StateRewindPolicy::RewindFullRange, DatabaseConfig::config_for_tests()).unwrap();
        drop(db);
    }
    println!("Database reopen same dir: {:?} each", t.elapsed() / n);
}

pub fn run2() {
    use fuel_core_storage::transactional::{Changes, Modifiable, ReferenceBytesKey};
    use fuel_core_storage::kv_store::WriteOperation;
    let n = 10;
    let t = Instant::now();
    for _ in 0..n {
        let d = Scratch::new();
        let mut db = Database::<OnChain>::open_rocksdb(d.path(), StateRewindPolicy::RewindFullRange, DatabaseConfig::config_for_tests()).unwrap();
        let t1 = Instant::now();
        let mut ch = Changes::default();
        ch.entry(7).or_default().insert(ReferenceBytesKey::from(0u32.to_be_bytes().to_vec()), WriteOperation::Insert(vec![1].into()));
        ch.entry(5).or_default().insert(ReferenceBytesKey::from(vec![0u8; 34]), WriteOperation::Insert(vec![1].into()));
        ch.entry(2).or_default().insert(ReferenceBytesKey::from(vec![0u8; 64]), WriteOperation::Insert(vec![1].into()));
        db.commit_changes(ch).unwrap();
        println!("  first commit {:?}", t1.elapsed());
        let _ = std::process::Command::new("du").arg("-sh").arg("--apparent-size").arg(d.path()).status();
        let _ = std::process::Command::new("du").arg("-sh").arg(d.path()).status();
        drop(db);
    }
    println!("Database open+commit+drop: {:?} each", t.elapsed() / n);
}
