//! C12 — historical views and rollbacks reproduce past state exactly.
//!
//! Real `Database<OnChain>` on RocksDB in a scratch directory. Alphabet:
//! height-linked commits with overlapping key writes, restart (drop every handle
//! and reopen, or copy the directory of the still-open database = process kill,
//! then open the copy) with any rewind policy, `rollback_last_block`.
//! After every letter, for every height ever committed: `view_at(h)` is a
//! no-history error or equals the model snapshot of height h exactly.
use crate::c11::Policy;
use crate::util::{hex, merge_reports, replay_exit, scratch_cleanup, Scratch};
use fuel_core::{
    database::{database_description::on_chain::OnChain, Database},
    state::rocks_db::DatabaseConfig,
};
use fuel_core_storage::{
    column::Column,
    kv_store::{KeyValueInspect, WriteOperation},
    transactional::{AtomicView, Changes, HistoricalView, Modifiable, ReferenceBytesKey},
};
use mcx::*;
use serde::{Deserialize, Serialize};
use serde_json::json;
use std::collections::{BTreeMap, BTreeSet};

const COLS: [Column; 3] = [Column::Coins, Column::ContractsState, Column::FuelBlocks];
const MAX_HEIGHT: u32 = 12;

type Snap = BTreeMap<(u8, Vec<u8>), Vec<u8>>;

fn slot_key(slot: u8) -> (u8, Vec<u8>) {
    match slot {
        // two adjacent 34-byte keys in `Coins`
        0 => (0, vec![0u8; 34]),
        1 => {
            let mut k = vec![0u8; 34];
            k[33] = 1;
            (0, k)
        }
        // a 64-byte key in `ContractsState` (32-byte prefix extractor)
        _ => (1, vec![0u8; 64]),
    }
}

fn block_key(h: u32) -> (u8, Vec<u8>) {
    (2, h.to_be_bytes().to_vec())
}

fn universe() -> Vec<(u8, Vec<u8>)> {
    let mut v: Vec<(u8, Vec<u8>)> = (0..3).map(slot_key).collect();
    for h in 0..=MAX_HEIGHT {
        v.push(block_key(h));
    }
    v
}

#[derive(Clone, Debug, Serialize, Deserialize, PartialEq, Eq)]
pub enum Delta {
    /// slot 0 := fresh value
    Put0,
    /// slot 1 := fresh value
    Put1,
    /// slot 0 and slot 2 (other column) := fresh value
    Put0And2,
    /// remove slot 0
    Del0,
    /// the block only
    Nothing,
    /// slot 0 := the value it already has (fresh if absent)
    Same0,
}

#[derive(Clone, Debug, Serialize, Deserialize)]
pub enum Op12 {
    Commit(Delta),
    Rollback,
    /// drop every handle, reopen with `policy`
    Restart { policy: Policy },
    /// copy the directory of the open database (process-kill image), open the copy with `policy`
    KillRestart { policy: Policy },
}

pub struct Subject12 {
    initial: Policy,
    first_height: u32,
    deltas: Vec<Delta>,
    policies: Vec<Policy>,
    kill: bool,
    max_depth: usize,
    /// blocks committed under the initial policy before the exploration starts
    prefill: u32,
}

pub struct W12 {
    // `db` is declared before `dir`: closed before the directory is removed
    db: Option<Database<OnChain>>,
    dir: Scratch,
    policy: Policy,
    tip: Option<u32>,
    /// model: state right after each retained height (and the empty state before the first block)
    snaps: BTreeMap<i64, Snap>,
    cur: Snap,
    commits: u8,
    /// heights whose reverse diff the documented policy semantics retain (only used while the policy never changed)
    hist: BTreeSet<u32>,
    constant_policy: bool,
    policy_changed: bool,
    restarted: bool,
    rolled_back: bool,
    views_ok: u32,
    views_nohist: u32,
    steps: usize,
    last_was_restart: bool,
    /// a violation met while committing the prefill blocks (reported by the first letter)
    prefill_violation: Option<Violation>,
}

fn open(dir: &std::path::Path, p: Policy) -> Result<Database<OnChain>, String> {
    Database::<OnChain>::open_rocksdb(dir, p.to_real(), DatabaseConfig::config_for_tests()).map_err(|e| format!("{e:?}"))
}

fn copy_dir(from: &std::path::Path, to: &std::path::Path) -> std::io::Result<()> {
    std::fs::create_dir_all(to)?;
    for e in std::fs::read_dir(from)? {
        let e = e?;
        let p = e.path();
        let t = to.join(e.file_name());
        if p.is_dir() {
            copy_dir(&p, &t)?;
        } else if e.file_name() != "LOCK" {
            match std::fs::copy(&p, &t) {
                Ok(_) => {}
                // an obsolete file purged by RocksDB while the image is taken
                Err(e) if e.kind() == std::io::ErrorKind::NotFound => {}
                Err(e) => return Err(e),
            }
        }
    }
    Ok(())
}

fn show_snap(s: &Snap) -> String {
    let v: Vec<String> = s
        .iter()
        .map(|((c, k), v)| {
            let name = match c {
                0 => format!("coin{}", k[33]),
                1 => "state".to_string(),
                _ => format!("block{}", u32::from_be_bytes(k[..4].try_into().unwrap())),
            };
            format!("{name}={}", hex(v))
        })
        .collect();
    format!("{{{}}}", v.join(","))
}

impl W12 {
    fn context(&self) -> &'static str {
        if self.policy_changed {
            "after-policy-change"
        } else if self.restarted {
            "same-policy-after-restart"
        } else if self.rolled_back {
            "same-policy-after-rollback"
        } else {
            "same-policy"
        }
    }
    fn db(&self) -> &Database<OnChain> {
        self.db.as_ref().expect("open")
    }
    fn read_state(kv: &dyn KeyValueInspect<Column = Column>) -> Result<Snap, String> {
        let mut s = Snap::new();
        for (c, k) in universe() {
            if let Some(v) = kv.get(&k, COLS[c as usize]).map_err(|e| format!("{e:?}"))? {
                s.insert((c, k), v.to_vec());
            }
        }
        Ok(s)
    }
    /// The oracle evaluated in every reached state.
    fn check(&mut self) -> Result<String, Violation> {
        let ctx = self.context();
        let real_tip = self.db().latest_height().map(|h| *h);
        // (after the only block was rolled back the chain is empty again and the height is not compared)
        if !self.snaps.is_empty() && real_tip != self.tip {
            return Err(viol(format!("latest-height-mismatch:{ctx}"), format!("latest_height() = {real_tip:?}, model tip {:?}", self.tip)));
        }
        // latest state, read directly and through latest_view()
        let direct = Self::read_state(self.db()).map_err(|e| viol("read-error", e))?;
        if direct != self.cur {
            return Err(viol(format!("latest-state-mismatch:{ctx}"), format!("latest state is {} but the model has {}", show_snap(&direct), show_snap(&self.cur))));
        }
        {
            let view = self.db().latest_view().map_err(|e| viol("latest-view-error", format!("{e:?}")))?;
            let viewed = Self::read_state(&view).map_err(|e| viol("read-error", e))?;
            if viewed != self.cur {
                return Err(viol(format!("latest-view-mismatch:{ctx}"), format!("latest_view() shows {} but the model has {}", show_snap(&viewed), show_snap(&self.cur))));
            }
        }
        // every retained height (including the state before the first block, when its height exists)
        let mut obs = vec![];
        let heights: Vec<i64> = self.snaps.keys().copied().filter(|h| *h >= 0).collect();
        for h in heights {
            let want = self.snaps[&h].clone();
            let r = self.db().view_at(&(h as u32).into());
            match r {
                Err(e) => {
                    let text = format!("{e:?}");
                    if !text.contains("NoHistoryForRequestedHeight") {
                        return Err(viol(format!("view-at-unexpected-error:{ctx}"), format!("view_at({h}) failed with something else than the no-history error: {text}")));
                    }
                    self.views_nohist += 1;
                    obs.push(format!("{h}:nohist"));
                }
                Ok(view) => {
                    let got = Self::read_state(&view).map_err(|e| viol(format!("view-read-error:{ctx}"), format!("reading through view_at({h}) failed: {e}")))?;
                    if got != want {
                        let later = self.snaps.iter().find(|(hh, s)| **hh > h && **s == got).map(|(hh, _)| *hh);
                        let earlier = self.snaps.iter().find(|(hh, s)| **hh < h && **s == got).map(|(hh, _)| *hh);
                        let class = if later.is_some() {
                            "view-at-returns-later-state"
                        } else if earlier.is_some() {
                            "view-at-returns-earlier-state"
                        } else {
                            "view-at-returns-mixed-state"
                        };
                        return Err(viol(
                            format!("{class}:{ctx}"),
                            format!(
                                "view_at({h}) succeeded and shows {} but right after block {h} the state was {}{} (tip {:?}, current policy {})",
                                show_snap(&got),
                                show_snap(&want),
                                later.or(earlier).map(|x| format!(" — it is the state of height {x}")).unwrap_or_default(),
                                self.tip,
                                self.policy.name()
                            ),
                        ));
                    }
                    self.views_ok += 1;
                    obs.push(format!("{h}:ok"));
                }
            }
        }
        Ok(format!("tip={:?} views[{}] state={}", self.tip, obs.join(" "), show_snap(&self.cur)))
    }
}

impl Subject12 {
    fn name_of(initial: Policy, first_height: u32, prefill: u32) -> String {
        format!("database-history[initial policy {}, first height {first_height}, {prefill} blocks pre-committed]", initial.name())
    }
    fn empty_world(&self) -> W12 {
        let dir = Scratch::new();
        let db = open(dir.path(), self.initial).unwrap_or_else(|e| machinery_failure(&format!("cannot open the database: {e}")));
        W12 {
            db: Some(db),
            dir,
            policy: self.initial,
            tip: None,
            snaps: BTreeMap::new(),
            cur: Snap::new(),
            commits: 0,
            hist: BTreeSet::new(),
            constant_policy: true,
            policy_changed: false,
            restarted: false,
            rolled_back: false,
            views_ok: 0,
            views_nohist: 0,
            steps: 0,
            last_was_restart: false,
            prefill_violation: None,
        }
    }
}

impl Subject for Subject12 {
    type World = W12;
    type Op = Op12;
    fn name(&self) -> String {
        Self::name_of(self.initial, self.first_height, self.prefill)
    }
    fn fresh(&self) -> W12 {
        let mut w = self.empty_world();
        for _ in 0..self.prefill {
            if let Err(v) = self.step(&mut w, &Op12::Commit(Delta::Put0And2)) {
                w.prefill_violation = Some(viol(v.sig, format!("while committing the {} prefill blocks: {}", self.prefill, v.msg)));
                break;
            }
        }
        w.steps = 0;
        w
    }
    fn enabled(&self, w: &W12) -> Vec<Op12> {
        let mut v = vec![];
        if w.tip.map(|t| t < MAX_HEIGHT).unwrap_or(true) {
            for d in &self.deltas {
                v.push(Op12::Commit(d.clone()));
            }
        }
        v.push(Op12::Rollback);
        // A restart before the first commit is another initial policy (a separate subject); two
        // restarts in a row equal the second one (the policy only acts at commit time).
        if w.commits > 0 && !w.last_was_restart {
            if w.steps + 1 >= self.max_depth {
                // last letter of a history: nothing is committed afterwards, so the policy cannot matter
                v.push(Op12::Restart { policy: w.policy });
                if self.kill {
                    v.push(Op12::KillRestart { policy: w.policy });
                }
            } else {
                for p in &self.policies {
                    v.push(Op12::Restart { policy: *p });
                }
                if self.kill {
                    v.push(Op12::KillRestart { policy: w.policy });
                }
            }
        }
        v
    }
    fn clone_world(&self, w: &W12) -> Option<W12> {
        // image of the open database (what a killed process leaves behind), opened with the same policy
        let dir = Scratch::new();
        copy_dir(w.dir.path(), dir.path()).ok()?;
        let db = open(dir.path(), w.policy).ok()?;
        Some(W12 {
            db: Some(db),
            dir,
            policy: w.policy,
            tip: w.tip,
            snaps: w.snaps.clone(),
            cur: w.cur.clone(),
            commits: w.commits,
            hist: w.hist.clone(),
            constant_policy: w.constant_policy,
            policy_changed: w.policy_changed,
            restarted: w.restarted,
            rolled_back: w.rolled_back,
            views_ok: w.views_ok,
            views_nohist: w.views_nohist,
            steps: w.steps,
            last_was_restart: w.last_was_restart,
            prefill_violation: w.prefill_violation.clone(),
        })
    }
    fn deviation(&self, op: &Op12) -> u32 {
        match op {
            Op12::Restart { .. } | Op12::KillRestart { .. } => 1,
            _ => 0,
        }
    }
    fn interesting(&self, op: &Op12, obs: &str) -> bool {
        // a historical view was really served, or a rollback/restart happened
        obs.contains(":ok") || !matches!(op, Op12::Commit(_))
    }
    fn step(&self, w: &mut W12, op: &Op12) -> Result<String, Violation> {
        let tag;
        if let Some(v) = w.prefill_violation.clone() {
            return Err(v);
        }
        w.steps += 1;
        w.last_was_restart = matches!(op, Op12::Restart { .. } | Op12::KillRestart { .. });
        match op {
            Op12::Commit(d) => {
                let h = match w.tip {
                    Some(t) => t + 1,
                    None => self.first_height,
                };
                w.commits += 1;
                let fresh = vec![0xB0, h as u8, w.commits];
                let mut writes: Vec<((u8, Vec<u8>), Option<Vec<u8>>)> = vec![(block_key(h), Some(vec![0xBB, w.commits]))];
                match d {
                    Delta::Put0 => writes.push((slot_key(0), Some(fresh))),
                    Delta::Put1 => writes.push((slot_key(1), Some(fresh))),
                    Delta::Put0And2 => {
                        writes.push((slot_key(0), Some(fresh.clone())));
                        writes.push((slot_key(2), Some(fresh)));
                    }
                    Delta::Del0 => writes.push((slot_key(0), None)),
                    Delta::Nothing => {}
                    Delta::Same0 => {
                        let v = w.cur.get(&slot_key(0)).cloned().unwrap_or(fresh);
                        writes.push((slot_key(0), Some(v)));
                    }
                }
                let mut ch = Changes::default();
                for ((c, k), v) in &writes {
                    let wop = match v {
                        Some(v) => WriteOperation::Insert(v.clone().into()),
                        None => WriteOperation::Remove,
                    };
                    ch.entry(COLS[*c as usize] as u32).or_default().insert(ReferenceBytesKey::from(k.clone()), wop);
                }
                if w.snaps.is_empty() {
                    w.snaps.insert(h as i64 - 1, Snap::new());
                }
                let r = w.db.as_mut().expect("open").commit_changes(ch);
                if let Err(e) = r {
                    return Err(viol(format!("linked-commit-rejected:{}", w.context()), format!("commit of block {h} on tip {:?} failed: {e:?}", w.tip)));
                }
                for (k, v) in writes {
                    match v {
                        Some(v) => {
                            w.cur.insert(k, v);
                        }
                        None => {
                            w.cur.remove(&k);
                        }
                    }
                }
                w.snaps.insert(h as i64, w.cur.clone());
                w.tip = Some(h);
                match w.policy {
                    Policy::NoRewind => {}
                    Policy::Full => {
                        w.hist.insert(h);
                    }
                    Policy::Range(n) => {
                        w.hist.remove(&((h as u64).saturating_sub(n) as u32));
                        w.hist.insert(h);
                    }
                }
                tag = format!("committed {h}");
            }
            Op12::Rollback => {
                let r = w.db().rollback_last_block();
                match (r, w.tip) {
                    (Err(_), None) => tag = "rollback refused (no height)".to_string(),
                    (Ok(()), None) => return Err(viol("rollback-without-height-succeeded", "rollback_last_block() returned Ok on a database without a height".to_string())),
                    (Err(e), Some(t)) => {
                        if w.constant_policy && w.hist.contains(&t) {
                            return Err(viol(
                                "rollback-failed-although-history-retained",
                                format!("policy {} was in force for the whole life of the database and retains the reverse diff of height {t}, but rollback_last_block() failed: {e:?}", w.policy.name()),
                            ));
                        }
                        tag = "rollback refused".to_string();
                        // nothing may have changed: checked below against the unchanged model
                    }
                    (Ok(()), Some(t)) => {
                        let prev = t as i64 - 1;
                        let Some(s) = w.snaps.get(&prev).cloned() else {
                            return Err(viol("rollback-below-first-block", format!("rollback of height {t} succeeded although no earlier state ever existed")));
                        };
                        w.snaps.remove(&(t as i64));
                        w.hist.remove(&t);
                        w.cur = s;
                        w.tip = if t == 0 { None } else { Some(t - 1) };
                        if w.snaps.len() == 1 {
                            // back before the first block: the chain is empty, the next commit starts a new one
                            w.snaps.clear();
                            w.tip = None;
                        }
                        w.rolled_back = true;
                        tag = format!("rolled back {t}");
                    }
                }
            }
            Op12::Restart { policy } | Op12::KillRestart { policy } => {
                let kill = matches!(op, Op12::KillRestart { .. });
                if kill {
                    let next = Scratch::new();
                    copy_dir(w.dir.path(), next.path()).unwrap_or_else(|e| machinery_failure(&format!("cannot copy the database directory: {e}")));
                    w.db = None;
                    w.dir = next;
                } else {
                    w.db = None;
                }
                if *policy != w.policy {
                    w.policy_changed = true;
                    w.constant_policy = false;
                }
                w.restarted = true;
                w.policy = *policy;
                match open(w.dir.path(), *policy) {
                    Ok(db) => w.db = Some(db),
                    Err(e) => return Err(viol(format!("reopen-failed:{}", w.context()), format!("reopening with {} failed: {e}", policy.name()))),
                }
                tag = format!("{} with {}", if kill { "killed+reopened" } else { "reopened" }, policy.name());
            }
        }
        let obs = w.check().map_err(|v| {
            // a refused rollback that changed something gets its own class
            if matches!(op, Op12::Rollback) && tag.starts_with("rollback refused") {
                viol(format!("refused-rollback-changed-state:{}", v.sig), v.msg)
            } else if matches!(op, Op12::Rollback) && v.sig.starts_with("latest-") {
                viol(format!("rollback-restored-wrong-state:{}", v.sig), v.msg)
            } else {
                v
            }
        })?;
        Ok(format!("{tag}; {obs}"))
    }
    fn canon(&self, w: &W12) -> Vec<u8> {
        let snaps: Vec<(i64, String)> = w.snaps.iter().map(|(h, s)| (*h, show_snap(s))).collect();
        serde_json::to_vec(&(snaps, w.tip, w.policy, &w.hist, w.constant_policy, w.policy_changed, w.restarted, w.rolled_back, w.commits, w.steps, w.last_was_restart)).unwrap()
    }
}

fn depth_of(cli: &Cli) -> usize {
    // every world costs several RocksDB opens (each spawning ~15 threads per column family)
    cli.tier.pick(2, 3)
}

fn subjects(cli: &Cli) -> Vec<Subject12> {
    let thorough = cli.tier == Tier::Thorough;
    let policies = vec![Policy::NoRewind, Policy::Full, Policy::Range(1), Policy::Range(2)];
    let deltas = if thorough { vec![Delta::Put0And2, Delta::Del0, Delta::Same0] } else { vec![Delta::Put0And2, Delta::Del0] };
    let mut v = vec![];
    // (first height, pre-committed blocks, initial policies)
    let all = policies.clone();
    let starts: Vec<(u32, u32, Vec<Policy>)> = if thorough { vec![(0, 2, all.clone()), (0, 0, all.clone()), (1, 0, vec![Policy::Full, Policy::Range(1)])] } else { vec![(0, 2, all.clone())] };
    for (first_height, prefill, initials) in starts {
        for p in &initials {
            v.push(Subject12 { initial: *p, first_height, deltas: deltas.clone(), policies: policies.clone(), kill: thorough, max_depth: depth_of(cli), prefill });
        }
    }
    v
}

// ---------------------------------------------------------------------------
// Commit / rollback chains under one constant policy (no restart letters)
// ---------------------------------------------------------------------------

fn chain_letters(cli: &Cli) -> Vec<Op12> {
    let mut v = vec![Op12::Commit(Delta::Put0), Op12::Commit(Delta::Put1), Op12::Rollback];
    if cli.tier == Tier::Thorough {
        v.push(Op12::Commit(Delta::Del0));
    }
    v
}

fn chain_subject(p: Policy) -> Subject12 {
    Subject12 { initial: p, first_height: 0, deltas: vec![], policies: vec![], kill: false, max_depth: 99, prefill: 2 }
}

fn chain_name(p: Policy) -> String {
    format!("rollback-chains[constant policy {}, 2 blocks pre-committed]", p.name())
}

/// Every word of exactly `depth` letters over commit(K) / commit(J) (/ delete K) / rollback, each on
/// its own database opened once with `p` and never restarted; the oracle runs after every letter.
fn chain_sweep(cli: &Cli, p: Policy, depth: usize) -> Sweep {
    let letters = chain_letters(cli);
    let n = letters.len().pow(depth as u32);
    let subj = chain_subject(p);
    par_sweep(
        &chain_name(p),
        "every word of the stated length over {commit writing key K (Coins), commit writing the adjacent key J, rollback_last_block (+ commit deleting K in the thorough tier)} executed on its own database (two blocks writing K pre-committed, one constant rewind policy, no restart); after every letter view_at(h) for every height of the model must be the no-history error or the exact snapshot, latest state = tip snapshot, rollback oracle as in the explorations; one evaluation = one word; non-trivial = the word contains a rollback followed by a commit; distinct by word",
        n,
        cli.threads,
        |i, sw| {
            let mut word = vec![];
            let mut x = i;
            for _ in 0..depth {
                word.push(letters[x % letters.len()].clone());
                x /= letters.len();
            }
            let rb_then_commit = word.iter().position(|o| matches!(o, Op12::Rollback)).map(|k| word[k..].iter().any(|o| matches!(o, Op12::Commit(_)))).unwrap_or(false);
            let nontrivial = if rb_then_commit { Some(hash_of(&i)) } else { None };
            let r = guarded(|| {
                let mut w = subj.fresh();
                for (k, op) in word.iter().enumerate() {
                    if let Err(v) = subj.step(&mut w, op) {
                        return Err((k, v));
                    }
                }
                Ok(())
            });
            match r {
                Ok(Ok(())) => sw.case(nontrivial, "every view exact or no-history", || json!(word), Ok(())),
                Ok(Err((k, v))) => sw.case(nontrivial, "violated", || json!(word[..=k]), Err(v)),
                Err(panic) => sw.case(nontrivial, "panic", || json!(word), Err(viol("panic", panic))),
            }
        },
    )
}

pub fn run(cli: &Cli) {
    let subs = subjects(cli);
    if let Some(path) = &cli.replay {
        let rf = load_replay(path);
        // replay files may come from the other tier: accept every letter
        for s in &subs {
            if s.name() == rf.subject {
                replay_exit(s, &rf);
            }
        }
        for p in [Policy::Full, Policy::Range(2)] {
            if chain_name(p) == rf.subject {
                replay_exit(&chain_subject(p), &rf);
            }
        }
        for p in [Policy::NoRewind, Policy::Full, Policy::Range(1), Policy::Range(2)] {
            for (fh, prefill) in [(0u32, 2u32), (0, 0), (1, 0)] {
                if Subject12::name_of(p, fh, prefill) == rf.subject {
                    let s = Subject12 { initial: p, first_height: fh, deltas: vec![], policies: vec![], kill: true, max_depth: 99, prefill };
                    replay_exit(&s, &rf);
                }
            }
        }
        machinery_failure("replay: unknown subject");
    }
    let mut run = Run::new(cli, "fault_enumeration");
    let depth = depth_of(cli);
    let devs = cli.tier.pick(2, 2);
    // subjects run concurrently
    let per_wall = cli.tier.pick(110u64, 1400);
    let mut quiet = vec![];
    let mut restart_points = 0usize;
    let reports = crate::util::explore_parallel(&subs, |_| Bounds::new(depth, cli).deviations(devs).wall(per_wall.max(5)), cli.threads);
    for r in reports {
        crate::util::require_labels(&r, &["Commit", "Rollback", "Restart"]);
        restart_points += r.label_hits.get("Restart").copied().unwrap_or(0) + r.label_hits.get("KillRestart").copied().unwrap_or(0);
        if !r.violations.is_empty() || !r.exhaustive {
            run.add(r);
        } else {
            quiet.push(r);
        }
    }
    if !quiet.is_empty() {
        let n = quiet.len();
        run.add(merge_reports(&format!("database-history: {n} configurations without findings (merged)"), depth, quiet));
    }
    let chain_depth = cli.tier.pick(5, 6);
    for p in [Policy::Full, Policy::Range(2)] {
        let sw = chain_sweep(cli, p, chain_depth);
        run.add_sweep(sw);
    }
    run.note("rollback_chain_word_length", json!(chain_depth));
    run.note("restart_points_enumerated", json!(restart_points));
    run.note("scratch", json!(crate::util::scratch_root_description()));
    run.note("fault_model", json!("restart points = every commit/rollback boundary of every explored history; restart = drop all handles without shutdown() and reopen with each rewind policy; thorough tier adds a process-kill image (directory copied while the database is open, then opened)"));
    run.assume("RocksDB WriteBatch commits are atomic (trusted); crash points are therefore the commit boundaries");
    run.assume("keys have one fixed length per column; state = Coins (2 adjacent keys), ContractsState (1 key), FuelBlocks (one entry per height); the Metadata column is not compared");
    run.assume("view_at(h) may fail with NoHistoryForRequestedHeight at any time (never required to succeed); rollback is required to succeed only while one rewind policy was in force for the whole life of the database and that policy's documented window retains the tip's reverse diff");
    scratch_cleanup();
    run.finish();
}
