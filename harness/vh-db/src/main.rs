//! vh-db: storage-backend and database checks on the real fuel-core code.
//!
//! * C11 — all storage backends store and iterate identically
//! * C12 — historical views and rollbacks reproduce past state exactly
//! * C09 — database commits are height-linked, reported height is exact
//! * C08 — the importer only commits the next unique block, atomically, in order
use mcx::*;

mod c08;
mod c09;
mod c11;
mod c12;
mod bench;
mod util;

fn main() {
    let cli = Cli::parse();
    util::scratch_init();
    if std::env::var_os("VH_DB_DEBUG_PANIC").is_some() {
        // debugging aid: print every panic with its location (disables mcx's quiet capture)
        mcx::install_panic_hook();
        std::panic::set_hook(Box::new(|info| eprintln!("PANIC: {info}")));
    }
    match cli.property.as_str() {
        "C11" => c11::run(&cli),
        "C12" => c12::run(&cli),
        "C09" => c09::run(&cli),
        "C08" => c08::run(&cli),
        "BENCH" => {
            bench::run();
            bench::run2();
            util::scratch_cleanup();
        }
        other => machinery_failure(&format!("vh-db does not serve {other}")),
    }
}
