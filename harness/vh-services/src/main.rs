//! vh-services: C41 (service lifecycle under any interleaving) and C42 (seqlock under
//! any thread schedule) on the real `fuel-core-services` crate.
mod c41;
mod c42;

fn main() {
    let cli = mcx::Cli::parse();
    match cli.property.as_str() {
        "C41" => c41::main(&cli),
        "C42" => c42::main(&cli),
        other => mcx::machinery_failure(&format!("vh-services does not serve {other}")),
    }
}
