pub fn main(_cli: &mcx::Cli) {
    mcx::machinery_failure("C41 not built yet");
}
