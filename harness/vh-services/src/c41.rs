//! C41 — services start and stop cleanly under any interleaving.
//!
//! Real `ServiceRunner<MockService>` (real `initialize_loop`, `run`, `run_task`,
//! `shutdown_task`, `start`/`stop`/`*_await`, `StateWatcher` helpers) on a
//! single-threaded tokio runtime with paused clock. The explorer owns every source of
//! scheduling: the spawned service task only runs inside `RunTask` / `Open` letters
//! (until it blocks again), client futures are held un-spawned by the harness and polled
//! one at a time by `Poll` letters (only when their waker fired), and every user hook of
//! the mock (`into_task`, each `run`, `shutdown`) awaits a gate that the explorer opens
//! with the outcome of its choice (continue / stop / error / panic).
use fuel_core_services::{EmptyShared, RunnableService, RunnableTask, Service, ServiceRunner, State, StateWatcher, TaskNextAction};
use mcx::*;
use serde::{Deserialize, Serialize};
use std::future::Future;
use std::pin::Pin;
use std::sync::atomic::{AtomicBool, Ordering};
use std::sync::{Arc, Mutex};
use std::task::{Context, Poll, Wake, Waker};

// ---------------------------------------------------------------------------
// gates + mock service
// ---------------------------------------------------------------------------

#[derive(Clone, Copy, Debug, PartialEq, Eq, Hash, PartialOrd, Ord, Serialize, Deserialize)]
pub enum GateKind {
    IntoTask,
    Run,
    Shutdown,
}

/// What the explorer lets a user hook do when it opens the hook's gate.
#[derive(Clone, Copy, Debug, PartialEq, Eq, Hash, PartialOrd, Ord, Serialize, Deserialize)]
pub enum Outcome {
    /// into_task: Ok(task); run: Continue; shutdown: Ok(())
    Fine,
    /// run only: TaskNextAction::Stop
    Stop,
    /// run only: TaskNextAction::ErrorContinue
    ErrorContinue,
    /// into_task / shutdown: Err(..)
    Err,
    /// unwinding panic inside the hook
    Panic,
}

#[derive(Default)]
struct Hub {
    waiting: Option<GateKind>,
    waker: Option<Waker>,
    released: Option<Outcome>,
    /// (hook, state seen through the hook's own StateWatcher at entry; shutdown has none)
    entries: Vec<(GateKind, Option<State>)>,
    calls: [u32; 3],
    gate_polls: u64,
}

type HubRef = Arc<Mutex<Hub>>;

struct GateFut {
    hub: HubRef,
    kind: GateKind,
}

impl Future for GateFut {
    type Output = Outcome;
    fn poll(self: Pin<&mut Self>, cx: &mut Context<'_>) -> Poll<Outcome> {
        let mut h = self.hub.lock().unwrap();
        h.gate_polls += 1;
        if let Some(o) = h.released.take() {
            h.waiting = None;
            h.waker = None;
            Poll::Ready(o)
        } else {
            h.waiting = Some(self.kind);
            h.waker = Some(cx.waker().clone());
            Poll::Pending
        }
    }
}

fn enter(hub: &HubRef, kind: GateKind, seen: Option<State>) -> GateFut {
    let mut h = hub.lock().unwrap();
    h.entries.push((kind, seen));
    h.calls[kind as usize] += 1;
    GateFut { hub: hub.clone(), kind }
}

/// A panic that unwinds like `panic!` but does not go through the process panic hook.
fn quiet_panic(msg: &str) -> ! {
    std::panic::resume_unwind(Box::new(msg.to_string()))
}

pub struct MockService {
    hub: HubRef,
}
pub struct MockTask {
    hub: HubRef,
}

#[async_trait::async_trait]
impl RunnableService for MockService {
    const NAME: &'static str = "VerifMockService";
    type SharedData = EmptyShared;
    type Task = MockTask;
    type TaskParams = ();

    fn shared_data(&self) -> EmptyShared {
        EmptyShared
    }

    async fn into_task(self, state_watcher: &StateWatcher, _params: ()) -> anyhow::Result<MockTask> {
        let seen = state_watcher.borrow().clone();
        match enter(&self.hub, GateKind::IntoTask, Some(seen)).await {
            Outcome::Err => Err(anyhow::anyhow!("mock initialisation error")),
            Outcome::Panic => quiet_panic("mock panic in into_task"),
            _ => Ok(MockTask { hub: self.hub.clone() }),
        }
    }
}

impl RunnableTask for MockTask {
    async fn run(&mut self, watcher: &mut StateWatcher) -> TaskNextAction {
        let seen = watcher.borrow().clone();
        match enter(&self.hub, GateKind::Run, Some(seen)).await {
            Outcome::Stop => TaskNextAction::Stop,
            Outcome::ErrorContinue | Outcome::Err => TaskNextAction::ErrorContinue(anyhow::anyhow!("mock run error")),
            Outcome::Panic => quiet_panic("mock panic in run"),
            Outcome::Fine => TaskNextAction::Continue,
        }
    }

    async fn shutdown(self) -> anyhow::Result<()> {
        match enter(&self.hub, GateKind::Shutdown, None).await {
            Outcome::Err => Err(anyhow::anyhow!("mock shutdown error")),
            Outcome::Panic => quiet_panic("mock panic in shutdown"),
            _ => Ok(()),
        }
    }
}

// ---------------------------------------------------------------------------
// clients
// ---------------------------------------------------------------------------

#[derive(Clone, Copy, Debug, PartialEq, Eq, Hash, PartialOrd, Ord, Serialize, Deserialize)]
pub enum ClientKind {
    StartAndAwait,
    StopAndAwait,
    AwaitStop,
    AwaitStartOrStop,
    /// a `StateWatcher` holder awaiting `while_started`
    WhileStarted,
    /// a `StateWatcher` holder awaiting `wait_stopping_or_stopped`
    WaitStoppingOrStopped,
}

impl ClientKind {
    fn borrows_runner(self) -> bool {
        !matches!(self, ClientKind::WhileStarted | ClientKind::WaitStoppingOrStopped)
    }
}

/// (returned Ok?, state carried by the result)
type ClientOut = (bool, Option<State>);

struct Flag(AtomicBool);
impl Wake for Flag {
    fn wake(self: Arc<Self>) {
        self.0.store(true, Ordering::SeqCst);
    }
    fn wake_by_ref(self: &Arc<Self>) {
        self.0.store(true, Ordering::SeqCst);
    }
}

struct Client {
    kind: ClientKind,
    fut: Option<Pin<Box<dyn Future<Output = ClientOut>>>>,
    flag: Arc<Flag>,
    /// Some once resolved
    done: Option<ClientOut>,
    /// dropped together with the runner while pending
    cancelled: bool,
}

type Runner = ServiceRunner<MockService>;

fn client_future(kind: ClientKind, r: &Arc<Runner>) -> Pin<Box<dyn Future<Output = ClientOut>>> {
    fn st(r: anyhow::Result<State>) -> ClientOut {
        match r {
            Ok(s) => (true, Some(s)),
            Err(_) => (false, None),
        }
    }
    match kind {
        ClientKind::StartAndAwait => {
            let r = r.clone();
            Box::pin(async move { st(r.start_and_await().await) })
        }
        ClientKind::StopAndAwait => {
            let r = r.clone();
            Box::pin(async move { st(r.stop_and_await().await) })
        }
        ClientKind::AwaitStop => {
            let r = r.clone();
            Box::pin(async move { st(r.await_stop().await) })
        }
        ClientKind::AwaitStartOrStop => {
            let r = r.clone();
            Box::pin(async move { st(r.await_start_or_stop().await) })
        }
        ClientKind::WhileStarted => {
            let mut w = r.state_watcher();
            Box::pin(async move { st(w.while_started().await) })
        }
        ClientKind::WaitStoppingOrStopped => {
            let mut w = r.state_watcher();
            Box::pin(async move { (w.wait_stopping_or_stopped().await.is_ok(), None) })
        }
    }
}

// ---------------------------------------------------------------------------
// letters
// ---------------------------------------------------------------------------

#[derive(Clone, Debug, PartialEq, Eq, Serialize, Deserialize)]
pub enum Op {
    /// let the runtime poll the spawned service task until it blocks again
    RunTask,
    /// `Service::start()`
    Start,
    /// `Service::stop()`
    Stop,
    /// create a client future and poll it once
    Begin(ClientKind),
    /// poll pending client #i once (its waker fired)
    Poll(usize),
    /// open the gate the service task is waiting at, then let the task run until it blocks again
    Open(Outcome),
    /// drop the `ServiceRunner` (and the pending client futures that borrow it)
    DropRunner,
    /// end of history: open every remaining gate with the benign outcome, poll every
    /// woken client, then check that no await-for-stop is still pending
    Drain,
}

// ---------------------------------------------------------------------------
// world
// ---------------------------------------------------------------------------

fn rank(s: &State) -> u8 {
    match s {
        State::NotStarted => 0,
        State::Starting => 1,
        State::Started => 2,
        State::Stopping => 3,
        State::Stopped | State::StoppedWithError(_) => 4,
    }
}

pub struct World {
    // drop order matters: client futures, then the runner, then the runtime
    clients: Vec<Client>,
    runner: Option<Arc<Runner>>,
    obs: StateWatcher,
    hub: HubRef,
    rt: tokio::runtime::Runtime,
    task_polled: bool,
    stop_requested: bool,
    /// highest state observed so far (the observed sequence must never go below it)
    high: State,
    stopped_seen: bool,
    released: Vec<(GateKind, Outcome)>,
    drained: bool,
}

impl World {
    fn new() -> World {
        let rt = tokio::runtime::Builder::new_current_thread().enable_time().start_paused(true).build().expect("runtime");
        let hub: HubRef = Arc::new(Mutex::new(Hub::default()));
        let runner = {
            let _g = rt.enter();
            Arc::new(Runner::verif_new_unregistered(MockService { hub: hub.clone() }, ()))
        };
        let obs = runner.state_watcher();
        World {
            clients: vec![],
            runner: Some(runner),
            obs,
            hub,
            rt,
            task_polled: false,
            stop_requested: false,
            high: State::NotStarted,
            stopped_seen: false,
            released: vec![],
            drained: false,
        }
    }

    fn state(&self) -> State {
        let via_watcher = self.obs.borrow().clone();
        if let Some(r) = &self.runner {
            let s = r.state();
            assert_eq!(s, via_watcher, "ServiceRunner::state and a StateWatcher disagree");
        }
        via_watcher
    }

    fn progress(&self) -> (u64, [u32; 3], State) {
        let h = self.hub.lock().unwrap();
        (h.gate_polls, h.calls, self.obs.borrow().clone())
    }

    /// Drive the runtime until the spawned service task is blocked again.
    fn settle(&mut self) {
        let turn = |rt: &tokio::runtime::Runtime| {
            rt.block_on(async {
                for _ in 0..3 {
                    tokio::task::yield_now().await;
                }
            })
        };
        turn(&self.rt);
        self.task_polled = true;
        let p = self.progress();
        turn(&self.rt);
        if self.progress() != p {
            // the task moved again without any input: not quiescent after a full turn
            let mut last = self.progress();
            for _ in 0..16 {
                turn(&self.rt);
                let now = self.progress();
                if now == last {
                    return;
                }
                last = now;
            }
            panic!("service task does not reach quiescence");
        }
    }

    fn observe(&mut self, s: &State, at: &str) -> Result<(), Violation> {
        if rank(s) < rank(&self.high) {
            return Err(viol(
                "c41-state-went-backwards",
                format!("state observed {at} is {s:?} after {:?} had been observed; expected the state to only move forward", self.high),
            ));
        }
        if rank(s) > rank(&self.high) {
            self.high = s.clone();
        }
        Ok(())
    }

    /// Oracle over what the hooks recorded since the last call, then over the current state.
    fn check_after(&mut self, at: &str) -> Result<String, Violation> {
        let (entries, calls) = {
            let mut h = self.hub.lock().unwrap();
            (std::mem::take(&mut h.entries), h.calls)
        };
        let mut log = String::new();
        for (kind, seen) in entries {
            if kind != GateKind::Shutdown {
                let stopped_now = seen.as_ref().map(|s| s.stopped()).unwrap_or(false);
                if self.stopped_seen || stopped_now {
                    return Err(viol(
                        "c41-ran-after-stopped",
                        format!("{kind:?} hook invoked (seeing {seen:?}) after the service had been observed stopped ({:?}); expected a stopped service never to run again", self.high),
                    ));
                }
            }
            if let Some(s) = &seen {
                self.observe(s, &format!("inside the {kind:?} hook"))?;
            }
            log.push_str(&format!(" hook:{kind:?}@{}", seen.map(|s| format!("{s:?}")).unwrap_or_else(|| "-".into())));
        }
        if calls[GateKind::Shutdown as usize] > 1 {
            return Err(viol("c41-shutdown-twice", format!("shutdown invoked {} times; expected at most once", calls[GateKind::Shutdown as usize])));
        }
        if calls[GateKind::IntoTask as usize] > 1 {
            return Err(viol("c41-ran-after-stopped", format!("into_task invoked {} times", calls[GateKind::IntoTask as usize])));
        }
        let s = self.state();
        self.observe(&s, at)?;
        if s.stopped() {
            self.stopped_seen = true;
        }
        log.push_str(&format!(" state={s:?}"));
        Ok(log)
    }

    fn poll_client(&mut self, i: usize) -> Result<String, Violation> {
        let c = &mut self.clients[i];
        c.flag.0.store(false, Ordering::SeqCst);
        let waker = Waker::from(c.flag.clone());
        let mut cx = Context::from_waker(&waker);
        let fut = c.fut.as_mut().expect("pending client has a future");
        match fut.as_mut().poll(&mut cx) {
            Poll::Pending => Ok(format!("{:?}#{i}:pending", c.kind)),
            Poll::Ready(out) => {
                c.fut = None;
                c.done = Some(out.clone());
                let kind = c.kind;
                if let Some(s) = &out.1 {
                    self.observe(s, &format!("as the result of {kind:?}"))?;
                }
                Ok(format!("{kind:?}#{i}:{}({})", if out.0 { "Ok" } else { "Err" }, out.1.map(|s| format!("{s:?}")).unwrap_or_default()))
            }
        }
    }

    fn open(&mut self, o: Outcome) -> GateKind {
        let (kind, waker) = {
            let mut h = self.hub.lock().unwrap();
            let kind = h.waiting.expect("Open without a waiting gate");
            h.released = Some(o);
            (kind, h.waker.take())
        };
        if let Some(w) = waker {
            w.wake();
        }
        self.released.push((kind, o));
        kind
    }

    fn drain(&mut self) -> Result<String, Violation> {
        self.drained = true;
        let mut log = String::from("drain:");
        let mut opened = 0;
        loop {
            self.settle();
            log.push_str(&self.check_after("while draining")?);
            let waiting = self.hub.lock().unwrap().waiting;
            match waiting {
                None => break,
                Some(kind) => {
                    if opened >= 6 {
                        return Err(viol(
                            "c41-service-keeps-running-after-stop",
                            format!("stop was requested, yet after 6 benign gate releases the service task still waits in {kind:?} (state {:?}); expected it to wind down", self.state()),
                        ));
                    }
                    opened += 1;
                    self.open(Outcome::Fine);
                    log.push_str(&format!(" open:{kind:?}"));
                }
            }
        }
        for _ in 0..8 {
            let woken: Vec<usize> = (0..self.clients.len()).filter(|&i| self.clients[i].fut.is_some() && self.clients[i].flag.0.load(Ordering::SeqCst)).collect();
            if woken.is_empty() {
                break;
            }
            for i in woken {
                let r = self.poll_client(i)?;
                log.push_str(&format!(" {r}"));
            }
        }
        let s = self.state();
        for (i, c) in self.clients.iter().enumerate() {
            if c.fut.is_some() && matches!(c.kind, ClientKind::StopAndAwait | ClientKind::AwaitStop) {
                return Err(viol(
                    "c41-await-stop-pending",
                    format!("{:?} (client #{i}) is still pending although stop was requested, every gate was released and the service is quiescent in state {s:?}; expected every await for stop to return", c.kind),
                ));
            }
        }
        for (i, c) in self.clients.iter().enumerate() {
            if c.fut.is_some() && c.kind == ClientKind::WaitStoppingOrStopped {
                return Err(viol(
                    "c41-wait-stopping-or-stopped-pending",
                    format!("StateWatcher::wait_stopping_or_stopped (client #{i}) is still pending although stop was requested, every gate was released and the service is quiescent in state {s:?}; expected this await for stop to return"),
                ));
            }
        }
        Ok(log)
    }
}

// ---------------------------------------------------------------------------
// subject
// ---------------------------------------------------------------------------

pub struct Lifecycle {
    pub max_clients: usize,
    pub kinds: Vec<ClientKind>,
    pub with_drop: bool,
}

impl Subject for Lifecycle {
    type World = World;
    type Op = Op;

    fn name(&self) -> String {
        format!("ServiceRunner<MockService> lifecycle [<= {} clients of {} kinds{}]", self.max_clients, self.kinds.len(), if self.with_drop { ", drop" } else { "" })
    }

    fn fresh(&self) -> World {
        World::new()
    }

    fn enabled(&self, w: &World) -> Vec<Op> {
        if w.drained {
            return vec![];
        }
        let mut ops = vec![];
        let s = w.state();
        let waiting = w.hub.lock().unwrap().waiting;
        // the task can only make a step of its own if it was never polled, or if it waits
        // for the start signal and the state has changed since
        let task_blocked = waiting.is_some() || (w.task_polled && s.not_started());
        if !task_blocked {
            ops.push(Op::RunTask);
        }
        if let Some(kind) = waiting {
            match kind {
                GateKind::IntoTask => ops.extend([Outcome::Fine, Outcome::Err, Outcome::Panic].map(Op::Open)),
                GateKind::Run => ops.extend([Outcome::Fine, Outcome::Stop, Outcome::ErrorContinue, Outcome::Panic].map(Op::Open)),
                GateKind::Shutdown => ops.extend([Outcome::Fine, Outcome::Err, Outcome::Panic].map(Op::Open)),
            }
        }
        for (i, c) in w.clients.iter().enumerate() {
            if c.fut.is_some() && c.flag.0.load(Ordering::SeqCst) {
                ops.push(Op::Poll(i));
            }
        }
        if w.runner.is_some() {
            ops.push(Op::Start);
            ops.push(Op::Stop);
            if w.clients.len() < self.max_clients {
                ops.extend(self.kinds.iter().map(|k| Op::Begin(*k)));
            }
            if self.with_drop {
                ops.push(Op::DropRunner);
            }
        }
        if w.stop_requested {
            ops.push(Op::Drain);
        }
        ops
    }

    fn step(&self, w: &mut World, op: &Op) -> Result<String, Violation> {
        let mut out = String::new();
        match op {
            Op::RunTask => {
                w.settle();
                out.push_str("ran");
            }
            Op::Start => {
                let r = w.runner.as_ref().expect("runner alive").start();
                out.push_str(if r.is_ok() { "start:Ok" } else { "start:Err" });
            }
            Op::Stop => {
                let r = w.runner.as_ref().expect("runner alive").stop();
                w.stop_requested = true;
                out.push_str(if r { "stop:true" } else { "stop:false" });
            }
            Op::Begin(kind) => {
                let fut = client_future(*kind, w.runner.as_ref().expect("runner alive"));
                w.clients.push(Client { kind: *kind, fut: Some(fut), flag: Arc::new(Flag(AtomicBool::new(false))), done: None, cancelled: false });
                if *kind == ClientKind::StopAndAwait {
                    w.stop_requested = true;
                }
                let i = w.clients.len() - 1;
                out.push_str(&w.poll_client(i)?);
            }
            Op::Poll(i) => {
                out.push_str(&w.poll_client(*i)?);
            }
            Op::Open(o) => {
                let kind = w.open(*o);
                w.settle();
                out.push_str(&format!("opened:{kind:?}"));
            }
            Op::DropRunner => {
                for c in w.clients.iter_mut() {
                    if c.fut.is_some() && c.kind.borrows_runner() {
                        c.fut = None;
                        c.cancelled = true;
                    }
                }
                let r = w.runner.take().expect("runner alive");
                assert_eq!(Arc::strong_count(&r), 1, "client futures still borrow the runner");
                drop(r);
                w.stop_requested = true;
                out.push_str("dropped");
            }
            Op::Drain => {
                return w.drain();
            }
        }
        out.push_str(&w.check_after(&format!("after {op:?}"))?);
        Ok(out)
    }

    fn canon(&self, w: &World) -> Vec<u8> {
        let h = w.hub.lock().unwrap();
        let mut clients: Vec<String> = w
            .clients
            .iter()
            .map(|c| {
                let status = if c.fut.is_some() {
                    if c.flag.0.load(Ordering::SeqCst) {
                        "woken"
                    } else {
                        "pending"
                    }
                } else if c.cancelled {
                    "cancelled"
                } else {
                    "done"
                };
                format!("{:?}:{status}", c.kind)
            })
            .collect();
        clients.sort();
        format!(
            "{:?}|polled={}|wait={:?}|rel={:?}|calls={:?}|clients={:?}|runner={}|stopreq={}|high={:?}|stopped_seen={}|drained={}",
            w.obs.borrow().clone(),
            w.task_polled,
            h.waiting,
            w.released,
            h.calls,
            clients,
            w.runner.is_some(),
            w.stop_requested,
            w.high,
            w.stopped_seen,
            w.drained
        )
        .into_bytes()
    }

    fn deviation(&self, op: &Op) -> u32 {
        match op {
            Op::Open(Outcome::Err | Outcome::Panic | Outcome::ErrorContinue) => 1,
            _ => 0,
        }
    }

    fn label(&self, op: &Op) -> String {
        match op {
            Op::Begin(k) => format!("Begin:{k:?}"),
            Op::Open(o) => format!("Open:{o:?}"),
            Op::Poll(_) => "Poll".into(),
            other => format!("{other:?}"),
        }
    }

    fn interesting(&self, op: &Op, obs: &str) -> bool {
        // a client resolved, a hook ran, or the end-of-history obligations were checked
        matches!(op, Op::Drain) || obs.contains(":Ok(") || obs.contains(":Err(") || obs.contains("hook:")
    }

    fn required_labels(&self) -> Vec<String> {
        let mut v: Vec<String> = ["RunTask", "Start", "Stop", "Poll", "Drain", "Open:Fine", "Open:Stop", "Open:ErrorContinue", "Open:Err", "Open:Panic"].iter().map(|s| s.to_string()).collect();
        v.extend(self.kinds.iter().map(|k| format!("Begin:{k:?}")));
        if self.with_drop {
            v.push("DropRunner".into());
        }
        v
    }
}

// ---------------------------------------------------------------------------
// entry
// ---------------------------------------------------------------------------

fn subjects(cli: &Cli) -> Vec<(Lifecycle, usize, u32)> {
    use ClientKind::*;
    let all = vec![StartAndAwait, StopAndAwait, AwaitStop, AwaitStartOrStop, WhileStarted, WaitStoppingOrStopped];
    match cli.tier {
        Tier::Quick => vec![(Lifecycle { max_clients: 3, kinds: all, with_drop: true }, 9, 2)],
        Tier::Thorough => vec![(Lifecycle { max_clients: 3, kinds: all, with_drop: true }, 15, 3)],
    }
}

pub fn main(cli: &Cli) {
    let subs = subjects(cli);
    if let Some(path) = &cli.replay {
        let rf = load_replay(path);
        // histories do not depend on the subject's bounds
        replay_and_exit(&subs[0].0, &rf);
    }
    let mut run = Run::new(cli, "model_checking");
    for (s, depth, devs) in &subs {
        let b = Bounds::new(*depth, cli).deviations(*devs);
        run.add(explore(s, &b));
    }
    run.assume("single-threaded tokio runtime with paused clock; interleavings are explored at await-point granularity (one poll of one future per letter), not inside a poll");
    run.assume("the mock task's hooks only await their gate (they do not watch the state themselves); stop-awaits are checked at the end of a history after every remaining gate was released with the benign outcome");
    run.assume("metrics of the run loop are not registered in the global registry (verif_new_unregistered); everything else is ServiceRunner::new_with_params");
    run.finish();
}
