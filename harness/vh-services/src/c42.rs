//! C42 — sequence-lock readers only see complete, recent values, under any
//! thread schedule.
//!
//! The REAL `fuel_core_services::seqlock` code runs inside `loom::model`. With the
//! `verif-hooks` feature its sequence counter, its fences and a yield in the reader's
//! spin loop are routed through `fuel_core_services::verif_shim` to this harness.
//!
//! Scope (DESIGN 2.4): sequentially consistent interleavings of the threads' atomic
//! steps. Every shim operation (counter load, counter fetch_add, fence, the yield of the
//! spin loop and the gap between two payload words in the writer closure) is ONE
//! loom-visible SeqCst read-modify-write on a single per-iteration loom atomic
//! (`SCHED`): loom therefore sees every pair of steps as dependent, puts a scheduling
//! point in front of each of them, and explores every order of them within the
//! preemption bound. The operation's effect itself (the counter value) is executed on a
//! `std` atomic right after the scheduling point; because loom runs exactly one model
//! thread at a time this is a sequentially consistent execution by construction. The
//! payload stays plain memory behind the seqlock's raw pointer; torn values are produced
//! physically: the writer closure stores the four words one by one with a scheduling
//! point between words, so a reader scheduled in between copies a half-written value.
//!
//! Replays do not need loom: the recorded schedule (thread id + step kind per step) is
//! re-executed with real OS threads under a baton-passing scheduler.

use fuel_core_services::{
    seqlock::{SeqLock, SeqLockReader, SeqLockWriter},
    verif_shim,
};
use mcx::*;
use serde::{Deserialize, Serialize};
use serde_json::{json, Value};
use std::collections::{BTreeMap, BTreeSet, HashSet};
use std::hash::{Hash, Hasher};
use std::sync::atomic::{AtomicU64, AtomicU8, Ordering};
use std::sync::{Arc, Condvar, Mutex};
use std::time::Instant;

type Payload = [u64; 4];

// ---------------------------------------------------------------------------
// steps, traces
// ---------------------------------------------------------------------------

#[derive(Clone, Copy, Debug, PartialEq, Eq, Hash, PartialOrd, Ord, Serialize, Deserialize)]
pub enum Kind {
    /// first step of a thread (everything up to its first shim operation follows it)
    Start,
    Load,
    FetchAdd,
    Fence,
    /// `verif_shim::yield_now()` in the reader's spin loop
    Yield,
    /// between two payload words inside the writer closure
    Gap,
}

#[derive(Clone, Copy, Debug, PartialEq, Eq, Hash, Serialize, Deserialize)]
pub struct Ev {
    pub t: u8,
    pub k: Kind,
}

#[derive(Clone, Copy, Debug, Serialize, Deserialize, PartialEq, Eq)]
pub struct Cfg {
    pub writes: u64,
    pub readers: u8,
    pub reads: u8,
    /// before the normal writes the writer performs one write whose closure panics
    /// before touching the payload; the caller catches the unwind and goes on
    #[serde(default)]
    pub panicking_first: bool,
}

const fn cfg(writes: u64, readers: u8, reads: u8, panicking_first: bool) -> Cfg {
    Cfg { writes, readers, reads, panicking_first }
}

/// One `SeqLockReader::read` call as seen by the harness.
#[derive(Clone, Debug, PartialEq, Eq, Hash, PartialOrd, Ord, Serialize, Deserialize)]
pub struct ReadRec {
    pub reader: u8,
    pub index: u8,
    /// number of writes that had COMPLETED (write() returned) before read() was called
    pub completed_before: u64,
    pub value: Payload,
    /// the read can never return: the counter is odd and the writer has finished
    /// (the harness abandons the read; no value was returned, nothing to judge)
    #[serde(default)]
    pub stuck: bool,
}

/// unwinding payload with which the harness abandons a read that would spin forever
struct StuckRead;

// ---------------------------------------------------------------------------
// mode + per-iteration state shared with the shim callbacks
// ---------------------------------------------------------------------------

const MODE_OFF: u8 = 0;
const MODE_LOOM: u8 = 1;
const MODE_REPLAY: u8 = 2;
static MODE: AtomicU8 = AtomicU8::new(MODE_OFF);

struct IterState {
    sched: Option<Arc<loom::sync::atomic::AtomicU64>>,
    trace: Vec<Ev>,
    /// number of counter fetch_adds executed so far in this iteration
    fa_count: u64,
    /// readers waiting in their spin loop for the writer's next fetch_add
    parked: Vec<loom::thread::Thread>,
    /// the writer thread has performed its last step
    writer_done: bool,
}
static ITER: Mutex<IterState> = Mutex::new(IterState { sched: None, trace: Vec::new(), fa_count: 0, parked: Vec::new(), writer_done: false });

loom::thread_local! {
    static LOOM_TID: std::cell::Cell<u8> = std::cell::Cell::new(u8::MAX);
    /// `fa_count` at this thread's latest counter load
    static LOOM_SEEN_FA: std::cell::Cell<u64> = std::cell::Cell::new(0);
}
thread_local! {
    static OS_TID: std::cell::Cell<u8> = const { std::cell::Cell::new(u8::MAX) };
}

static REPLAYER: Mutex<Option<Arc<Replayer>>> = Mutex::new(None);

fn set_tid(t: u8) {
    match MODE.load(Ordering::SeqCst) {
        MODE_LOOM => LOOM_TID.with(|c| c.set(t)),
        _ => OS_TID.with(|c| c.set(t)),
    }
}

/// The single scheduling primitive: "the calling thread is about to perform step `k`".
/// Returns once the scheduler (loom, or the replayer) has chosen this thread to go on.
///
/// For `Kind::Yield` the result tells whether the spin can never end (counter odd, no
/// fetch_add since the reader's load, writer finished); `false` otherwise.
fn sched_point(k: Kind) -> bool {
    match MODE.load(Ordering::SeqCst) {
        MODE_LOOM if k == Kind::Yield => {
            // Spin-loop reduction. The reader loaded an odd counter and is about to
            // load it again. Until the writer's next fetch_add that load returns the
            // same value and changes nothing (a stutter step), so instead of letting
            // loom enumerate unboundedly many re-loads the reader waits (loom park) for
            // the next fetch_add; every placement of its next load AFTER that fetch_add
            // is still explored. No wait if a fetch_add already happened since its load.
            let t = LOOM_TID.with(|c| c.get());
            let seen = LOOM_SEEN_FA.with(|c| c.get());
            let me = loom::thread::current();
            let stuck = loop {
                // 0 = go on, 1 = wait for the next fetch_add, 2 = no fetch_add will ever come
                let what = {
                    let mut it = ITER.lock().unwrap();
                    if it.fa_count != seen {
                        0
                    } else if it.writer_done {
                        2
                    } else {
                        it.parked.push(me.clone());
                        1
                    }
                };
                match what {
                    0 => break false,
                    2 => break true,
                    _ => loom::thread::park(),
                }
            };
            // logged when the thread goes on: what follows (up to its next step) runs now
            ITER.lock().unwrap().trace.push(Ev { t, k });
            stuck
        }
        MODE_LOOM => {
            // never hold the std mutex across a loom operation (loom may switch to
            // another model thread, which runs on this same OS thread)
            let sched = ITER.lock().unwrap().sched.clone();
            let sched = sched.expect("shim operation outside of a model iteration");
            if k != Kind::Start {
                sched.fetch_add(1, loom::sync::atomic::Ordering::SeqCst);
            }
            let t = LOOM_TID.with(|c| c.get());
            let wake = {
                let mut it = ITER.lock().unwrap();
                it.trace.push(Ev { t, k });
                match k {
                    Kind::FetchAdd => {
                        it.fa_count += 1;
                        std::mem::take(&mut it.parked)
                    }
                    Kind::Load => {
                        let n = it.fa_count;
                        LOOM_SEEN_FA.with(|c| c.set(n));
                        vec![]
                    }
                    _ => vec![],
                }
            };
            for th in wake {
                th.unpark();
            }
            false
        }
        MODE_REPLAY => {
            let r = REPLAYER.lock().unwrap().clone().expect("replayer not installed");
            let t = OS_TID.with(|c| c.get());
            r.turn(t, k)
        }
        _ => false,
    }
}

/// The writer has performed its last step: readers waiting for a fetch_add are released
/// (they will find that none can come any more).
fn writer_finished() {
    if MODE.load(Ordering::SeqCst) == MODE_LOOM {
        let wake = {
            let mut it = ITER.lock().unwrap();
            it.writer_done = true;
            std::mem::take(&mut it.parked)
        };
        for th in wake {
            th.unpark();
        }
    }
}

// ---------------------------------------------------------------------------
// shim backends
// ---------------------------------------------------------------------------

#[derive(Debug)]
struct HAtomic(AtomicU64);

impl verif_shim::AtomicU64Backend for HAtomic {
    fn load(&self, _order: Ordering) -> u64 {
        sched_point(Kind::Load);
        self.0.load(Ordering::SeqCst)
    }
    fn fetch_add(&self, v: u64, _order: Ordering) -> u64 {
        sched_point(Kind::FetchAdd);
        self.0.fetch_add(v, Ordering::SeqCst)
    }
}

fn hook_new_atomic(v: u64) -> Box<dyn verif_shim::AtomicU64Backend> {
    Box::new(HAtomic(AtomicU64::new(v)))
}
fn hook_fence(_order: Ordering) {
    sched_point(Kind::Fence);
    std::sync::atomic::fence(Ordering::SeqCst);
}
fn hook_yield() {
    if sched_point(Kind::Yield) {
        // unwinds through SeqLockReader::read into reader_role (no panic hook involved)
        std::panic::resume_unwind(Box::new(StuckRead));
    }
}

fn install_hooks() {
    verif_shim::install(verif_shim::Hooks { new_atomic: hook_new_atomic, fence: hook_fence, yield_now: hook_yield });
}

// ---------------------------------------------------------------------------
// thread roles (identical under loom and under the replayer)
// ---------------------------------------------------------------------------

fn writer_role(w: &SeqLockWriter<Payload>, completed: &AtomicU64, cfg: &Cfg) {
    set_tid(0);
    sched_point(Kind::Start);
    if cfg.panicking_first {
        // a write whose closure panics before touching the payload; write() catches the
        // panic, closes the write and resumes the unwind, which the caller catches here
        let r = std::panic::catch_unwind(std::panic::AssertUnwindSafe(|| {
            w.write(|_d: &mut Payload| std::panic::resume_unwind(Box::new("mock panic in the write closure")));
        }));
        assert!(r.is_err(), "the panicking write returned normally");
    }
    for k in 1..=cfg.writes {
        w.write(move |d: &mut Payload| {
            for i in 0..4 {
                if i > 0 {
                    sched_point(Kind::Gap);
                }
                // volatile: the four stores must physically happen in this order, one
                // per segment, whatever the optimiser thinks of the exclusive borrow
                unsafe { std::ptr::write_volatile(&mut d[i] as *mut u64, k) };
            }
        });
        // same uninterrupted segment as the second fetch_add of write(): from here on
        // write k has completed
        completed.store(k, Ordering::SeqCst);
    }
    writer_finished();
}

fn reader_role(tid: u8, r: &SeqLockReader<Payload>, completed: &AtomicU64, reads: u8) -> Vec<ReadRec> {
    set_tid(tid);
    sched_point(Kind::Start);
    let mut out = vec![];
    for j in 0..reads {
        // sampled in the segment that ends at read()'s first step: every write counted
        // here completed before the read started
        let k0 = completed.load(Ordering::SeqCst);
        match std::panic::catch_unwind(std::panic::AssertUnwindSafe(|| r.read())) {
            Ok(v) => out.push(ReadRec { reader: tid, index: j, completed_before: k0, value: v, stuck: false }),
            Err(p) if p.is::<StuckRead>() => out.push(ReadRec { reader: tid, index: j, completed_before: k0, value: [0; 4], stuck: true }),
            Err(p) => std::panic::resume_unwind(p),
        }
    }
    out
}

// ---------------------------------------------------------------------------
// oracle: exactly the statement
// ---------------------------------------------------------------------------

fn oracle(cfg: &Cfg, reads: &[ReadRec]) -> Result<(), Violation> {
    for r in reads {
        if r.stuck {
            // no value was returned; the statement speaks about returned values only
            continue;
        }
        let v = r.value;
        let whole = v.iter().all(|x| *x == v[0]) && v[0] <= cfg.writes;
        if !whole {
            return Err(viol(
                "c42-incomplete-value",
                format!(
                    "reader {} read #{} returned {:?}; expected (v,v,v,v) for the initial value 0 or a written v in 1..={}",
                    r.reader, r.index, v, cfg.writes
                ),
            ));
        }
        if v[0] < r.completed_before {
            return Err(viol(
                "c42-stale-value",
                format!(
                    "reader {} read #{} started after write {} had completed but returned the older value {:?}",
                    r.reader, r.index, r.completed_before, v
                ),
            ));
        }
    }
    Ok(())
}

// ---------------------------------------------------------------------------
// loom exploration
// ---------------------------------------------------------------------------

#[derive(Default)]
struct Stats {
    iterations: u64,
    events: u64,
    prefixes: HashSet<u64>,
    outcomes: BTreeMap<Vec<ReadRec>, u64>,
    values: BTreeSet<u64>,
    kind_hits: BTreeMap<String, u64>,
    iterations_with_retry: u64,
    reads_after_completed_write: u64,
    reads_of_non_latest: u64,
    max_trace: usize,
    samples: Vec<Value>,
    revalidate: Vec<(Vec<Ev>, Vec<ReadRec>)>,
    found: Option<(Violation, Vec<Ev>, Vec<ReadRec>)>,
    stuck_reads: u64,
    cap_hit: bool,
    /// when set: every executed schedule projected on its atomic steps (cross-check)
    step_orders: Option<HashSet<Vec<Ev>>>,
}

/// A schedule without its bookkeeping events: only the atomic steps of the real code.
fn step_order(trace: &[Ev]) -> Vec<Ev> {
    trace.iter().copied().filter(|e| !matches!(e.k, Kind::Start | Kind::Yield)).collect()
}
static STATS: Mutex<Option<Stats>> = Mutex::new(None);

const ABORT_FOUND: &str = "c42: violation recorded, aborting exploration";
const ABORT_CAP: &str = "c42: wall cap hit, aborting exploration";

fn trace_json(cfg: &Cfg, trace: &[Ev], reads: &[ReadRec]) -> Value {
    json!({ "cfg": cfg, "schedule": trace.iter().map(|e| format!("{}:{:?}", e.t, e.k)).collect::<Vec<_>>().join(" "), "trace": trace, "reads": reads })
}

fn loom_iteration(cfg: Cfg, t0: Instant, wall_cap_s: u64) {
    if t0.elapsed().as_secs() > wall_cap_s {
        STATS.lock().unwrap().as_mut().unwrap().cap_hit = true;
        panic!("{ABORT_CAP}");
    }
    {
        let mut it = ITER.lock().unwrap();
        it.sched = Some(Arc::new(loom::sync::atomic::AtomicU64::new(0)));
        it.trace.clear();
        it.fa_count = 0;
        it.parked.clear();
        it.writer_done = false;
    }
    let (writer, reader) = unsafe { SeqLock::new([0u64; 4]) };
    let completed = Arc::new(AtomicU64::new(0));
    let mut handles = vec![];
    for i in 0..cfg.readers {
        let r = reader.clone();
        let c = completed.clone();
        let reads = cfg.reads;
        handles.push(loom::thread::spawn(move || reader_role(i + 1, &r, &c, reads)));
    }
    drop(reader);
    writer_role(&writer, &completed, &cfg);
    let mut reads = vec![];
    for h in handles {
        reads.extend(h.join().expect("reader thread panicked"));
    }
    drop(writer);
    let trace = {
        let mut it = ITER.lock().unwrap();
        it.sched = None;
        std::mem::take(&mut it.trace)
    };
    let verdict = oracle(&cfg, &reads);
    let mut g = STATS.lock().unwrap();
    let st = g.as_mut().unwrap();
    st.iterations += 1;
    st.events += trace.len() as u64;
    st.max_trace = st.max_trace.max(trace.len());
    let mut h = std::collections::hash_map::DefaultHasher::new();
    let mut retry = false;
    for e in &trace {
        e.hash(&mut h);
        st.prefixes.insert(h.finish());
        *st.kind_hits.entry(format!("{:?}", e.k)).or_default() += 1;
        retry |= e.k == Kind::Yield;
    }
    // a retry without a yield: start even, end different
    let loads_per_reader = 2 * cfg.reads as usize;
    for t in 1..=cfg.readers {
        if trace.iter().filter(|e| e.t == t && e.k == Kind::Load).count() > loads_per_reader {
            retry = true;
        }
    }
    if retry {
        st.iterations_with_retry += 1;
    }
    for r in &reads {
        if r.stuck {
            st.stuck_reads += 1;
            continue;
        }
        st.values.insert(r.value[0]);
        if r.completed_before > 0 {
            st.reads_after_completed_write += 1;
        }
        if r.value[0] < cfg.writes {
            st.reads_of_non_latest += 1;
        }
    }
    if let Some(so) = st.step_orders.as_mut() {
        so.insert(step_order(&trace));
    }
    let n = st.outcomes.entry(reads.clone()).or_default();
    *n += 1;
    if *n == 1 && st.samples.len() < 6 {
        st.samples.push(trace_json(&cfg, &trace, &reads));
    }
    if (st.iterations.is_power_of_two() || st.iterations % 4099 == 0) && st.revalidate.len() < 64 {
        st.revalidate.push((trace.clone(), reads.clone()));
    }
    if let Err(v) = verdict {
        st.found = Some((v, trace, reads));
        drop(g);
        panic!("{ABORT_FOUND}");
    }
}

fn run_loom(cfg: Cfg, preemption_bound: Option<usize>, wall_cap_s: u64, collect_step_orders: bool) -> Result<Stats, String> {
    *STATS.lock().unwrap() = Some(Stats { step_orders: if collect_step_orders { Some(HashSet::new()) } else { None }, ..Stats::default() });
    MODE.store(MODE_LOOM, Ordering::SeqCst);
    let t0 = Instant::now();
    // loom runs on the calling (main) thread: while it runs the process is single
    // threaded, which keeps the per-iteration coroutine stack map/unmap cheap
    let r = guarded(move || {
        let mut b = loom::model::Builder::new();
        // own every knob: nothing is taken from LOOM_* environment variables
        b.max_threads = 4;
        b.max_branches = 5_000;
        b.max_permutations = None;
        b.max_duration = None;
        b.preemption_bound = preemption_bound;
        b.checkpoint_file = None;
        b.checkpoint_interval = usize::MAX;
        b.expect_explicit_explore = false;
        b.location = false;
        b.log = false;
        b.check(move || loom_iteration(cfg, t0, wall_cap_s));
    });
    MODE.store(MODE_OFF, Ordering::SeqCst);
    {
        // whatever an aborted iteration left behind
        let mut it = ITER.lock().unwrap_or_else(|p| p.into_inner());
        it.sched = None;
        it.trace.clear();
        it.parked.clear();
    }
    let st = STATS.lock().unwrap_or_else(|p| p.into_inner()).take().unwrap();
    match r {
        Ok(()) => Ok(st),
        Err(p) if p.contains(ABORT_FOUND) && st.found.is_some() => Ok(st),
        Err(p) if p.contains(ABORT_CAP) && st.cap_hit => Ok(st),
        Err(p) => Err(format!("loom aborted after {} iterations: {p}", st.iterations)),
    }
}

// ---------------------------------------------------------------------------
// replayer: real OS threads, one at a time, in the recorded order
// ---------------------------------------------------------------------------

/// What steers the baton-passing scheduler.
enum Guide {
    /// re-execute a recorded schedule (then round-robin if it stops fitting)
    Trace(Vec<Ev>),
    /// brute force: at decision point i take the choices[i]-th eligible thread (0 beyond the end)
    Choices(Vec<usize>),
}

struct RState {
    guide: Guide,
    pos: usize,
    running: Option<u8>,
    parked: BTreeMap<u8, Kind>,
    live: usize,
    diverged_at: Option<usize>,
    last: u8,
    executed: Vec<Ev>,
    /// number of eligible threads at every decision point (brute force bookkeeping)
    branching: Vec<usize>,
    fa_count: u64,
    seen_fa: BTreeMap<u8, u64>,
    writer_done: bool,
}

struct Replayer {
    st: Mutex<RState>,
    cv: Condvar,
}

impl Replayer {
    fn new(guide: Guide, live: usize) -> Replayer {
        Replayer {
            st: Mutex::new(RState {
                guide,
                pos: 0,
                running: None,
                parked: BTreeMap::new(),
                live,
                diverged_at: None,
                last: 0,
                executed: vec![],
                branching: vec![],
                fa_count: 0,
                seen_fa: BTreeMap::new(),
                writer_done: false,
            }),
            cv: Condvar::new(),
        }
    }

    /// Deterministic choice of the next thread once every live thread is parked;
    /// also returns how many threads were eligible.
    fn pick(s: &mut RState) -> (u8, usize) {
        match &s.guide {
            Guide::Trace(trace) => {
                if s.diverged_at.is_none() {
                    if let Some(ev) = trace.get(s.pos) {
                        if s.parked.get(&ev.t) == Some(&ev.k) {
                            return (ev.t, 1);
                        }
                    }
                    s.diverged_at = Some(s.pos);
                }
                // the recorded schedule no longer fits this tree: continue round-robin
                let last = s.last;
                (s.parked.keys().copied().find(|t| *t > last).unwrap_or_else(|| *s.parked.keys().next().unwrap()), 1)
            }
            Guide::Choices(choices) => {
                // same stutter reduction as under loom: a reader in its spin loop is not
                // eligible before the writer's next fetch_add
                let eligible: Vec<u8> = s
                    .parked
                    .iter()
                    .filter(|(t, k)| s.writer_done || !(**k == Kind::Yield && s.seen_fa.get(*t).copied().unwrap_or(0) == s.fa_count))
                    .map(|(t, _)| *t)
                    .collect();
                assert!(!eligible.is_empty(), "brute force: every live thread is spinning");
                let c = choices.get(s.pos).copied().unwrap_or(0);
                (eligible[c], eligible.len())
            }
        }
    }

    /// Returns true for a `Yield` whose spin can never end (see `sched_point`).
    fn turn(&self, t: u8, k: Kind) -> bool {
        let mut s = self.st.lock().unwrap();
        if s.running == Some(t) {
            s.running = None;
        }
        s.parked.insert(t, k);
        self.cv.notify_all();
        loop {
            if s.running.is_none() && s.parked.len() == s.live {
                let (who, n) = Self::pick(&mut s);
                if who == t {
                    s.parked.remove(&t);
                    s.running = Some(t);
                    s.pos += 1;
                    s.last = t;
                    s.executed.push(Ev { t, k });
                    s.branching.push(n);
                    match k {
                        Kind::FetchAdd => s.fa_count += 1,
                        Kind::Load => {
                            let n = s.fa_count;
                            s.seen_fa.insert(t, n);
                        }
                        _ => {}
                    }
                    return k == Kind::Yield && s.writer_done && s.seen_fa.get(&t).copied().unwrap_or(0) == s.fa_count;
                }
                self.cv.notify_all();
            }
            s = self.cv.wait(s).unwrap();
        }
    }

    fn finish(&self, t: u8) {
        let mut s = self.st.lock().unwrap();
        if s.running == Some(t) {
            s.running = None;
        }
        if t == 0 {
            s.writer_done = true;
        }
        s.live -= 1;
        self.cv.notify_all();
    }
}

pub struct ReplayOutcome {
    pub reads: Vec<ReadRec>,
    pub executed: Vec<Ev>,
    pub diverged_at: Option<usize>,
    pub branching: Vec<usize>,
}

fn run_replay(cfg: Cfg, trace: &[Ev]) -> ReplayOutcome {
    run_guided(cfg, Guide::Trace(trace.to_vec()))
}

/// Brute-force enumeration (no loom) of EVERY schedule of the configuration, with every
/// step - including thread starts - as a decision point. Returns (schedules, outcome set).
fn brute_force(cfg: Cfg, t0: Instant, wall_cap_s: u64) -> Result<(u64, BTreeSet<Vec<ReadRec>>, HashSet<Vec<Ev>>), String> {
    let mut choices: Vec<usize> = vec![];
    let mut n = 0u64;
    let mut outcomes = BTreeSet::new();
    let mut orders = HashSet::new();
    loop {
        if t0.elapsed().as_secs() > wall_cap_s {
            return Err(format!("wall cap hit after {n} schedules"));
        }
        let out = run_guided(cfg, Guide::Choices(choices.clone()));
        n += 1;
        oracle(&cfg, &out.reads).map_err(|v| format!("brute force found a violation loom did not: {} / {}", v.sig, v.msg))?;
        outcomes.insert(out.reads);
        orders.insert(step_order(&out.executed));
        // next path in depth-first order
        choices.resize(out.branching.len(), 0);
        loop {
            match choices.pop() {
                None => return Ok((n, outcomes, orders)),
                Some(c) => {
                    if c + 1 < out.branching[choices.len()] {
                        choices.push(c + 1);
                        break;
                    }
                }
            }
        }
    }
}

fn run_guided(cfg: Cfg, guide: Guide) -> ReplayOutcome {
    let rp = Arc::new(Replayer::new(guide, 1 + cfg.readers as usize));
    *REPLAYER.lock().unwrap() = Some(rp.clone());
    MODE.store(MODE_REPLAY, Ordering::SeqCst);
    let (writer, reader) = unsafe { SeqLock::new([0u64; 4]) };
    let completed = Arc::new(AtomicU64::new(0));
    let mut handles = vec![];
    for i in 0..cfg.readers {
        let r = reader.clone();
        let c = completed.clone();
        let rp = rp.clone();
        let reads = cfg.reads;
        handles.push(std::thread::spawn(move || {
            let out = reader_role(i + 1, &r, &c, reads);
            rp.finish(i + 1);
            out
        }));
    }
    writer_role(&writer, &completed, &cfg);
    rp.finish(0);
    let mut reads = vec![];
    for h in handles {
        reads.extend(h.join().expect("reader thread panicked"));
    }
    MODE.store(MODE_OFF, Ordering::SeqCst);
    *REPLAYER.lock().unwrap() = None;
    let s = rp.st.lock().unwrap();
    ReplayOutcome { reads, executed: s.executed.clone(), diverged_at: s.diverged_at, branching: s.branching.clone() }
}

// ---------------------------------------------------------------------------
// entry
// ---------------------------------------------------------------------------

#[derive(Deserialize)]
struct ReplayBody {
    cfg: Cfg,
    trace: Vec<Ev>,
}

pub fn main(cli: &Cli) {
    install_hooks();
    if let Some(path) = &cli.replay {
        let rf = load_replay(path);
        let body: ReplayBody = serde_json::from_value(rf.history.clone()).unwrap_or_else(|e| machinery_failure(&format!("replay file does not decode: {e}")));
        let out = guarded(|| run_replay(body.cfg, &body.trace)).unwrap_or_else(|p| machinery_failure(&format!("replay panicked: {p}")));
        println!(
            "replay: {} recorded steps, {} executed{}",
            body.trace.len(),
            out.executed.len(),
            match out.diverged_at {
                Some(i) => format!(" (recorded schedule stopped fitting this tree at step {i}; continued round-robin)"),
                None => String::new(),
            }
        );
        println!("  schedule: {}", out.executed.iter().map(|e| format!("{}:{:?}", e.t, e.k)).collect::<Vec<_>>().join(" "));
        for r in &out.reads {
            if r.stuck {
                println!("  reader {} read #{} (writes completed before: {}) -> never returns (counter left odd, writer finished); abandoned", r.reader, r.index, r.completed_before);
                continue;
            }
            println!("  reader {} read #{} (writes completed before: {}) -> {:?}", r.reader, r.index, r.completed_before, r.value);
        }
        match oracle(&body.cfg, &out.reads) {
            Ok(()) => {
                println!("replay: no violation on this tree");
                std::process::exit(0)
            }
            Err(v) => {
                println!("replay: violation {} / {}", v.sig, v.msg);
                println!("VIOLATION property={} replay=(replayed)", rf.property);
                std::process::exit(1)
            }
        }
    }

    let mut run = Run::new(cli, "model_checking");
    let thorough = cli.tier == Tier::Thorough;
    // (config, preemption bound)
    let mut plans: Vec<(Cfg, Option<usize>)> = vec![(cfg(2, 2, 1, false), Some(2))];
    // a write whose closure panics (caught by the caller), then a normal write
    plans.push((cfg(1, 2, 1, true), Some(2)));
    // the configuration small enough to be enumerated a second time without loom
    let cross_checked = cfg(1, 1, 1, false);
    plans.push((cross_checked, None));
    if thorough {
        plans.push((cfg(1, 1, 1, true), None));
        plans.push((cfg(2, 1, 1, false), None));
        plans.push((cfg(2, 2, 1, true), Some(3)));
        plans.push((cfg(2, 2, 1, false), Some(4)));
        plans.push((cfg(3, 2, 2, false), Some(3)));
    }
    let wall_cap = cli.tier.pick(50u64, 1500);
    let mut all_values = BTreeSet::new();
    let mut loom_runs = vec![];
    for (cfg, bound) in plans {
        let name = format!(
            "loom seqlock [1 writer x {}{} writes, {} readers x {} reads, preemption bound {}]",
            if cfg.panicking_first { "(1 caught panicking write +) " } else { "" },
            cfg.writes,
            cfg.readers,
            cfg.reads,
            bound.map(|b| b.to_string()).unwrap_or_else(|| "none".into())
        );
        let t0 = Instant::now();
        let st = run_loom(cfg, bound, wall_cap, bound.is_none() && cfg == cross_checked).unwrap_or_else(|e| machinery_failure(&format!("{name}: {e}")));
        let mut rep = Report {
            subject: name.clone(),
            states: st.prefixes.len() + 1,
            transitions: st.events as usize,
            replayed_prefixes: 0,
            max_depth_bound: 5_000,
            depth_completed: st.max_trace,
            max_deviations: bound.map(|b| b as u32),
            distinct_observations: st.outcomes.len(),
            interesting_transitions: st.iterations_with_retry as usize,
            distinct_interesting: st.outcomes.len(),
            terminal_states: st.iterations as usize,
            label_hits: st.kind_hits.iter().map(|(k, v)| (k.clone(), *v as usize)).collect(),
            frontier_sizes: vec![],
            exhaustive: !st.cap_hit && st.found.is_none(),
            cap_hit: if st.cap_hit { Some(format!("wall cap {wall_cap}s hit after {} loom iterations", st.iterations)) } else { None },
            samples: st.samples.clone(),
            wall_s: 0.0,
            violations: vec![],
        };
        // determinism / replayer cross-check: re-execute recorded schedules with real OS
        // threads and compare what the readers returned
        let mut revalidated = 0usize;
        for (trace, reads) in &st.revalidate {
            for _ in 0..2 {
                let out = guarded(|| run_replay(cfg, trace)).unwrap_or_else(|p| machinery_failure(&format!("{name}: replayer panicked: {p}")));
                if out.diverged_at.is_some() || &out.reads != reads || &out.executed != trace {
                    machinery_failure(&format!(
                        "{name}: a schedule recorded under loom does not reproduce under the replayer (diverged at {:?}; loom reads {:?}, replay reads {:?})",
                        out.diverged_at, reads, out.reads
                    ));
                }
            }
            revalidated += 1;
        }
        if let Some((v, trace, reads)) = &st.found {
            let o1 = guarded(|| run_replay(cfg, trace)).unwrap_or_else(|p| machinery_failure(&format!("{name}: replayer panicked: {p}")));
            let o2 = guarded(|| run_replay(cfg, trace)).unwrap_or_else(|p| machinery_failure(&format!("{name}: replayer panicked: {p}")));
            let same = |o: &ReplayOutcome| o.diverged_at.is_none() && &o.reads == reads && oracle(&cfg, &o.reads).err().map(|x| x.sig) == Some(v.sig.clone());
            if !(same(&o1) && same(&o2)) {
                machinery_failure(&format!("{name}: violation {} found under loom is not reproduced by the replayer (twice)", v.sig));
            }
            rep.violations.push(FoundViolation {
                subject: name.clone(),
                sig: v.sig.clone(),
                msg: format!("{} | schedule: {}", v.msg, trace.iter().map(|e| format!("{}:{:?}", e.t, e.k)).collect::<Vec<_>>().join(" ")),
                history: trace_json(&cfg, trace, reads),
                confirmed_by_second_replay: true,
            });
        } else if !st.cap_hit {
            // vacuity guards (only meaningful for a completed, clean exploration)
            for k in ["Load", "FetchAdd", "Fence", "Gap", "Start"] {
                if !st.kind_hits.contains_key(k) {
                    machinery_failure(&format!("{name}: vacuous, step kind {k} never executed"));
                }
            }
            if st.iterations_with_retry == 0 {
                machinery_failure(&format!("{name}: vacuous, no schedule made a reader retry (the writer never overlapped a read)"));
            }
            if st.reads_after_completed_write == 0 || st.reads_of_non_latest == 0 {
                machinery_failure(&format!("{name}: vacuous, recency clause never exercised"));
            }
            if st.values.len() as u64 != cfg.writes + 1 {
                machinery_failure(&format!("{name}: vacuous, readers returned only {:?} of the {} possible values", st.values, cfg.writes + 1));
            }
        }
        // independent cross-check of the unbounded loom run: enumerate every schedule with
        // the loom-free scheduler and compare the sets of read outcomes
        let mut brute = json!(null);
        if bound.is_none() && cfg == cross_checked && st.found.is_none() && !st.cap_hit {
            let (n, outs, orders) = brute_force(cfg, t0, wall_cap).unwrap_or_else(|e| machinery_failure(&format!("{name}: brute-force cross-check: {e}")));
            let loom_outs: BTreeSet<Vec<ReadRec>> = st.outcomes.keys().cloned().collect();
            if outs != loom_outs {
                machinery_failure(&format!(
                    "{name}: loom (unbounded) and the brute-force enumeration disagree on the set of read outcomes: only loom {:?}; only brute force {:?}",
                    loom_outs.difference(&outs).collect::<Vec<_>>(),
                    outs.difference(&loom_outs).collect::<Vec<_>>()
                ));
            }
            let loom_orders = st.step_orders.as_ref().expect("collected");
            if &orders != loom_orders {
                let only_brute = orders.difference(loom_orders).next().map(|t| t.iter().map(|e| format!("{}:{:?}", e.t, e.k)).collect::<Vec<_>>().join(" "));
                let only_loom = loom_orders.difference(&orders).next().map(|t| t.iter().map(|e| format!("{}:{:?}", e.t, e.k)).collect::<Vec<_>>().join(" "));
                machinery_failure(&format!(
                    "{name}: loom (unbounded) executed {} distinct orders of atomic steps, the brute-force enumeration {}; e.g. only brute force: {only_brute:?}; only loom: {only_loom:?}",
                    loom_orders.len(),
                    orders.len()
                ));
            }
            brute = json!({"schedules_enumerated_without_loom": n, "distinct_read_outcomes": outs.len(), "distinct_orders_of_atomic_steps": orders.len(), "agrees_with_loom": true});
            run.extra_traces += n as usize;
        }
        rep.wall_s = t0.elapsed().as_secs_f64();
        all_values.extend(st.values.iter().copied());
        loom_runs.push(json!({
            "subject": name, "cfg": cfg, "preemption_bound": bound,
            "loom_iterations": st.iterations, "steps_executed": st.events, "distinct_schedule_prefixes": st.prefixes.len() + 1,
            "longest_schedule": st.max_trace, "distinct_read_outcomes": st.outcomes.len(),
            "distinct_returned_values": st.values, "iterations_with_reader_retry": st.iterations_with_retry,
            "reads_abandoned_because_they_can_never_return": st.stuck_reads, "reads_started_after_a_completed_write": st.reads_after_completed_write, "reads_returning_a_non_latest_value": st.reads_of_non_latest,
            "schedules_reexecuted_by_replayer_twice": revalidated, "completed": !st.cap_hit && st.found.is_none(),
            "brute_force_cross_check": brute,
        }));
        run.extra_traces += st.iterations as usize;
        run.add(rep);
    }
    run.note("loom_runs", json!(loom_runs));
    run.note("distinct_returned_values", json!(all_values));
    run.note(
        "c42_counting",
        json!("states = distinct prefixes of executed schedules (nodes of the explored schedule tree); transitions = atomic steps of the real seqlock code executed under loom, summed over iterations; each loom iteration is one complete schedule (trace) of the real code; a trace is non-trivial/distinct by the tuple of values its readers returned"),
    );
    run.assume("sequentially consistent interleavings only: every seqlock atomic operation and fence is executed as SeqCst at a loom scheduling point; adequacy of the code's Acquire/Release orderings on weakly ordered hardware is out of scope");
    run.assume("single writer (the API hands out one non-Clone writer); payload [u64;4] written word by word with a scheduling point between words; the reader's payload copy is one uninterrupted step between its two fences");
    run.assume("loom's scheduler and preemption bounding are trusted; all steps are declared mutually dependent so no partial-order reduction is relied upon");
    run.finish();
}
