//! The pool subject: the real `PoolWorker` (real `Pool`, `GraphStorage`,
//! `BasicCollisionManager`, `RatioTipGasSelection`) driven thread-lessly, a
//! recording status port, the model chain, and the six oracles C16..C21.
use crate::chain::{ChainDb, ChainProvider};
use crate::universe::{UTx, Universe};
use fuel_core_txpool::{
    config::{Config, PoolLimits},
    error::{Error, InputValidationError},
    ports::TxStatusManager,
    verif_hooks::{VerifInsertion, VerifProbe, VerifWorker},
    Constraints,
};
use fuel_core_types::{
    blockchain::{block::Block, consensus::Sealed},
    fuel_tx::{Transaction, TxId, TxPointer, UtxoId},
    fuel_types::BlockHeight,
    services::{
        block_importer::{ImportResult, SharedImportResult},
        executor::{TransactionExecutionResult, TransactionExecutionStatus},
        transaction_status::{statuses, PreConfirmationStatus, TransactionStatus},
    },
};
use mcx::{viol, Subject, Violation};
use serde::{Deserialize, Serialize};
use std::collections::{BTreeMap, BTreeSet};
use std::sync::atomic::{AtomicU64, Ordering};
use std::sync::{Arc, Mutex};
use std::time::Duration;
use tokio::sync::broadcast;

// ---------------------------------------------------------------------------
// vacuity counters (what actually happened during the exploration)
// ---------------------------------------------------------------------------

macro_rules! events {
    ($($name:ident),* $(,)?) => {
        #[allow(non_camel_case_types, clippy::enum_variant_names)]
        #[derive(Clone, Copy)]
        pub enum Ev { $($name),* }
        pub const EVENT_NAMES: &[&str] = &[$(stringify!($name)),*];
    };
}
events!(
    insert_admitted,
    insert_rejected,
    insert_to_pending_pool,
    collision_won,
    collision_lost,
    equal_ratio_collision_rejected,
    evicted_for_space,
    cascade_removed_dependents,
    dependency_rule_rejected,
    must_reject_duplicate,
    must_reject_missing_input,
    must_reject_committed_input,
    must_reject_handed_out_input,
    must_reject_field_mismatch,
    extraction_nonempty,
    extraction_with_parent_and_child,
    extraction_left_something_behind,
    block_with_pool_txs,
    preconf_confirmed_by_block,
    preconf_rolled_back,
    rollback_evicted_dependents,
    rollback_freed_resubmission,
    late_preconf_ignored,
    skipped_tx_dependents_removed,
    pending_resolution_inserted,
    expired_with_dependents,
    squeeze_reports_checked,
    pruned_after_other_property_failed,
);

static EVENTS: [AtomicU64; 32] = [const { AtomicU64::new(0) }; 32];

pub fn hit(e: Ev) {
    EVENTS[e as usize].fetch_add(1, Ordering::Relaxed);
}

pub fn event_hits() -> BTreeMap<String, u64> {
    EVENT_NAMES
        .iter()
        .enumerate()
        .map(|(i, n)| (n.to_string(), EVENTS[i].load(Ordering::Relaxed)))
        .collect()
}

// ---------------------------------------------------------------------------
// recording status port
// ---------------------------------------------------------------------------

#[derive(Clone, Debug, PartialEq, Eq)]
pub enum Rec {
    Submitted(TxId),
    Squeezed(TxId),
    Other(TxId),
}

pub struct Recorder {
    pub events: Mutex<Vec<Rec>>,
    sender: broadcast::Sender<(TxId, PreConfirmationStatus)>,
}

impl Recorder {
    fn new() -> Self {
        let (sender, _) = broadcast::channel(16);
        Self { events: Mutex::new(vec![]), sender }
    }
    fn take(&self) -> Vec<Rec> {
        std::mem::take(&mut *self.events.lock().unwrap())
    }
}

impl TxStatusManager for Recorder {
    fn status_update(&self, tx_id: TxId, tx_status: TransactionStatus) {
        let rec = match tx_status {
            TransactionStatus::Submitted(_) => Rec::Submitted(tx_id),
            TransactionStatus::SqueezedOut(_) => Rec::Squeezed(tx_id),
            _ => Rec::Other(tx_id),
        };
        self.events.lock().unwrap().push(rec);
    }
    fn preconfirmations_update_listener(&self) -> broadcast::Receiver<(TxId, PreConfirmationStatus)> {
        self.sender.subscribe()
    }
    fn squeezed_out_txs(&self, statuses: Vec<(TxId, statuses::SqueezedOut)>) {
        let mut ev = self.events.lock().unwrap();
        for (tx_id, _) in statuses {
            ev.push(Rec::Squeezed(tx_id));
        }
    }
}

// ---------------------------------------------------------------------------
// alphabet
// ---------------------------------------------------------------------------

#[derive(Clone, Copy, Debug, Serialize, Deserialize, PartialEq, Eq)]
pub enum Kind {
    Success,
    Failure,
    Squeezed,
}

#[derive(Clone, Debug, Serialize, Deserialize, PartialEq, Eq)]
pub enum Op {
    /// Submit (or resubmit) a prepared transaction.
    Insert(String),
    /// The worker handles the oldest insert request queued by pending-pool resolution.
    Drain,
    /// The block producer asks for transactions with constraint preset n.
    Extract(u8),
    /// A canonical block at height tip+1 containing exactly these transactions.
    Import(Vec<String>),
    /// A preconfirmation from the status service. `dh`: height = tip + dh
    /// (0 = at the canonical tip, i.e. late). `outputs`: resolved outputs attached.
    Preconf { tx: String, kind: Kind, dh: u8, outputs: bool },
    /// TTL / height expiry of one pooled transaction (what the pruner sends).
    Expire(String),
    /// Pending-pool expiration tick (its TTL is zero: everything waiting expires).
    ExpirePending,
}

#[derive(Clone, Copy, Debug, PartialEq, Eq)]
pub enum Prop {
    C16,
    C17,
    C18,
    C19,
    C20,
    C21,
}

impl Prop {
    pub fn parse(s: &str) -> Option<Prop> {
        Some(match s {
            "C16" => Prop::C16,
            "C17" => Prop::C17,
            "C18" => Prop::C18,
            "C19" => Prop::C19,
            "C20" => Prop::C20,
            "C21" => Prop::C21,
            _ => return None,
        })
    }
}

#[derive(Clone, Debug)]
pub struct Cfg {
    pub name: &'static str,
    pub max_txs: usize,
    pub chain_limit: usize,
    pub max_gas: u64,
    pub max_bytes: usize,
    /// richer alphabet (far-ahead preconfirmations, late failure preconfirmations)
    pub rich: bool,
    /// The transactions of the universe that can be submitted / preconfirmed in this exploration.
    pub txs: Vec<&'static str>,
    /// Budget of "special" letters (non-default constraints, failure / late /
    /// far-ahead preconfirmations, expiry) along one history.
    pub max_dev: u32,
    /// Depth bound of this exploration.
    pub depth: usize,
    /// Share of the pool limits the pending pool may use (chosen so that one transaction fits).
    pub pending_pct: u16,
    /// Blocks with several transactions are in the alphabet. `process_block`
    /// walks a `HashSet` of the confirmed ids, so the recency order inside the
    /// spent-input cache after such a block depends on the process-random hash
    /// order. Only allowed together with `big_cache`, where that order can
    /// never matter.
    pub multi_blocks: bool,
    /// The spent-input cache (capacity `max_txs + 1`) is larger than the number
    /// of keys the whole universe can ever put into it, so nothing is ever
    /// evicted and the recency order is unobservable: it is left out of the
    /// canonical state (checked: the cache never fills).
    pub big_cache: bool,
}

// ---------------------------------------------------------------------------
// world
// ---------------------------------------------------------------------------

#[derive(Default, Clone)]
pub struct Model {
    /// Extracted for a block or preconfirmed by a peer, and not explicitly
    /// settled since (committed, skipped, rolled back).
    pub in_flight: BTreeSet<usize>,
    /// Extracted since the last imported block and neither committed nor skipped.
    pub fresh_out: BTreeSet<usize>,
    /// Accepted (not late) success/failure preconfirmations not yet reconciled: tx -> heights.
    pub preconf: BTreeMap<usize, BTreeSet<u32>>,
    /// Heights at which the worker still books a tentative preconfirmation of a
    /// transaction, including transactions skipped since (a skip does not clear
    /// the worker's bookkeeping, so their tentatively spent inputs stay held
    /// until that height is reconciled). Only used to justify refusals.
    pub booked: BTreeMap<usize, BTreeSet<u32>>,
    /// Handed out again (extracted) while an older accepted preconfirmation of
    /// the same transaction was still unreconciled: the newer hand-out keeps
    /// its inputs held when the older preconfirmation is rolled back.
    pub rehanded: BTreeSet<usize>,
    /// Pooled transactions one of whose pooled descendants was taken out of the
    /// pool by a preconfirmation while they stayed (used only to name the
    /// witness class of a C19 violation).
    pub stale_counters: BTreeSet<usize>,
    /// Set once a property other than the selected one was violated on this
    /// history: the history is not extended (stop at the first error state).
    pub dead: Option<String>,
}

pub struct World {
    pub chain: ChainDb,
    pub rec: Arc<Recorder>,
    pub w: VerifWorker<ChainDb, Recorder>,
    pub m: Model,
}

pub struct PoolSubject {
    pub u: Arc<Universe>,
    pub prop: Prop,
    pub cfg: Cfg,
}

fn gt_ratio(tip1: u64, gas1: u64, tip2: u64, gas2: u64) -> bool {
    (tip1 as u128) * (gas2 as u128) > (tip2 as u128) * (gas1 as u128)
}

/// Coarse, order-insensitive error classes (details such as which of several
/// collisions is named first depend on hash-map iteration order).
fn err_class(e: &Error) -> &'static str {
    match e {
        Error::InputValidation(InputValidationError::DuplicateTxId(_)) => "duplicate",
        Error::InputValidation(
            InputValidationError::NotInsertedIoWrongOwner
            | InputValidationError::NotInsertedIoWrongAmount
            | InputValidationError::NotInsertedIoWrongAssetId
            | InputValidationError::NotInsertedIoCoinMismatch
            | InputValidationError::NotInsertedIoMessageMismatch
            | InputValidationError::NotInsertedIoContractOutput
            | InputValidationError::NotInsertedInputDependentOnChangeOrVariable,
        ) => "field-mismatch",
        Error::InputValidation(
            InputValidationError::UtxoNotFound(_)
            | InputValidationError::NotInsertedInputContractDoesNotExist(_)
            | InputValidationError::NotInsertedInputMessageUnknown(_),
        ) => "missing-input",
        Error::InputValidation(InputValidationError::NotInsertedBlobIdAlreadyTaken(_)) => "blob-taken",
        Error::InputValidation(_) => "input-validation",
        Error::Collided(_) => "collided",
        Error::Dependency(_) => "dependency",
        Error::NotInsertedLimitHit => "limit-hit",
        Error::UtxoInputWasAlreadySpent(_) | Error::MessageInputWasAlreadySpent(_) => "already-spent",
        Error::Database(_) | Error::Storage(_) => "storage",
        _ => "other",
    }
}

#[derive(Debug, Clone, PartialEq, Eq)]
enum Outcome {
    Admitted,
    Rejected(&'static str),
    /// neither admitted nor refused: parked in the pending pool
    Pending,
}

impl PoolSubject {
    fn tx(&self, i: usize) -> &UTx {
        &self.u.txs[i]
    }
    fn names(&self, set: impl IntoIterator<Item = usize>) -> Vec<&'static str> {
        set.into_iter().map(|i| self.u.txs[i].name).collect()
    }
    fn pooled(&self, w: &World) -> BTreeSet<usize> {
        w.w.pool_tx_ids()
            .iter()
            .filter_map(|id| self.u.by_id.get(id).copied())
            .collect()
    }
    fn conflicts(x: &UTx, y: &UTx) -> bool {
        x.coin_inputs.iter().any(|c| y.coin_inputs.contains(c))
            || x.msg_inputs.iter().any(|c| y.msg_inputs.contains(c))
            || x.created_contracts.iter().any(|c| y.created_contracts.contains(c))
            || (x.blob.is_some() && x.blob == y.blob)
    }
    fn shares_spent_input(x: &UTx, y: &UTx) -> bool {
        x.coin_inputs.iter().any(|c| y.coin_inputs.contains(c))
            || x.msg_inputs.iter().any(|c| y.msg_inputs.contains(c))
    }

    /// Direct parents of `c` inside `set` (statement-level dependency: spends a
    /// coin output of, or uses a contract created by, another transaction of
    /// the set). With `Some(world)`, contract edges are ignored for contracts
    /// that already exist (on chain or created by an in-flight transaction).
    fn parents_in(&self, c: usize, set: &BTreeSet<usize>, w: Option<&World>) -> BTreeSet<usize> {
        let t = self.tx(c);
        let mut out = BTreeSet::new();
        for utxo in &t.coin_inputs {
            if let Some(p) = self.u.creator_of(utxo) {
                if p != c
                    && set.contains(&p)
                    && self.tx(p).coin_outputs.iter().any(|(i, ..)| *i == utxo.output_index())
                {
                    out.insert(p);
                }
            }
        }
        for k in &t.contract_inputs {
            if let Some(w) = w {
                // the contract already exists: on chain, or created by a handed-out /
                // preconfirmed transaction (its user does not wait for a pool creator)
                if w.chain.read(|d| d.contracts.contains(k))
                    || w.m.in_flight.iter().any(|&p| self.tx(p).created_contracts.contains(k))
                {
                    continue;
                }
            }
            for &p in set {
                if p != c && self.tx(p).created_contracts.contains(k) {
                    out.insert(p);
                }
            }
        }
        out
    }

    /// `root` plus all its transitive dependents inside `set`.
    fn subtree(&self, root: usize, set: &BTreeSet<usize>, w: Option<&World>) -> BTreeSet<usize> {
        let mut sub = BTreeSet::from([root]);
        loop {
            let mut grew = false;
            for &x in set {
                if !sub.contains(&x) && self.parents_in(x, set, w).iter().any(|p| sub.contains(p)) {
                    sub.insert(x);
                    grew = true;
                }
            }
            if !grew {
                return sub;
            }
        }
    }

    fn fresh_world(&self) -> World {
        let chain = ChainDb::new(self.u.genesis.clone());
        let rec = Arc::new(Recorder::new());
        let config = Config {
            utxo_validation: true,
            max_txs_chain_count: self.cfg.chain_limit,
            pool_limits: PoolLimits {
                max_txs: self.cfg.max_txs,
                max_gas: self.cfg.max_gas,
                max_bytes_size: self.cfg.max_bytes,
            },
            pending_pool_tx_ttl: Duration::ZERO,
            // Room for exactly one waiting transaction (by count, and by gas where the count is
            // large): two transactions resolved by the same event are re-submitted by the worker
            // in the iteration order of a `HashSet`, which is process-random and can matter near
            // the pool limits.
            max_pending_pool_size_percentage: self.cfg.pending_pct,
            metrics: false,
            ..Default::default()
        };
        let w = VerifWorker::new(config, Arc::new(ChainProvider(chain.clone())), rec.clone(), BlockHeight::new(0));
        World { chain, rec, w, m: Model::default() }
    }

    pub fn preset(&self, n: u8) -> Constraints {
        let unlimited = Constraints {
            minimal_gas_price: 0,
            max_gas: u64::MAX,
            maximum_txs: u16::MAX,
            maximum_block_size: u32::MAX,
            excluded_contracts: Default::default(),
        };
        let gas_a = self.tx(self.u.idx("a")).gas;
        let size_a = self.tx(self.u.idx("a")).size as u32;
        let price_b = self.tx(self.u.idx("b")).max_gas_price;
        match n {
            0 => unlimited,
            1 => Constraints { maximum_txs: 1, ..unlimited },
            // room for one and a half ordinary scripts
            2 => Constraints { max_gas: gas_a + gas_a / 2, ..unlimited },
            // a price above what b / bb offer, and contract K excluded
            3 => Constraints {
                minimal_gas_price: price_b + 1,
                excluded_contracts: [self.u.contract_k].into_iter().collect(),
                ..unlimited
            },
            // room for two ordinary scripts, by size
            _ => Constraints { maximum_block_size: size_a * 2 + size_a / 2, ..unlimited },
        }
    }

    // -----------------------------------------------------------------------
    // C19: admission expectations, computed from the model before the insert
    // -----------------------------------------------------------------------

    /// Reasons (statement clauses) why the pool must refuse `t` now.
    fn must_reject(&self, w: &World, t: usize, pooled: &BTreeSet<usize>) -> Vec<(&'static str, String)> {
        let tx = self.tx(t);
        let mut why = vec![];
        if pooled.contains(&t) {
            why.push(("id-already-pooled", String::new()));
        }
        if w.chain.read(|d| d.txs.contains(&tx.id)) {
            why.push(("id-already-committed", String::new()));
        }
        for (utxo, owner, amount, asset) in &tx.coin_inputs_full {
            let (on_chain, spent) = w.chain.read(|d| (d.coins.get(utxo).cloned(), d.spent_coins.contains(utxo)));
            if spent {
                why.push(("input-committed", format!("coin {utxo}")));
            } else if let Some(coin) = on_chain {
                if coin.owner() != owner || coin.amount() != amount || coin.asset_id() != asset {
                    why.push(("input-fields-disagree", format!("coin {utxo} on chain")));
                }
            } else {
                // not on chain: does a pooled or in-flight transaction create it?
                let creator = self.u.creator_of(utxo).filter(|p| pooled.contains(p) || w.m.in_flight.contains(p));
                match creator.and_then(|p| {
                    self.tx(p).coin_outputs.iter().find(|(i, ..)| *i == utxo.output_index()).cloned()
                }) {
                    None => why.push(("input-missing", format!("coin {utxo}"))),
                    Some((_, o_owner, o_amount, o_asset)) => {
                        if &o_owner != owner || &o_amount != amount || &o_asset != asset {
                            why.push(("input-fields-disagree", format!("coin {utxo} created in the pool")));
                        }
                    }
                }
            }
            for &s in &w.m.fresh_out {
                if self.tx(s).coin_inputs.contains(utxo) {
                    why.push(("input-handed-out", format!("coin {utxo} is spent by {} (handed out, unsettled)", self.tx(s).name)));
                }
            }
        }
        for nonce in &tx.msg_inputs {
            let (on_chain, spent) = w.chain.read(|d| (d.messages.contains_key(nonce), d.spent_messages.contains(nonce)));
            if spent {
                why.push(("input-committed", format!("message {nonce}")));
            } else if !on_chain {
                why.push(("input-missing", format!("message {nonce}")));
            }
            for &s in &w.m.fresh_out {
                if self.tx(s).msg_inputs.contains(nonce) {
                    why.push(("input-handed-out", format!("message {nonce} is spent by {} (handed out, unsettled)", self.tx(s).name)));
                }
            }
        }
        why
    }

    /// Was the spent-input cache still aware of the handed-out inputs of `t`?
    fn cache_forgot(&self, w: &World, t: usize) -> bool {
        let tx = self.tx(t);
        let mut forgot = false;
        for &s in &w.m.fresh_out {
            for utxo in &self.tx(s).coin_inputs {
                if tx.coin_inputs.contains(utxo) && !w.w.is_spent_utxo(utxo) {
                    forgot = true;
                }
            }
            for nonce in &self.tx(s).msg_inputs {
                if tx.msg_inputs.contains(nonce) && !w.w.is_spent_message(nonce) {
                    forgot = true;
                }
            }
        }
        forgot
    }

    fn classify(&self, notes: &[VerifInsertion], id: &TxId) -> Outcome {
        for n in notes {
            match n {
                VerifInsertion::Inserted(i) if i == id => return Outcome::Admitted,
                VerifInsertion::Rejected(i, e) if i == id => return Outcome::Rejected(err_class(e)),
                _ => {}
            }
        }
        Outcome::Pending
    }

    /// One submission (Insert letter, or a queued resolved transaction) with the C19 oracle.
    fn submit(&self, w: &mut World, t: usize, queued: bool, found: &mut Vec<(Prop, Violation)>) -> String {
        let before = self.pooled(w);
        let why = self.must_reject(w, t, &before);
        let forgot = self.cache_forgot(w, t);
        let colliders: Vec<usize> =
            before.iter().copied().filter(|&c| c != t && Self::conflicts(self.tx(t), self.tx(c))).collect();
        // collided subtrees under both readings of a contract dependency
        let subtrees: Vec<(usize, BTreeSet<usize>, BTreeSet<usize>)> = colliders
            .iter()
            .map(|&c| (c, self.subtree(c, &before, Some(w)), self.subtree(c, &before, None)))
            .collect();
        let id = self.tx(t).id;
        let notes = if queued {
            match w.w.handle_next_queued_insert() {
                Some((qid, notes)) if qid == id => notes,
                _ => mcx::machinery_failure("queued insert mismatch"),
            }
        } else {
            w.w.insert(self.tx(t).tx.clone())
        };
        let outcome = self.classify(&notes, &id);
        let after = self.pooled(w);
        let admitted = outcome == Outcome::Admitted;
        // (an already pooled transaction reported as admitted again is left to the C19 oracle)
        if !before.contains(&t) && admitted != after.contains(&t) {
            mcx::machinery_failure(&format!(
                "harness: notification says {outcome:?} for {} but pool membership went {} -> {}",
                self.tx(t).name,
                before.contains(&t),
                after.contains(&t)
            ));
        }
        match &outcome {
            Outcome::Admitted => hit(Ev::insert_admitted),
            Outcome::Rejected(c) => {
                hit(Ev::insert_rejected);
                if *c == "dependency" {
                    hit(Ev::dependency_rule_rejected);
                }
            }
            Outcome::Pending => hit(Ev::insert_to_pending_pool),
        }
        for (sig, _) in &why {
            hit(match *sig {
                "id-already-pooled" | "id-already-committed" => Ev::must_reject_duplicate,
                "input-missing" => Ev::must_reject_missing_input,
                "input-committed" => Ev::must_reject_committed_input,
                "input-handed-out" => Ev::must_reject_handed_out_input,
                _ => Ev::must_reject_field_mismatch,
            });
        }
        if !colliders.is_empty() {
            if admitted {
                hit(Ev::collision_won);
            } else {
                hit(Ev::collision_lost);
                let tx = self.tx(t);
                if subtrees.iter().any(|(_, s, _)| {
                    let (tip, gas) = self.sum(s);
                    !gt_ratio(tx.tip, tx.gas, tip, gas) && !gt_ratio(tip, gas, tx.tip, tx.gas)
                }) {
                    hit(Ev::equal_ratio_collision_rejected);
                }
            }
        }
        if admitted && colliders.is_empty() && before.iter().any(|x| !after.contains(x)) {
            hit(Ev::evicted_for_space);
        }
        if admitted {
            let stale = colliders.iter().any(|c| w.m.stale_counters.contains(c));
            let c19 = || -> Result<(), Violation> {
                if let Some((sig, detail)) = why.first() {
                    let class = if *sig == "input-handed-out" && forgot { ":spent-cache-forgot" } else { "" };
                    return Err(viol(
                        format!("admitted:{sig}{class}"),
                        format!(
                            "expected: insert({}) refused because {sig} {detail}; observed: admitted (pool before {:?}, after {:?}; all reasons: {:?})",
                            self.tx(t).name,
                            self.names(before.clone()),
                            self.names(after.clone()),
                            why
                        ),
                    ));
                }
                let tx = self.tx(t);
                for (c, sub_min, sub_max) in &subtrees {
                    let (tip1, gas1) = self.sum(sub_min);
                    let (tip2, gas2) = self.sum(sub_max);
                    if !gt_ratio(tx.tip, tx.gas, tip1, gas1) && !gt_ratio(tx.tip, tx.gas, tip2, gas2) {
                        let class = if stale { ":ancestor-counters-stale-after-child-preconfirmed-first" } else { "" };
                        return Err(viol(
                            format!("admitted:collision-not-strictly-better{class}"),
                            format!(
                                "expected: insert({}) (tip {} / gas {}) refused, it collides with {} whose subtree {:?} has cumulative tip {} / gas {} (not strictly lower); observed: admitted",
                                tx.name, tx.tip, tx.gas, self.tx(*c).name, self.names(sub_min.clone()), tip1, gas1
                            ),
                        ));
                    }
                    if let Some(left) = sub_min.iter().find(|x| after.contains(x)) {
                        return Err(viol(
                            "admitted:collided-subtree-not-evicted",
                            format!(
                                "expected: after insert({}) the collided subtree {:?} of {} is evicted; observed: {} is still pooled",
                                tx.name,
                                self.names(sub_min.clone()),
                                self.tx(*c).name,
                                self.tx(*left).name
                            ),
                        ));
                    }
                }
                Ok(())
            };
            if let Err(v) = c19() {
                found.push((Prop::C19, v));
            }
        }
        let mut s = format!("{} {:?}", self.tx(t).name, outcome);
        // other insertions performed by the same handler (none expected) are part of the observation
        let others: BTreeSet<String> = notes
            .iter()
            .filter_map(|n| match n {
                VerifInsertion::Inserted(i) if *i != id => Some(format!("+{}", self.u.name_of(i))),
                VerifInsertion::Rejected(i, e) if *i != id => Some(format!("-{}:{}", self.u.name_of(i), err_class(e))),
                _ => None,
            })
            .collect();
        if !others.is_empty() {
            s.push_str(&format!(" also {others:?}"));
        }
        s
    }

    fn sum(&self, set: &BTreeSet<usize>) -> (u64, u64) {
        set.iter().fold((0u64, 0u64), |(t, g), &x| (t + self.tx(x).tip, g + self.tx(x).gas))
    }

    // -----------------------------------------------------------------------
    // state invariants
    // -----------------------------------------------------------------------

    fn check_c16(&self, w: &World) -> Result<(), Violation> {
        let ids = w.w.pool_tx_ids();
        let stored = w.w.storage_tx_ids();
        if ids != stored {
            return Err(viol(
                "holds:index-and-storage-disagree",
                format!(
                    "expected: the ids the pool reports are the transactions it stores; observed: reported {:?}, stored {:?}",
                    ids.iter().map(|i| self.u.name_of(i)).collect::<Vec<_>>(),
                    stored.iter().map(|i| self.u.name_of(i)).collect::<Vec<_>>()
                ),
            ));
        }
        let mut held = vec![];
        for id in &ids {
            match w.w.pool_tx(id) {
                Some(tx) => held.push(tx),
                None => {
                    return Err(viol(
                        "holds:reported-but-not-held",
                        format!("the pool reports {} but does not hold it", self.u.name_of(id)),
                    ))
                }
            }
        }
        // conflicts, computed from the held transactions themselves
        let mut coins: BTreeMap<UtxoId, TxId> = BTreeMap::new();
        let mut msgs = BTreeMap::new();
        let mut contracts = BTreeMap::new();
        let mut blobs = BTreeMap::new();
        for tx in &held {
            let name = self.u.name_of(&tx.id());
            let i = match self.u.by_id.get(&tx.id()) {
                Some(i) => *i,
                None => mcx::machinery_failure("pool holds a transaction outside the universe"),
            };
            let ut = self.tx(i);
            for c in &ut.coin_inputs {
                if let Some(o) = coins.insert(*c, tx.id()) {
                    return Err(viol("conflict:coin", format!("{} and {} are both pooled and spend coin {c}", self.u.name_of(&o), name)));
                }
            }
            for m in &ut.msg_inputs {
                if let Some(o) = msgs.insert(*m, tx.id()) {
                    return Err(viol("conflict:message", format!("{} and {} are both pooled and spend message {m}", self.u.name_of(&o), name)));
                }
            }
            for k in &ut.created_contracts {
                if let Some(o) = contracts.insert(*k, tx.id()) {
                    return Err(viol("conflict:contract", format!("{} and {} are both pooled and create contract {k}", self.u.name_of(&o), name)));
                }
            }
            if let Some(b) = &ut.blob {
                if let Some(o) = blobs.insert(*b, tx.id()) {
                    return Err(viol("conflict:blob", format!("{} and {} are both pooled and upload blob {b}", self.u.name_of(&o), name)));
                }
            }
        }
        let stats = w.w.latest_stats();
        let count = held.len() as u64;
        let gas: u64 = held.iter().map(|t| t.max_gas()).sum();
        let size: u64 = held.iter().map(|t| t.metered_bytes_size() as u64).sum();
        if stats.tx_count != count || stats.total_gas != gas || stats.total_size != size {
            let which = if stats.tx_count != count {
                "count"
            } else if stats.total_gas != gas {
                "gas"
            } else {
                "size"
            };
            return Err(viol(
                format!("stats:{which}"),
                format!(
                    "expected stats (count {count}, gas {gas}, size {size}) = sums over the held transactions {:?}; observed (count {}, gas {}, size {})",
                    ids.iter().map(|i| self.u.name_of(i)).collect::<Vec<_>>(),
                    stats.tx_count,
                    stats.total_gas,
                    stats.total_size
                ),
            ));
        }
        Ok(())
    }

    fn check_c17_state(&self, w: &World, before: &BTreeSet<usize>) -> Result<(), Violation> {
        let pooled = self.pooled(w);
        // ancestors with path counts
        for &x in &pooled {
            // number of distinct paths from every ancestor to x, longest path
            let mut paths: BTreeMap<usize, u32> = BTreeMap::new();
            let mut longest = 1usize;
            let mut stack = vec![(x, 1usize)];
            let mut guard = 0;
            while let Some((n, depth)) = stack.pop() {
                guard += 1;
                if guard > 10_000 {
                    return Err(viol("graph:cycle", format!("dependency cycle through {}", self.tx(x).name)));
                }
                longest = longest.max(depth);
                for p in self.parents_in(n, &pooled, Some(w)) {
                    *paths.entry(p).or_default() += 1;
                    stack.push((p, depth + 1));
                }
            }
            if let Some((p, n)) = paths.iter().find(|(_, n)| **n > 1) {
                return Err(viol(
                    "graph:diamond",
                    format!(
                        "{} depends on {} through {n} paths (pool {:?})",
                        self.tx(x).name,
                        self.tx(*p).name,
                        self.names(pooled.clone())
                    ),
                ));
            }
            // the chain of a transaction = the transaction plus everything that has to run
            // before it (this is what the configured limit bounds; it subsumes the longest path)
            let longest = longest.max(paths.len() + 1);
            if longest > self.cfg.chain_limit {
                return Err(viol(
                    "graph:chain-too-long",
                    format!(
                        "the dependency chain of {} (itself plus its pooled ancestors) has {longest} transactions, configured limit {} (pool {:?})",
                        self.tx(x).name,
                        self.cfg.chain_limit,
                        self.names(pooled.clone())
                    ),
                ));
            }
            // cascade: every output x spends must still be legitimately available
            let t = self.tx(x);
            for utxo in &t.coin_inputs {
                let Some(p) = self.u.creator_of(utxo) else { continue };
                let ok = pooled.contains(&p)
                    || w.m.in_flight.contains(&p)
                    || w.chain.read(|d| d.coins.contains_key(utxo) || d.spent_coins.contains(utxo));
                if !ok {
                    return Err(viol(
                        "cascade:orphan-coin-dependent",
                        format!(
                            "{} is pooled and spends an output of {}, which is neither pooled, handed out / preconfirmed, nor committed",
                            t.name,
                            self.tx(p).name
                        ),
                    ));
                }
            }
            for k in &t.contract_inputs {
                let creators: Vec<usize> =
                    (0..self.u.txs.len()).filter(|&p| self.tx(p).created_contracts.contains(k)).collect();
                let ok = w.chain.read(|d| d.contracts.contains(k))
                    || creators.iter().any(|p| pooled.contains(p) || w.m.in_flight.contains(p));
                if !ok {
                    // witness class: the creator that justified this user was itself pooled and left
                    // the pool in this step without taking the user along (the user was admitted
                    // before that creator, so the pool never linked them), as opposed to a
                    // handed-out / preconfirmed creator that was skipped or rolled back
                    let class = if creators.iter().any(|p| before.contains(p)) { ":unlinked-pool-creator-removed" } else { "" };
                    return Err(viol(
                        format!("cascade:orphan-contract-dependent{class}"),
                        format!(
                            "{} is pooled and uses contract {k}, whose creators {:?} are neither pooled, handed out / preconfirmed, nor committed",
                            t.name,
                            self.names(creators)
                        ),
                    ));
                }
            }
        }
        Ok(())
    }

    /// Parents-first order of an extraction (C17 and C18).
    fn check_parents_first(&self, before: &BTreeSet<usize>, after: &BTreeSet<usize>, out: &[usize], w: &World) -> Result<(), Violation> {
        for (pos, &x) in out.iter().enumerate() {
            for p in self.parents_in(x, before, Some(w)) {
                let parent_pos = out.iter().position(|&y| y == p);
                let ok = matches!(parent_pos, Some(pp) if pp < pos);
                if !ok {
                    return Err(viol(
                        "order:child-before-parent",
                        format!(
                            "extraction {:?} offers {} although its pooled parent {} is {} (pool after {:?})",
                            self.names(out.iter().copied()),
                            self.tx(x).name,
                            self.tx(p).name,
                            if parent_pos.is_some() { "listed later" } else { "not offered" },
                            self.names(after.clone())
                        ),
                    ));
                }
            }
        }
        Ok(())
    }

    fn check_c18(&self, c: &Constraints, before: &BTreeSet<usize>, after: &BTreeSet<usize>, out: &[usize], w: &World) -> Result<(), Violation> {
        let names = self.names(out.iter().copied());
        let gas: u128 = out.iter().map(|&x| self.tx(x).gas as u128).sum();
        let size: u128 = out.iter().map(|&x| self.tx(x).size as u128).sum();
        if gas > c.max_gas as u128 {
            return Err(viol("limit:gas", format!("extraction {names:?} has total max gas {gas} > requested {}", c.max_gas)));
        }
        if size > c.maximum_block_size as u128 {
            return Err(viol("limit:size", format!("extraction {names:?} has total size {size} > requested {}", c.maximum_block_size)));
        }
        if out.len() > c.maximum_txs as usize {
            return Err(viol("limit:count", format!("extraction {names:?} has {} transactions > requested {}", out.len(), c.maximum_txs)));
        }
        for &x in out {
            let t = self.tx(x);
            if t.max_gas_price < c.minimal_gas_price {
                return Err(viol("price:below-minimum", format!("{} offers max gas price {} < minimum {}", t.name, t.max_gas_price, c.minimal_gas_price)));
            }
            if let Some(k) = t.contract_inputs.iter().find(|k| c.excluded_contracts.contains(*k)) {
                return Err(viol("excluded-contract", format!("{} touches excluded contract {k}", t.name)));
            }
            if after.contains(&x) {
                return Err(viol("still-pooled", format!("{} was handed out but is still in the pool", t.name)));
            }
        }
        for (i, &x) in out.iter().enumerate() {
            for &y in &out[i + 1..] {
                if x == y || Self::conflicts(self.tx(x), self.tx(y)) {
                    return Err(viol("conflict-in-extraction", format!("{} and {} conflict and are both in extraction {names:?}", self.tx(x).name, self.tx(y).name)));
                }
            }
        }
        self.check_parents_first(before, after, out, w)?;
        // executable at the same time = same dependency depth within this extraction
        // (a contract that has both a pooled creator and an in-flight / on-chain one makes the
        // depth of its users ambiguous: such users are left out of the comparison)
        let outset: BTreeSet<usize> = out.iter().copied().collect();
        let depths = |world: Option<&World>| {
            let mut depth: BTreeMap<usize, usize> = BTreeMap::new();
            for &x in out {
                let d = self
                    .parents_in(x, before, world)
                    .iter()
                    .filter(|p| outset.contains(p))
                    .map(|p| depth.get(p).copied().unwrap_or(0) + 1)
                    .max()
                    .unwrap_or(0);
                depth.insert(x, d);
            }
            depth
        };
        let (depth, depth_all_edges) = (depths(Some(w)), depths(None));
        let mut last: BTreeMap<usize, usize> = BTreeMap::new();
        for &x in out {
            let d = depth[&x];
            if depth_all_edges[&x] != d {
                continue;
            }
            if let Some(&prev) = last.get(&d) {
                let (p, t) = (self.tx(prev), self.tx(x));
                if gt_ratio(t.tip, t.gas, p.tip, p.gas) {
                    return Err(viol(
                        "order:tip-per-gas",
                        format!(
                            "extraction {names:?}: {} (tip {} / gas {}) is handed out after {} (tip {} / gas {}) although both were executable at the same time (depth {d})",
                            t.name, t.tip, t.gas, p.name, p.tip, p.gas
                        ),
                    ));
                }
            }
            last.insert(d, x);
        }
        Ok(())
    }

    fn block(&self, height: u32, txs: &[usize]) -> SharedImportResult {
        let mut block = Block::<Transaction>::default();
        block.header_mut().set_block_height(BlockHeight::new(height));
        *block.transactions_mut() = txs.iter().map(|&t| self.tx(t).raw.clone()).collect();
        let sealed = Sealed { entity: block, consensus: Default::default() };
        let statuses = txs
            .iter()
            .map(|&t| TransactionExecutionStatus {
                id: self.tx(t).id,
                result: TransactionExecutionResult::Success {
                    result: None,
                    receipts: Arc::new(vec![]),
                    total_gas: 0,
                    total_fee: 0,
                },
            })
            .collect();
        Arc::new(ImportResult::new_from_local(sealed, statuses, vec![]).wrap())
    }

    /// Can this ordered list of transactions form a valid block on the model chain?
    fn block_valid(&self, w: &World, txs: &[usize]) -> bool {
        let mut d = w.chain.read(|d| d.clone());
        for &t in txs {
            if !Self::apply_tx(&mut d, self.tx(t)) {
                return false;
            }
        }
        true
    }

    fn apply_tx(d: &mut crate::chain::ChainData, t: &UTx) -> bool {
        if d.txs.contains(&t.id) {
            return false;
        }
        for (utxo, owner, amount, asset) in &t.coin_inputs_full {
            match d.coins.get(utxo) {
                Some(c) if c.owner() == owner && c.amount() == amount && c.asset_id() == asset => {}
                _ => return false,
            }
        }
        for n in &t.msg_inputs {
            if !d.messages.contains_key(n) {
                return false;
            }
        }
        for k in &t.contract_inputs {
            if !d.contracts.contains(k) {
                return false;
            }
        }
        for k in &t.created_contracts {
            if d.contracts.contains(k) {
                return false;
            }
        }
        if let Some(b) = &t.blob {
            if d.blobs.contains_key(b) {
                return false;
            }
        }
        for utxo in &t.coin_inputs {
            d.coins.remove(utxo);
            d.spent_coins.insert(*utxo);
        }
        for n in &t.msg_inputs {
            d.messages.remove(n);
            d.spent_messages.insert(*n);
        }
        for (i, owner, amount, asset) in &t.coin_outputs {
            let mut coin = fuel_core_types::entities::coins::coin::CompressedCoin::default();
            coin.set_owner(*owner);
            coin.set_amount(*amount);
            coin.set_asset_id(*asset);
            d.coins.insert(UtxoId::new(t.id, *i), coin);
        }
        for k in &t.created_contracts {
            d.contracts.insert(*k);
        }
        if let Some(b) = &t.blob {
            d.blobs.insert(*b, vec![7u8; 64].into());
        }
        d.txs.insert(t.id);
        true
    }

    /// Is the output behind this input of `u` available from somewhere other than `gone`?
    fn input_sources_ok(&self, w: &World, u: usize, pooled: &BTreeSet<usize>) -> bool {
        let t = self.tx(u);
        for utxo in &t.coin_inputs {
            if let Some(p) = self.u.creator_of(utxo) {
                let ok = pooled.contains(&p)
                    || w.m.in_flight.contains(&p)
                    || w.chain.read(|d| d.coins.contains_key(utxo));
                if !ok {
                    return false;
                }
            }
        }
        for k in &t.contract_inputs {
            let ok = w.chain.read(|d| d.contracts.contains(k))
                || (0..self.u.txs.len())
                    .any(|p| self.tx(p).created_contracts.contains(k) && (pooled.contains(&p) || w.m.in_flight.contains(&p)));
            if !ok {
                return false;
            }
        }
        true
    }

    fn depends_on_outputs_of(&self, u: usize, t: usize) -> bool {
        let (ut, tt) = (self.tx(u), self.tx(t));
        ut.coin_inputs.iter().any(|c| self.u.creator_of(c) == Some(t))
            || ut.contract_inputs.iter().any(|k| tt.created_contracts.contains(k))
    }
}

pub struct StepInfo {
    pub extracted: Vec<usize>,
    pub block: Vec<usize>,
    pub preconf_committed: Option<usize>,
    pub skip_target: Option<usize>,
}

impl Subject for PoolSubject {
    type World = World;
    type Op = Op;

    fn name(&self) -> String {
        format!("txpool[{}]", self.cfg.name)
    }

    fn fresh(&self) -> World {
        self.fresh_world()
    }

    fn enabled(&self, w: &World) -> Vec<Op> {
        let u = &self.u;
        if w.m.dead.is_some() {
            return vec![];
        }
        let pooled = self.pooled(w);
        let mut ops = vec![];
        for t in &u.txs {
            if self.cfg.txs.contains(&t.name) {
                ops.push(Op::Insert(t.name.to_string()));
            }
        }
        if !w.w.queued_inserts().is_empty() {
            ops.push(Op::Drain);
        }
        let presets: &[u8] = &[0, 1, 2, 3, 4];
        if !pooled.is_empty() {
            for &p in presets {
                ops.push(Op::Extract(p));
            }
        }
        // blocks: known transactions (pooled, handed out, preconfirmed) in universe (topological) order
        let known: BTreeSet<usize> = pooled.iter().chain(w.m.in_flight.iter()).copied().collect();
        let known: Vec<usize> = known.into_iter().collect();
        let mut blocks: Vec<Vec<usize>> = vec![vec![]];
        for &k in &known {
            blocks.push(vec![k]);
        }
        let fresh: Vec<usize> = w.m.fresh_out.iter().copied().collect();
        if fresh.len() >= 2 {
            blocks.push(fresh);
        }
        if !self.cfg.multi_blocks {
            blocks.retain(|b| b.len() <= 1);
        } else {
            for (i, &x) in known.iter().enumerate() {
                for &y in &known[i + 1..] {
                    blocks.push(vec![x, y]);
                }
            }
        }
        blocks.sort();
        blocks.dedup();
        for b in blocks {
            if self.block_valid(w, &b) {
                ops.push(Op::Import(self.names(b).into_iter().map(String::from).collect()));
            }
        }
        // preconfirmations: pooled, handed out, and two transactions this node may never have seen
        let mut targets: BTreeSet<usize> = pooled.iter().chain(w.m.in_flight.iter()).copied().collect();
        for f in ["a", "g"] {
            let i = u.idx(f);
            if self.cfg.txs.contains(&f) && !w.chain.read(|d| d.txs.contains(&self.tx(i).id)) {
                targets.insert(i);
            }
        }
        for &t in &targets {
            let name = self.tx(t).name.to_string();
            ops.push(Op::Preconf { tx: name.clone(), kind: Kind::Success, dh: 1, outputs: true });
            ops.push(Op::Preconf { tx: name.clone(), kind: Kind::Success, dh: 1, outputs: false });
            ops.push(Op::Preconf { tx: name.clone(), kind: Kind::Failure, dh: 1, outputs: false });
            ops.push(Op::Preconf { tx: name.clone(), kind: Kind::Squeezed, dh: 1, outputs: false });
            ops.push(Op::Preconf { tx: name.clone(), kind: Kind::Success, dh: 0, outputs: true });
            if self.cfg.rich {
                ops.push(Op::Preconf { tx: name.clone(), kind: Kind::Success, dh: 2, outputs: true });
                ops.push(Op::Preconf { tx: name.clone(), kind: Kind::Failure, dh: 0, outputs: false });
            }
        }
        for &t in &pooled {
            ops.push(Op::Expire(self.tx(t).name.to_string()));
        }
        if !w.w.pending_tx_ids().is_empty() {
            ops.push(Op::ExpirePending);
        }
        ops
    }

    fn step(&self, w: &mut World, op: &Op) -> Result<String, Violation> {
        let u = &self.u;
        if w.m.dead.is_some() {
            return Ok("dead".into());
        }
        let mut found: Vec<(Prop, Violation)> = vec![];
        let before = self.pooled(w);
        let in_flight_before = w.m.in_flight.clone();
        let committed_before = w.chain.read(|d| d.txs.clone());
        w.rec.take();
        let mut info = StepInfo { extracted: vec![], block: vec![], preconf_committed: None, skip_target: None };
        let mut obs;
        match op {
            Op::Insert(name) => {
                obs = format!("insert {}", self.submit(w, u.idx(name), false, &mut found));
            }
            Op::Drain => {
                let Some(id) = w.w.queued_inserts().first().copied() else {
                    return Ok("drain: nothing queued".into());
                };
                let t = *u.by_id.get(&id).unwrap_or_else(|| mcx::machinery_failure("queued tx outside universe"));
                let s = self.submit(w, t, true, &mut found);
                if self.pooled(w).contains(&t) {
                    hit(Ev::pending_resolution_inserted);
                }
                obs = format!("drain {s}");
            }
            Op::Extract(p) => {
                let c = self.preset(*p);
                let out = w.w.extract(self.preset(*p));
                let out: Vec<usize> = out
                    .iter()
                    .map(|t| *u.by_id.get(&t.id()).unwrap_or_else(|| mcx::machinery_failure("extracted tx outside universe")))
                    .collect();
                let after = self.pooled(w);
                if !out.is_empty() {
                    hit(Ev::extraction_nonempty);
                }
                if !after.is_empty() {
                    hit(Ev::extraction_left_something_behind);
                }
                if out.iter().any(|&x| self.parents_in(x, &before, Some(w)).iter().any(|p| out.contains(p))) {
                    hit(Ev::extraction_with_parent_and_child);
                }
                if let Err(v) = self.check_parents_first(&before, &after, &out, w) {
                    found.push((Prop::C17, v));
                }
                if let Err(v) = self.check_c18(&c, &before, &after, &out, w) {
                    found.push((Prop::C18, v));
                }
                for &x in &out {
                    if w.m.preconf.contains_key(&x) {
                        w.m.rehanded.insert(x);
                    }
                    w.m.in_flight.insert(x);
                    w.m.fresh_out.insert(x);
                }
                obs = format!("extract[{p}] -> {:?}", self.names(out.iter().copied()));
                info.extracted = out;
            }
            Op::Import(names) => {
                let txs: Vec<usize> = names.iter().map(|n| u.idx(n)).collect();
                let height = w.chain.read(|d| d.height) + 1;
                // the block is committed to the database before the pool hears about it
                w.chain.write(|d| {
                    for &t in &txs {
                        if !Self::apply_tx(d, self.tx(t)) {
                            mcx::machinery_failure("harness: invalid block in the alphabet");
                        }
                    }
                    d.height = height;
                });
                let notes = w.w.process_block(self.block(height, &txs));
                let inblock: BTreeSet<usize> = txs.iter().copied().collect();
                // model: reconcile
                let mut rolled_back = vec![];
                let mut confirmed = vec![];
                let due: Vec<usize> = w
                    .m
                    .preconf
                    .iter()
                    .filter(|(_, hs)| hs.iter().any(|h| *h <= height))
                    .map(|(t, _)| *t)
                    .collect();
                for t in due {
                    let hs = w.m.preconf.get_mut(&t).unwrap();
                    hs.retain(|h| *h > height);
                    if hs.is_empty() {
                        w.m.preconf.remove(&t);
                    }
                    if inblock.contains(&t) {
                        confirmed.push(t);
                    } else if w.m.rehanded.contains(&t) {
                        // rolled back by the worker, but handed out again since: still in flight,
                        // nothing is demanded for it
                    } else {
                        rolled_back.push(t);
                        w.m.in_flight.remove(&t);
                    }
                }
                for hs in w.m.booked.values_mut() {
                    hs.retain(|h| *h > height);
                }
                w.m.booked.retain(|_, hs| !hs.is_empty());
                for t in &inblock {
                    w.m.in_flight.remove(t);
                    w.m.preconf.remove(t);
                    w.m.rehanded.remove(t);
                }
                w.m.fresh_out.clear();
                if inblock.iter().any(|t| before.contains(t)) {
                    hit(Ev::block_with_pool_txs);
                }
                if !confirmed.is_empty() {
                    hit(Ev::preconf_confirmed_by_block);
                }
                if !rolled_back.is_empty() {
                    hit(Ev::preconf_rolled_back);
                }
                let after = self.pooled(w);
                let c20 = || -> Result<(), Violation> {
                    for &t in &inblock {
                        if after.contains(&t) {
                            return Err(viol(
                                "import:included-tx-still-pooled",
                                format!("block {height} includes {} but it is still in the pool", self.tx(t).name),
                            ));
                        }
                        // its inputs are unspendable now
                        for o in 0..u.txs.len() {
                            if o != t && Self::shares_spent_input(self.tx(o), self.tx(t)) {
                                if let VerifProbe::Admissible = w.w.can_insert(self.tx(o).tx.clone()) {
                                    return Err(viol(
                                        "import:committed-input-still-spendable",
                                        format!(
                                            "block {height} includes {}; {} spends one of its inputs and the pool would still admit it",
                                            self.tx(t).name,
                                            self.tx(o).name
                                        ),
                                    ));
                                }
                            }
                        }
                    }
                    for &t in &rolled_back {
                        let tt = self.tx(t);
                        // (i) outputs withdrawn, dependents evicted
                        for o in 0..u.txs.len() {
                            if !self.depends_on_outputs_of(o, t) || self.input_sources_ok(w, o, &after) {
                                continue;
                            }
                            if after.contains(&o) {
                                return Err(viol(
                                    "rollback:dependent-not-evicted",
                                    format!(
                                        "{} was preconfirmed for a height <= {height} and is absent from the block; {} depends on its outputs and is still pooled",
                                        tt.name,
                                        self.tx(o).name
                                    ),
                                ));
                            }
                            if let VerifProbe::Admissible = w.w.can_insert(self.tx(o).tx.clone()) {
                                return Err(viol(
                                    "rollback:outputs-not-withdrawn",
                                    format!(
                                        "{} was preconfirmed for a height <= {height} and is absent from the block; the pool would still admit {} which spends its outputs",
                                        tt.name,
                                        self.tx(o).name
                                    ),
                                ));
                            }
                        }
                        // (ii) may be submitted again
                        if after.contains(&t) || w.chain.read(|d| d.txs.contains(&tt.id)) {
                            continue;
                        }
                        if w.w.is_spent_tx(&tt.id) {
                            return Err(viol(
                                "rollback:still-marked-as-spent-tx",
                                format!(
                                    "{} was preconfirmed for a height <= {height} and is absent from the block; resubmitting it is still refused as a duplicate",
                                    tt.name
                                ),
                            ));
                        }
                        if let VerifProbe::Rejected(e) = w.w.can_insert(tt.tx.clone()) {
                            let unjustified = match &e {
                                Error::UtxoInputWasAlreadySpent(x) => {
                                    w.chain.read(|d| d.coins.contains_key(x))
                                        && !w.m.in_flight.iter().chain(w.m.booked.keys()).any(|&s| s != t && self.tx(s).coin_inputs.contains(x))
                                }
                                Error::MessageInputWasAlreadySpent(x) => {
                                    w.chain.read(|d| d.messages.contains_key(x))
                                        && !w.m.in_flight.iter().chain(w.m.booked.keys()).any(|&s| s != t && self.tx(s).msg_inputs.contains(x))
                                }
                                Error::InputValidation(InputValidationError::DuplicateTxId(_)) => true,
                                _ => false,
                            };
                            if unjustified {
                                return Err(viol(
                                    "rollback:cannot-be-resubmitted",
                                    format!(
                                        "{} was preconfirmed for a height <= {height} and is absent from the block; resubmitting it is refused with `{e}` although that input is unspent on chain and not handed out to another transaction",
                                        tt.name
                                    ),
                                ));
                            }
                            hit(Ev::rollback_freed_resubmission);
                        } else {
                            hit(Ev::rollback_freed_resubmission);
                        }
                    }
                    Ok(())
                };
                if let Err(v) = c20() {
                    found.push((Prop::C20, v));
                }
                if !rolled_back.is_empty() && before.iter().any(|x| !after.contains(x) && !inblock.contains(x)) {
                    hit(Ev::rollback_evicted_dependents);
                }
                let mut resolved: Vec<String> = notes
                    .iter()
                    .map(|n| match n {
                        VerifInsertion::Inserted(i) => format!("+{}", u.name_of(i)),
                        VerifInsertion::Rejected(i, e) => format!("-{}:{}", u.name_of(i), err_class(e)),
                    })
                    .collect();
                resolved.sort();
                obs = format!(
                    "import h={height} {:?} confirmed={:?} rolled_back={:?} resolved={:?}",
                    names,
                    self.names(confirmed),
                    self.names(rolled_back),
                    resolved
                );
                info.block = txs;
            }
            Op::Preconf { tx, kind, dh, outputs } => {
                let t = u.idx(tx);
                let tt = self.tx(t);
                let tip = w.chain.read(|d| d.height);
                let height = tip + *dh as u32;
                let resolved: Option<Vec<_>> =
                    outputs.then(|| tt.tx.utxo_ids_with_outputs().map(|(id, o)| (id, o.clone())).collect());
                let pointer = TxPointer::new(BlockHeight::new(height), 0);
                let status = match kind {
                    Kind::Success => PreConfirmationStatus::Success(
                        statuses::PreConfirmationSuccess {
                            tx_pointer: pointer,
                            total_gas: 0,
                            total_fee: 0,
                            receipts: None,
                            resolved_outputs: resolved,
                        }
                        .into(),
                    ),
                    Kind::Failure => PreConfirmationStatus::Failure(
                        statuses::PreConfirmationFailure {
                            tx_pointer: pointer,
                            total_gas: 0,
                            total_fee: 0,
                            receipts: None,
                            resolved_outputs: resolved,
                            reason: "failed".to_string(),
                        }
                        .into(),
                    ),
                    Kind::Squeezed => PreConfirmationStatus::SqueezedOut(
                        statuses::PreConfirmationSqueezedOut {
                        reason: "skipped".to_string(),
                    }
                        .into(),
                    ),
                };
                let late = *kind != Kind::Squeezed && *dh == 0;
                let dump_before = if late { Some(w.w.dump()) } else { None };
                let notes = w.w.preconfirmation(tt.id, status);
                let after = self.pooled(w);
                if late {
                    hit(Ev::late_preconf_ignored);
                    if let Some(db) = dump_before {
                        let da = w.w.dump();
                        let reports = w.rec.events.lock().unwrap().clone();
                        if db != da || !reports.is_empty() || !notes.is_empty() {
                            let diff: Vec<String> = da.iter().filter(|l| !db.contains(l)).cloned().collect();
                            found.push((
                                Prop::C20,
                                viol(
                                    "late-preconfirmation-changed-pool",
                                    format!(
                                        "a preconfirmation of {} for height {height} (canonical tip {tip}) changed the pool: new state lines {:?}, reports {:?}",
                                        tt.name, diff, reports
                                    ),
                                ),
                            ));
                        }
                    }
                } else {
                    match kind {
                        Kind::Success | Kind::Failure => {
                            if before.contains(&t) {
                                // ancestors that stay pooled while a descendant is taken out
                                let mut todo = vec![t];
                                while let Some(x) = todo.pop() {
                                    for p in self.parents_in(x, &before, None) {
                                        if after.contains(&p) && w.m.stale_counters.insert(p) {
                                            todo.push(p);
                                        }
                                    }
                                }
                            }
                            w.m.preconf.entry(t).or_default().insert(height);
                            w.m.booked.entry(t).or_default().insert(height);
                            w.m.in_flight.insert(t);
                            info.preconf_committed = Some(t);
                        }
                        Kind::Squeezed => {
                            if in_flight_before.contains(&t) && before.iter().any(|x| *x != t && !after.contains(x)) {
                                hit(Ev::skipped_tx_dependents_removed);
                            }
                            w.m.in_flight.remove(&t);
                            w.m.fresh_out.remove(&t);
                            // an explicit skip supersedes earlier preconfirmations of the same
                            // transaction: nothing is demanded from the later reconciliation
                            w.m.preconf.remove(&t);
                            w.m.rehanded.remove(&t);
                            info.skip_target = Some(t);
                        }
                    }
                }
                let mut resolved: Vec<String> = notes
                    .iter()
                    .map(|n| match n {
                        VerifInsertion::Inserted(i) => format!("+{}", u.name_of(i)),
                        VerifInsertion::Rejected(i, e) => format!("-{}:{}", u.name_of(i), err_class(e)),
                    })
                    .collect();
                resolved.sort();
                obs = format!("preconf {} {kind:?} h={height} outputs={outputs} resolved={resolved:?}", tt.name);
            }
            Op::Expire(name) => {
                let t = u.idx(name);
                w.w.remove_expired(vec![self.tx(t).id]);
                let after = self.pooled(w);
                if before.iter().filter(|x| !after.contains(x)).count() >= 2 {
                    hit(Ev::expired_with_dependents);
                }
                obs = format!("expire {name}");
            }
            Op::ExpirePending => {
                let notes = w.w.expire_pending();
                let mut n: Vec<String> = notes
                    .iter()
                    .map(|n| match n {
                        VerifInsertion::Inserted(i) => format!("+{}", u.name_of(i)),
                        VerifInsertion::Rejected(i, e) => format!("-{}:{}", u.name_of(i), err_class(e)),
                    })
                    .collect();
                n.sort();
                obs = format!("expire-pending {n:?}");
            }
        }

        // ---- after every step ------------------------------------------------
        let after = self.pooled(w);
        let reports = w.rec.take();
        let mut squeezed: BTreeMap<usize, u32> = BTreeMap::new();
        for r in &reports {
            if let Rec::Squeezed(id) = r {
                match u.by_id.get(id) {
                    Some(i) => *squeezed.entry(*i).or_default() += 1,
                    None => mcx::machinery_failure("squeeze-out report for a transaction outside the universe"),
                }
            }
        }
        let left: BTreeSet<usize> = before.iter().copied().filter(|x| !after.contains(x)).collect();
        if left.len() >= 2 && info.extracted.is_empty() && info.block.is_empty() {
            hit(Ev::cascade_removed_dependents);
        }
        w.m.stale_counters.retain(|x| after.contains(x));
        if let Err(v) = self.check_c16(w) {
            found.push((Prop::C16, v));
        }
        if let Err(v) = self.check_c17_state(w, &before) {
            found.push((Prop::C17, v));
        }
        let c21 = || -> Result<(), Violation> {
                let included: BTreeSet<usize> = info
                    .extracted
                    .iter()
                    .chain(info.block.iter())
                    .chain(info.preconf_committed.iter())
                    .copied()
                    .collect();
                hit(Ev::squeeze_reports_checked);
                for &x in &left {
                    let n = squeezed.get(&x).copied().unwrap_or(0);
                    if included.contains(&x) {
                        if n != 0 {
                            return Err(viol(
                                "reported-although-included",
                                format!(
                                    "{} left the pool by being handed out / committed / preconfirmed in this step ({obs}) but was reported squeezed out {n} time(s)",
                                    self.tx(x).name
                                ),
                            ));
                        }
                    } else if Some(x) == info.skip_target {
                        // the skipped transaction itself: the status service already knows
                    } else if n != 1 {
                        return Err(viol(
                            if n == 0 { "left-without-report" } else { "reported-more-than-once" },
                            format!(
                                "{} left the pool without inclusion in this step ({obs}); expected exactly one squeezed-out report, observed {n} (all reports: {:?})",
                                self.tx(x).name,
                                squeezed.iter().map(|(i, n)| (self.tx(*i).name, *n)).collect::<Vec<_>>()
                            ),
                        ));
                    }
                }
                // handed out or committed earlier: never reported by the pool
                for (&x, &n) in &squeezed {
                    let handed_out_or_committed = (in_flight_before.contains(&x) && !before.contains(&x))
                        || committed_before.contains(&self.tx(x).id)
                        || included.contains(&x);
                    if handed_out_or_committed && Some(x) != info.skip_target && !left.contains(&x) {
                        return Err(viol(
                            "reported-although-handed-out-or-committed",
                            format!(
                                "{} was handed out / preconfirmed / committed (not pooled) and was reported squeezed out {n} time(s) in this step ({obs})",
                                self.tx(x).name
                            ),
                        ));
                    }
                }
            Ok(())
        };
        if let Err(v) = c21() {
            found.push((Prop::C21, v));
        }
        if let Some(pos) = found.iter().position(|(p, _)| *p == self.prop) {
            return Err(found.swap_remove(pos).1);
        }
        if let Some((p, v)) = found.first() {
            // another property is already violated on this history: its own check reports
            // that; this history is not extended (stop at the first error state)
            hit(Ev::pruned_after_other_property_failed);
            w.m.dead = Some(format!("{p:?}:{}", v.sig));
        }
        let mut sq: Vec<String> = squeezed.iter().map(|(i, n)| format!("{}x{}", self.tx(*i).name, n)).collect();
        sq.sort();
        let changed = before != after || !sq.is_empty() || !info.extracted.is_empty();
        obs = format!(
            "{}{obs} | pool={:?} squeezed={:?}{}",
            if changed { "*" } else { " " },
            self.names(after),
            sq,
            w.m.dead.as_ref().map(|d| format!(" | not extended: {d}")).unwrap_or_default()
        );
        Ok(obs)
    }

    fn canon(&self, w: &World) -> Vec<u8> {
        if let Some(d) = &w.m.dead {
            return format!("dead {d}").into_bytes();
        }
        let mut lines = w.w.dump();
        if self.cfg.big_cache {
            let cached = lines.iter().filter(|l| l.starts_with("lru ")).count();
            if cached > self.cfg.max_txs {
                mcx::machinery_failure("harness: the spent-input cache filled up in a big-cache configuration");
            }
            // recency order is unobservable while nothing can be evicted
            lines.sort();
        }
        let chain = w.chain.read(|d| {
            format!(
                "chain h={} coins={:?} msgs={:?} contracts={:?} blobs={:?} txs={:?}",
                d.height,
                d.coins.keys().map(|k| k.to_string()).collect::<Vec<_>>(),
                d.messages.keys().map(|k| k.to_string()).collect::<Vec<_>>(),
                d.contracts.iter().map(|k| k.to_string()).collect::<Vec<_>>(),
                d.blobs.keys().map(|k| k.to_string()).collect::<Vec<_>>(),
                d.txs.iter().map(|k| k.to_string()).collect::<Vec<_>>()
            )
        });
        lines.push(chain);
        lines.push(format!(
            "model in_flight={:?} fresh={:?} preconf={:?} booked={:?} rehanded={:?} stale={:?}",
            w.m.in_flight, w.m.fresh_out, w.m.preconf, w.m.booked, w.m.rehanded, w.m.stale_counters
        ));
        lines.join("\n").into_bytes()
    }

    fn deviation(&self, op: &Op) -> u32 {
        match op {
            Op::Extract(p) if *p != 0 => 1,
            Op::Preconf { kind: Kind::Failure, .. } => 1,
            Op::Preconf { kind, dh, .. } if *kind != Kind::Squeezed && *dh != 1 => 1,
            Op::Expire(_) | Op::ExpirePending => 1,
            _ => 0,
        }
    }

    fn label(&self, op: &Op) -> String {
        match op {
            Op::Insert(_) => "Insert".into(),
            Op::Drain => "Drain".into(),
            Op::Extract(_) => "Extract".into(),
            Op::Import(_) => "Import".into(),
            Op::Preconf { kind, dh, .. } => {
                if *kind != Kind::Squeezed && *dh == 0 {
                    "PreconfLate".into()
                } else {
                    format!("Preconf{kind:?}")
                }
            }
            Op::Expire(_) => "Expire".into(),
            Op::ExpirePending => "ExpirePending".into(),
        }
    }

    fn interesting(&self, _op: &Op, obs: &str) -> bool {
        obs.starts_with('*')
    }

    fn required_labels(&self) -> Vec<String> {
        ["Insert", "Drain", "Extract", "Import", "PreconfSuccess", "PreconfFailure", "PreconfSqueezed", "PreconfLate", "Expire", "ExpirePending"]
            .iter()
            .map(|s| s.to_string())
            .collect()
    }
}
