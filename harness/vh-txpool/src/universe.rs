//! The fixed universe of prepared transactions and the genesis chain state.
//!
//! Every transaction goes through the same verification pipeline the service
//! runs (`Verification::perform_all_verifications`, via the hook) so the pool
//! sees exactly the `PoolTransaction`s it would see in production.
use crate::chain::{ChainData, ChainDb, ChainProvider};
use fuel_core_txpool::{
    ports::{ChainStateInfoProvider, GasPriceProvider, WasmChecker, WasmValidityError},
    verif_hooks::verify_transaction,
};
use fuel_core_types::{
    blockchain::header::ConsensusParametersVersion,
    entities::{
        coins::coin::CompressedCoin,
        relayer::message::{Message, MessageV1},
    },
    fuel_asm::op,
    fuel_tx::{
        field::Inputs, BlobBody, BlobId, BlobIdExt, Bytes32, ConsensusParameters, Contract, ContractId,
        Input, Output, Transaction, TransactionBuilder, TxId, UniqueIdentifier, UtxoId,
    },
    fuel_types::{Address, AssetId, Nonce},
    fuel_vm::{checked_transaction::EstimatePredicates, interpreter::MemoryInstance, predicate::EmptyStorage},
    services::txpool::ArcPoolTx,
};
use std::collections::BTreeMap;
use std::sync::Arc;

pub const COIN_AMOUNT: u64 = 100_000_000;
pub const GAS_LIMIT: u64 = 100_000;
pub const MAX_FEE: u64 = 1_000_000;
pub const LOW_MAX_FEE: u64 = 1_000;

struct Params(Arc<ConsensusParameters>);
impl ChainStateInfoProvider for Params {
    fn latest_consensus_parameters(&self) -> (ConsensusParametersVersion, Arc<ConsensusParameters>) {
        (0, self.0.clone())
    }
}
struct ZeroGasPrice;
impl GasPriceProvider for ZeroGasPrice {
    fn next_gas_price(&self) -> u64 {
        0
    }
}
struct NoWasm;
impl WasmChecker for NoWasm {
    fn validate_uploaded_wasm(&self, _wasm_root: &Bytes32) -> Result<(), WasmValidityError> {
        Ok(())
    }
}

/// One prepared transaction with everything the reference model needs,
/// computed from the transaction itself.
pub struct UTx {
    pub name: &'static str,
    pub tx: ArcPoolTx,
    pub raw: Transaction,
    pub id: TxId,
    pub coin_inputs: Vec<UtxoId>,
    /// (utxo, owner, amount, asset) as declared by the coin inputs.
    pub coin_inputs_full: Vec<(UtxoId, Address, u64, AssetId)>,
    pub msg_inputs: Vec<Nonce>,
    pub contract_inputs: Vec<ContractId>,
    pub created_contracts: Vec<ContractId>,
    pub blob: Option<BlobId>,
    /// (output index, owner, amount, asset) of every `Output::Coin`.
    pub coin_outputs: Vec<(u16, Address, u64, AssetId)>,
    pub tip: u64,
    pub gas: u64,
    pub size: usize,
    pub max_gas_price: u64,
}

pub struct Universe {
    pub txs: Vec<UTx>,
    pub genesis: ChainData,
    pub by_id: BTreeMap<TxId, usize>,
    pub contract_k: ContractId,
}

impl Universe {
    pub fn idx(&self, name: &str) -> usize {
        self.txs
            .iter()
            .position(|t| t.name == name)
            .unwrap_or_else(|| mcx::machinery_failure(&format!("unknown universe tx {name}")))
    }
    pub fn name_of(&self, id: &TxId) -> String {
        match self.by_id.get(id) {
            Some(i) => self.txs[*i].name.to_string(),
            None => format!("?{id}"),
        }
    }
    /// The universe transaction (if any) that creates the given coin.
    pub fn creator_of(&self, utxo: &UtxoId) -> Option<usize> {
        self.by_id.get(utxo.tx_id()).copied()
    }
}

fn predicate() -> Vec<u8> {
    vec![op::ret(1)].into_iter().collect()
}

pub fn owner() -> Address {
    Input::predicate_owner(predicate())
}

fn coin_input(utxo: UtxoId, amount: u64) -> Input {
    Input::coin_predicate(
        utxo,
        owner(),
        amount,
        AssetId::BASE,
        Default::default(),
        Default::default(),
        predicate(),
        vec![],
    )
}

fn genesis_utxo(n: u8) -> UtxoId {
    UtxoId::new(TxId::from([n; 32]), 0)
}

struct Builder {
    params: Arc<ConsensusParameters>,
    db: ChainDb,
    txs: Vec<UTx>,
}

impl Builder {
    fn estimate(&self, tx: &mut Transaction) {
        let params = (&*self.params).into();
        let r = match tx {
            Transaction::Script(t) => t.estimate_predicates(&params, MemoryInstance::new(), &EmptyStorage),
            Transaction::Create(t) => t.estimate_predicates(&params, MemoryInstance::new(), &EmptyStorage),
            Transaction::Blob(t) => t.estimate_predicates(&params, MemoryInstance::new(), &EmptyStorage),
            _ => mcx::machinery_failure("unexpected transaction kind in universe"),
        };
        if let Err(e) = r {
            mcx::machinery_failure(&format!("predicate estimation failed: {e:?}"));
        }
    }

    fn add(&mut self, name: &'static str, mut raw: Transaction) -> TxId {
        self.estimate(&mut raw);
        let pool_tx = verify_transaction(
            raw.clone(),
            1u32.into(),
            Arc::new(ChainProvider(self.db.clone())),
            Arc::new(Params(self.params.clone())),
            Arc::new(ZeroGasPrice),
            Arc::new(NoWasm),
            true,
            false,
        )
        .unwrap_or_else(|e| mcx::machinery_failure(&format!("universe tx {name} fails verification: {e}")));
        let id = raw.id(&self.params.chain_id());
        if id != pool_tx.id() {
            mcx::machinery_failure("tx id mismatch");
        }
        let mut coin_inputs = vec![];
        let mut coin_inputs_full = vec![];
        let mut msg_inputs = vec![];
        let mut contract_inputs = vec![];
        for input in pool_tx.inputs() {
            if input.is_coin() {
                coin_inputs.push(*input.utxo_id().unwrap());
                coin_inputs_full.push((
                    *input.utxo_id().unwrap(),
                    *input.input_owner().unwrap(),
                    input.amount().unwrap(),
                    *input.asset_id(&AssetId::BASE).unwrap(),
                ));
            } else if input.is_message() {
                msg_inputs.push(*input.nonce().unwrap());
            } else if let Some(c) = input.contract_id() {
                contract_inputs.push(*c);
            }
        }
        let mut created_contracts = vec![];
        let mut coin_outputs = vec![];
        for (i, output) in pool_tx.outputs().iter().enumerate() {
            match output {
                Output::ContractCreated { contract_id, .. } => created_contracts.push(*contract_id),
                Output::Coin { to, amount, asset_id } => coin_outputs.push((i as u16, *to, *amount, *asset_id)),
                _ => {}
            }
        }
        let blob = match &raw {
            Transaction::Blob(b) => {
                use fuel_core_types::fuel_tx::field::BlobId as _;
                Some(*b.blob_id())
            }
            _ => None,
        };
        let utx = UTx {
            name,
            id,
            coin_inputs,
            coin_inputs_full,
            msg_inputs,
            contract_inputs,
            created_contracts,
            blob,
            coin_outputs,
            tip: pool_tx.tip(),
            gas: pool_tx.max_gas(),
            size: pool_tx.metered_bytes_size(),
            max_gas_price: pool_tx.max_gas_price(),
            tx: Arc::new(pool_tx),
            raw,
        };
        self.txs.push(utx);
        id
    }

    fn script(&self, inputs: Vec<Input>, outputs: Vec<Output>, tip: u64, max_fee: u64, data: Vec<u8>) -> Transaction {
        let mut b = TransactionBuilder::script(vec![], data);
        b.script_gas_limit(GAS_LIMIT);
        for i in inputs {
            b.add_input(i);
        }
        for o in outputs {
            b.add_output(o);
        }
        b.tip(tip);
        b.max_fee_limit(max_fee);
        b.finalize_as_transaction()
    }
}

/// Build the universe (deterministic: no randomness anywhere).
pub fn build() -> Universe {
    let params = Arc::new(ConsensusParameters::standard());
    let own = owner();

    // ---- genesis chain state ------------------------------------------------
    let mut genesis = ChainData::default();
    // coins 1..=8 and 10..=12 exist; coin 9 ("missing") does not
    for n in (1..=8u8).chain(10..=12) {
        let mut coin = CompressedCoin::default();
        coin.set_owner(own);
        coin.set_amount(COIN_AMOUNT);
        coin.set_asset_id(AssetId::BASE);
        genesis.coins.insert(genesis_utxo(n), coin);
    }
    let nonce: Nonce = 7u64.into();
    let message: Message = MessageV1 {
        sender: Default::default(),
        recipient: own,
        nonce,
        amount: COIN_AMOUNT,
        data: vec![],
        da_height: Default::default(),
    }
    .into();
    genesis.messages.insert(nonce, message.clone());
    // a data-carrying message (its amount cannot pay fees: spenders also bring a coin)
    let data_nonce: Nonce = 8u64.into();
    let data_message: Message = MessageV1 {
        sender: Default::default(),
        recipient: own,
        nonce: data_nonce,
        amount: COIN_AMOUNT,
        data: vec![1, 2, 3, 4],
        da_height: Default::default(),
    }
    .into();
    genesis.messages.insert(data_nonce, data_message);
    let data_msg_input = || {
        Input::message_data_predicate(
            Default::default(),
            own,
            COIN_AMOUNT,
            data_nonce,
            Default::default(),
            vec![1, 2, 3, 4],
            predicate(),
            Default::default(),
        )
    };
    // a contract that exists on chain from the start
    let contract_k0 = ContractId::from([0x77; 32]);
    genesis.contracts.insert(contract_k0);
    let msg_input = || {
        Input::message_coin_predicate(
            Default::default(),
            own,
            COIN_AMOUNT,
            nonce,
            Default::default(),
            predicate(),
            Default::default(),
        )
    };

    let mut b = Builder { params: params.clone(), db: ChainDb::new(genesis.clone()), txs: vec![] };
    let coin = |to: Address, amount: u64| Output::coin(to, amount, AssetId::BASE);

    // a / b / bb / c: collisions on coin 1 (c additionally on the message)
    let a = b.script(
        vec![coin_input(genesis_utxo(1), COIN_AMOUNT)],
        vec![coin(own, 30_000_000), coin(own, 30_000_000)],
        1000,
        LOW_MAX_FEE,
        vec![],
    );
    let id_a = b.add("a", a);
    let tx_b = b.script(vec![coin_input(genesis_utxo(1), COIN_AMOUNT)], vec![], 2000, LOW_MAX_FEE, vec![1]);
    b.add("b", tx_b);
    let tx_bb = b.script(vec![coin_input(genesis_utxo(1), COIN_AMOUNT)], vec![], 2000, LOW_MAX_FEE, vec![2]);
    b.add("bb", tx_bb);
    let tx_c = b.script(vec![coin_input(genesis_utxo(1), COIN_AMOUNT), msg_input()], vec![], 3000, MAX_FEE, vec![]);
    b.add("c", tx_c);
    // chain a -> d -> e -> q, diamond attempt f (a.1 and d.1)
    let tx_d = b.script(
        vec![coin_input(UtxoId::new(id_a, 0), 30_000_000)],
        vec![coin(own, 10_000_000), coin(own, 10_000_000)],
        1500,
        MAX_FEE,
        vec![],
    );
    let id_d = b.add("d", tx_d);
    let tx_e = b.script(
        vec![coin_input(UtxoId::new(id_d, 0), 10_000_000)],
        vec![coin(own, 5_000_000)],
        2500,
        MAX_FEE,
        vec![],
    );
    let id_e = b.add("e", tx_e);
    let tx_q = b.script(vec![coin_input(UtxoId::new(id_e, 0), 5_000_000)], vec![], 2700, MAX_FEE, vec![]);
    b.add("q", tx_q);
    let tx_f = b.script(
        vec![coin_input(UtxoId::new(id_a, 1), 30_000_000), coin_input(UtxoId::new(id_d, 1), 10_000_000)],
        vec![],
        3500,
        MAX_FEE,
        vec![],
    );
    b.add("f", tx_f);
    // g / i create the same contract K, h uses K
    let code: Vec<u8> = vec![op::ret(1)].into_iter().collect();
    let contract: Contract = code.clone().into();
    let state_root = Contract::default_state_root();
    let contract_k = Contract::id(&Default::default(), &contract.root(), &state_root);
    let create = |input: Input, tip: u64| {
        let mut t = TransactionBuilder::create(code.clone().into(), Default::default(), Default::default());
        t.add_input(input);
        t.add_output(Output::contract_created(contract_k, state_root));
        t.tip(tip);
        t.max_fee_limit(MAX_FEE);
        t.finalize_as_transaction()
    };
    let tx_g = create(coin_input(genesis_utxo(3), COIN_AMOUNT), 1200);
    let id_g = b.add("g", tx_g);
    let tx_i = create(coin_input(genesis_utxo(5), COIN_AMOUNT), 1700);
    b.add("i", tx_i);
    let tx_h = b.script(
        vec![
            Input::contract(
                UtxoId::new(id_g, 0),
                Default::default(),
                Default::default(),
                Default::default(),
                contract_k,
            ),
            coin_input(genesis_utxo(4), COIN_AMOUNT),
        ],
        vec![Output::contract(0, Default::default(), Default::default())],
        2200,
        MAX_FEE,
        vec![],
    );
    b.add("h", tx_h);
    // j / k upload the same blob
    let blob_bytes = vec![7u8; 64];
    let blob_id = BlobId::compute(&blob_bytes);
    let blob = |input: Input, tip: u64| {
        let mut t = TransactionBuilder::blob(BlobBody { id: blob_id, witness_index: 0 });
        t.add_witness(blob_bytes.clone().into());
        t.add_input(input);
        t.tip(tip);
        t.max_fee_limit(MAX_FEE);
        t.finalize_as_transaction()
    };
    let tx_j = blob(coin_input(genesis_utxo(6), COIN_AMOUNT), 1300);
    b.add("j", tx_j);
    let tx_k = blob(coin_input(genesis_utxo(7), COIN_AMOUNT), 2300);
    b.add("k", tx_k);
    // m spends the message
    let tx_m = b.script(vec![msg_input()], vec![], 1800, MAX_FEE, vec![]);
    b.add("m", tx_m);
    // r: an independent plain transfer (coin 2)
    let tx_r =
        b.script(vec![coin_input(genesis_utxo(2), COIN_AMOUNT)], vec![coin(own, 10_000_000)], 2600, MAX_FEE, vec![]);
    let id_r = b.add("r", tx_r);
    // s: two independent parents (a.1 and r.0), no diamond; a offers a low gas price, r does not
    let tx_s = b.script(
        vec![coin_input(UtxoId::new(id_a, 1), 30_000_000), coin_input(UtxoId::new(id_r, 0), 10_000_000)],
        vec![],
        3300,
        MAX_FEE,
        vec![],
    );
    b.add("s", tx_s);
    // t: a join with exactly three ancestors (a -> d -> t and r -> t)
    let tx_t = b.script(
        vec![coin_input(UtxoId::new(id_d, 1), 10_000_000), coin_input(UtxoId::new(id_r, 0), 10_000_000)],
        vec![],
        3700,
        MAX_FEE,
        vec![],
    );
    b.add("t", tx_t);
    // h2: two contract inputs, the on-chain contract K0 first and K second
    let tx_h2 = b.script(
        vec![
            Input::contract(UtxoId::new(TxId::from([0x76; 32]), 0), Default::default(), Default::default(), Default::default(), contract_k0),
            Input::contract(UtxoId::new(id_g, 0), Default::default(), Default::default(), Default::default(), contract_k),
            coin_input(genesis_utxo(12), COIN_AMOUNT),
        ],
        vec![
            Output::contract(0, Default::default(), Default::default()),
            Output::contract(1, Default::default(), Default::default()),
        ],
        2400,
        MAX_FEE,
        vec![],
    );
    b.add("h2", tx_h2);
    // md1 / md2 spend the same data-carrying message (and a coin each for the fee)
    let tx_md1 =
        b.script(vec![data_msg_input(), coin_input(genesis_utxo(10), COIN_AMOUNT)], vec![], 1900, MAX_FEE, vec![]);
    b.add("md1", tx_md1);
    let tx_md2 =
        b.script(vec![data_msg_input(), coin_input(genesis_utxo(11), COIN_AMOUNT)], vec![], 2900, MAX_FEE, vec![]);
    b.add("md2", tx_md2);
    // n: missing coin; o: wrong amount vs the chain coin; p: wrong amount vs a's output
    let tx_n = b.script(vec![coin_input(genesis_utxo(9), COIN_AMOUNT)], vec![], 1100, MAX_FEE, vec![]);
    b.add("n", tx_n);
    let tx_o = b.script(vec![coin_input(genesis_utxo(8), COIN_AMOUNT - 1)], vec![], 1400, MAX_FEE, vec![]);
    b.add("o", tx_o);
    let tx_p = b.script(vec![coin_input(UtxoId::new(id_a, 1), 29_000_000)], vec![], 1600, MAX_FEE, vec![]);
    b.add("p", tx_p);

    let txs = b.txs;
    let by_id = txs.iter().enumerate().map(|(i, t)| (t.id, i)).collect();
    let u = Universe { txs, genesis, by_id, contract_k };
    sanity(&u);
    u
}

fn conflicts(x: &UTx, y: &UTx) -> bool {
    x.coin_inputs.iter().any(|c| y.coin_inputs.contains(c))
        || x.msg_inputs.iter().any(|c| y.msg_inputs.contains(c))
        || x.created_contracts.iter().any(|c| y.created_contracts.contains(c))
        || (x.blob.is_some() && x.blob == y.blob)
}

/// Static facts the oracles rely on; a violated fact is a machinery failure.
fn sanity(u: &Universe) {
    for t in &u.txs {
        if t.gas == 0 || t.tip == 0 {
            mcx::machinery_failure("universe tx with zero gas or tip");
        }
        // raw inputs are the inputs of the pool transaction
        let n_inputs = match &t.raw {
            Transaction::Script(s) => s.inputs().len(),
            Transaction::Create(s) => s.inputs().len(),
            Transaction::Blob(s) => s.inputs().len(),
            _ => 0,
        };
        if n_inputs != t.tx.inputs().len() {
            mcx::machinery_failure("input count mismatch");
        }
    }
    // Tip-per-gas (the statement) and (tip+1)/gas (the implementation's sort
    // key) must rank every pair of transactions that can be pooled together
    // identically and strictly, so that neither the +1 nor the wall-clock
    // tie-breaker can influence any extraction order.
    for (i, x) in u.txs.iter().enumerate() {
        for y in u.txs.iter().skip(i + 1) {
            let stmt = (x.tip as u128 * y.gas as u128).cmp(&(y.tip as u128 * x.gas as u128));
            let imp = ((x.tip as u128 + 1) * y.gas as u128).cmp(&((y.tip as u128 + 1) * x.gas as u128));
            let tie = stmt == std::cmp::Ordering::Equal || imp == std::cmp::Ordering::Equal;
            if conflicts(x, y) {
                continue;
            }
            if tie || stmt != imp {
                mcx::machinery_failure(&format!(
                    "universe: {} and {} do not have strictly and consistently ordered tip/gas ratios",
                    x.name, y.name
                ));
            }
        }
    }
    // b and bb have exactly the same ratio (strictness witness for C19)
    let (b, bb) = (&u.txs[u.idx("b")], &u.txs[u.idx("bb")]);
    if b.tip != bb.tip || b.gas != bb.gas || b.id == bb.id {
        mcx::machinery_failure("universe: b and bb must differ only in id");
    }
}
