//! C16..C21: bounded exhaustive exploration of the real transaction pool
//! (`PoolWorker` + `Pool` + graph storage + collision manager + selection
//! algorithm of fuel-core-txpool), one harness, one oracle per property id.
mod chain;
mod subject;
mod universe;

use mcx::*;
use serde_json::json;
use std::sync::Arc;
use subject::{Cfg, PoolSubject, Prop};

const ALL: &[&str] = &["a", "b", "bb", "c", "d", "e", "q", "f", "g", "i", "h", "j", "k", "m", "r", "s", "t", "h2", "md1", "md2", "n", "o", "p"];
/// coins, messages, chains, diamonds, collisions, wrong / missing inputs
const FAMILY_COINS: &[&str] = &["a", "b", "bb", "c", "d", "e", "q", "f", "m", "r", "s", "t", "n", "o", "p"];
/// contracts (one and two contract inputs), blobs, a data-carrying message and an ordinary parent / child pair
const FAMILY_CONTRACTS: &[&str] = &["g", "i", "h", "h2", "j", "k", "md1", "md2", "a", "d", "r"];

fn configs(u: &universe::Universe, tier: Tier) -> Vec<Cfg> {
    let gas_a = u.txs[u.idx("a")].gas;
    let size_a = u.txs[u.idx("a")].size;
    let base = Cfg {
        name: "",
        max_txs: 4,
        chain_limit: 3,
        max_gas: gas_a * 40,
        max_bytes: size_a * 40,
        rich: false,
        multi_blocks: false,
        big_cache: false,
        txs: ALL.to_vec(),
        max_dev: 1,
        depth: 5,
        pending_pct: 25,
    };
    // count-limited pool (4 transactions, chains of 3); the spent-input cache holds 5 keys
    // and overflows all the time; blocks carry <= 1 transaction.
    // gas/byte-limited pool (the count, 64, never binds): about four scripts of gas; the
    // spent-input cache (65 keys) can never overflow; blocks with several transactions.
    let gas = |c: Cfg| Cfg { max_txs: 64, max_gas: gas_a * 4 + gas_a / 2, max_bytes: size_a * 6, multi_blocks: true, big_cache: true, ..c };
    match tier {
        Tier::Quick => vec![
            Cfg { name: "coins/count4-chain3-cache5", txs: FAMILY_COINS.to_vec(), ..base.clone() },
            Cfg { name: "contracts/count4-chain3-cache5", txs: FAMILY_CONTRACTS.to_vec(), ..base.clone() },
            // (a tighter gas limit, about three scripts, and one level less: keeps the quick tier short)
            Cfg { max_gas: gas_a * 3 + gas_a / 2, depth: 4, pending_pct: 34, ..gas(Cfg { name: "coins/gas3-chain3-cache65", txs: FAMILY_COINS.to_vec(), ..base.clone() }) },
        ],
        Tier::Thorough => vec![
            Cfg { name: "all/count4-chain3-cache5", rich: true, max_dev: 2, depth: 6, ..base.clone() },
            gas(Cfg { name: "all/gas4-chain3-cache65", rich: true, max_dev: 2, depth: 6, ..base.clone() }),
            Cfg { name: "all/count3-chain2-cache4", max_txs: 3, chain_limit: 2, max_dev: 2, depth: 6, pending_pct: 34, ..base.clone() },
            Cfg { name: "coins/count4-chain3-cache5", txs: FAMILY_COINS.to_vec(), rich: true, max_dev: 2, depth: 7, ..base.clone() },
            Cfg { name: "contracts/count4-chain3-cache5", txs: FAMILY_CONTRACTS.to_vec(), rich: true, max_dev: 2, depth: 7, ..base },
        ],
    }
}

fn main() {
    let cli = Cli::parse();
    let Some(prop) = Prop::parse(&cli.property) else {
        machinery_failure(&format!("vh-txpool does not serve {}", cli.property));
    };
    let u = Arc::new(universe::build());
    if std::env::var("VH_TXPOOL_SHOW").is_ok() {
        for t in &u.txs {
            println!(
                "{:3} id={} tip={} gas={} size={} price={} coins={} msgs={} cin={} created={} blob={}",
                t.name, t.id, t.tip, t.gas, t.size, t.max_gas_price, t.coin_inputs.len(), t.msg_inputs.len(),
                t.contract_inputs.len(), t.created_contracts.len(), t.blob.is_some()
            );
        }
    }
    let only = std::env::var("VH_TXPOOL_ONLY").ok();
    let subjects: Vec<PoolSubject> = configs(&u, cli.tier)
        .into_iter()
        .filter(|c| only.as_ref().map(|o| c.name.contains(o.as_str())).unwrap_or(true))
        .map(|cfg| PoolSubject { u: u.clone(), prop, cfg })
        .collect();
    if let Some(path) = &cli.replay {
        let rf = load_replay(path);
        // `step` does not depend on the richness of the alphabet, so the thorough list
        // (a superset of configurations) serves every replay file
        for cfg in configs(&u, Tier::Thorough).into_iter().chain(configs(&u, Tier::Quick)) {
            let s = PoolSubject { u: u.clone(), prop, cfg };
            if s.name() == rf.subject {
                replay_and_exit(&s, &rf);
            }
        }
        machinery_failure("replay: unknown subject");
    }
    let mut run = Run::new(&cli, "model_checking");
    let n = subjects.len() as u64;
    for s in &subjects {
        let depth = std::env::var("VH_TXPOOL_DEPTH").ok().and_then(|d| d.parse().ok()).unwrap_or(s.cfg.depth);
        let b = Bounds::new(depth, &cli)
            .deviations(s.cfg.max_dev)
            .wall(cli.tier.pick(50, 1200 / n))
            .states(cli.tier.pick(600_000, 8_000_000));
        run.add(explore(s, &b));
    }
    let hits = subject::event_hits();
    // vacuity: the situations the properties talk about must really have occurred
    let needed: &[&str] = match prop {
        Prop::C16 => &["collision_won", "evicted_for_space", "cascade_removed_dependents", "block_with_pool_txs", "preconf_rolled_back", "pending_resolution_inserted"],
        Prop::C17 => &["dependency_rule_rejected", "cascade_removed_dependents", "extraction_with_parent_and_child", "expired_with_dependents", "skipped_tx_dependents_removed"],
        Prop::C18 => &["extraction_nonempty", "extraction_with_parent_and_child", "extraction_left_something_behind"],
        Prop::C19 => &["must_reject_duplicate", "must_reject_missing_input", "must_reject_committed_input", "must_reject_handed_out_input", "must_reject_field_mismatch", "collision_won", "collision_lost", "equal_ratio_collision_rejected"],
        Prop::C20 => &["block_with_pool_txs", "preconf_confirmed_by_block", "preconf_rolled_back", "rollback_evicted_dependents", "rollback_freed_resubmission", "late_preconf_ignored"],
        Prop::C21 => &["squeeze_reports_checked", "collision_won", "evicted_for_space", "cascade_removed_dependents", "rollback_evicted_dependents", "expired_with_dependents", "skipped_tx_dependents_removed"],
    };
    // (a run that found violations has a verdict already; vacuity only guards a green one)
    let violations: usize = run.reports.iter().map(|r| r.violations.len()).sum();
    for n in needed {
        if violations == 0 && hits.get(*n).copied().unwrap_or(0) == 0 {
            machinery_failure(&format!("vacuous exploration: event `{n}` never occurred"));
        }
    }
    run.note("event_hits", json!(hits));
    run.note(
        "universe",
        json!(u.txs.iter().map(|t| json!({"name": t.name, "tip": t.tip, "max_gas": t.gas, "size": t.size, "max_gas_price": t.max_gas_price})).collect::<Vec<_>>()),
    );
    run.note("oracle", json!(cli.property));
    run.assume("transactions are prepared by the service's own verification pipeline (hook verify_transaction) against the genesis state; 23 fixed transactions");
    run.assume("the persistent-storage port is a map/set model of the chain; an imported block is applied to it before the pool is told, as the importer does");
    run.assume("wall-clock stamps never enter observations or the canonical state; all pairs of transactions that can be pooled together have strictly and identically ordered tip/gas and (tip+1)/gas, so the creation-time tie-breaker is never consulted");
    run.assume("the worker's handlers are called one at a time (the worker is single-threaded by construction); queued pending-pool resolutions are an explicit letter");
    match prop {
        Prop::C18 => run.assume("'executable at the same time' = same dependency depth within one extraction"),
        Prop::C19 => run.assume("only the stated implications are checked: rejections the statement does not require are never alarms; 'handed out and not yet settled' = extracted since the last imported block and neither committed nor skipped; outputs of handed-out or preconfirmed transactions count as existing"),
        Prop::C20 => run.assume("'may be submitted again' = not refused as duplicate, nor as already-spent for an input that is unspent on chain and not held by another in-flight transaction (side-effect free admission probe + spent-tx probe)"),
        Prop::C21 => run.assume("a transaction skipped by the block producer (squeezed-out preconfirmation for itself) is not constrained: the status service already knows"),
        _ => {}
    }
    run.finish();
}
