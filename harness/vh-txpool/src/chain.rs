//! Model-backed persistent storage handed to the real pool: a boring map/set
//! model of the on-chain state (unspent coins, unspent messages, contracts,
//! blobs, committed transaction ids) behind the `TxPoolPersistentStorage` port.
use fuel_core_storage::{
    transactional::AtomicView, Mappable, PredicateStorageRequirements, Result as StorageResult,
    StorageInspect, StorageRead, StorageReadError, StorageSize,
};
use fuel_core_txpool::ports::TxPoolPersistentStorage;
use fuel_core_types::{
    entities::{coins::coin::CompressedCoin, relayer::message::Message},
    fuel_tx::{BlobId, ContractId, TxId, UtxoId},
    fuel_types::Nonce,
    fuel_vm::{BlobBytes, BlobData},
};
use std::borrow::Cow;
use std::collections::{BTreeMap, BTreeSet};
use std::sync::{Arc, Mutex};

#[derive(Default, Clone)]
pub struct ChainData {
    pub coins: BTreeMap<UtxoId, CompressedCoin>,
    pub messages: BTreeMap<Nonce, Message>,
    pub contracts: BTreeSet<ContractId>,
    pub blobs: BTreeMap<BlobId, BlobBytes>,
    pub txs: BTreeSet<TxId>,
    /// Coins / messages consumed by committed transactions.
    pub spent_coins: BTreeSet<UtxoId>,
    pub spent_messages: BTreeSet<Nonce>,
    pub height: u32,
}

#[derive(Clone, Default)]
pub struct ChainDb {
    pub data: Arc<Mutex<ChainData>>,
}

impl ChainDb {
    pub fn new(data: ChainData) -> Self {
        Self { data: Arc::new(Mutex::new(data)) }
    }
    pub fn read<T>(&self, f: impl FnOnce(&ChainData) -> T) -> T {
        f(&self.data.lock().unwrap())
    }
    pub fn write<T>(&self, f: impl FnOnce(&mut ChainData) -> T) -> T {
        f(&mut self.data.lock().unwrap())
    }
}

impl TxPoolPersistentStorage for ChainDb {
    fn contains_tx(&self, tx_id: &TxId) -> StorageResult<bool> {
        Ok(self.read(|d| d.txs.contains(tx_id)))
    }
    fn utxo(&self, utxo_id: &UtxoId) -> StorageResult<Option<CompressedCoin>> {
        Ok(self.read(|d| d.coins.get(utxo_id).cloned()))
    }
    fn contract_exist(&self, contract_id: &ContractId) -> StorageResult<bool> {
        Ok(self.read(|d| d.contracts.contains(contract_id)))
    }
    fn blob_exist(&self, blob_id: &BlobId) -> StorageResult<bool> {
        Ok(self.read(|d| d.blobs.contains_key(blob_id)))
    }
    fn message(&self, id: &Nonce) -> StorageResult<Option<Message>> {
        Ok(self.read(|d| d.messages.get(id).cloned()))
    }
}

impl StorageRead<BlobData> for ChainDb {
    fn read_exact(
        &self,
        key: &<BlobData as Mappable>::Key,
        offset: usize,
        buf: &mut [u8],
    ) -> Result<core::result::Result<usize, StorageReadError>, ()> {
        let table = self.data.lock().unwrap();
        let Some(value) = table.blobs.get(key) else {
            return Ok(Err(StorageReadError::KeyNotFound));
        };
        let buf_len = buf.len();
        let Some(data) = value.as_ref().get(offset..offset.saturating_add(buf_len)) else {
            return Ok(Err(StorageReadError::OutOfBounds));
        };
        buf.copy_from_slice(data);
        Ok(Ok(buf_len))
    }

    fn read_zerofill(
        &self,
        key: &<BlobData as Mappable>::Key,
        offset: usize,
        buf: &mut [u8],
    ) -> Result<core::result::Result<usize, StorageReadError>, ()> {
        let table = self.data.lock().unwrap();
        let Some(value) = table.blobs.get(key) else {
            return Ok(Err(StorageReadError::KeyNotFound));
        };
        let bytes_len = value.as_ref().len();
        let buf_len = buf.len();
        let Some((_, after)) = value.as_ref().split_at_checked(offset) else {
            return Ok(Err(StorageReadError::OutOfBounds));
        };
        let (dst, rest) = buf.split_at_mut(buf_len.min(after.len()));
        dst.copy_from_slice(&after[..dst.len()]);
        rest.fill(0);
        Ok(Ok(bytes_len))
    }

    fn read_alloc(&self, key: &<BlobData as Mappable>::Key) -> Result<Option<Vec<u8>>, Self::Error> {
        let table = self.data.lock().unwrap();
        Ok(table.blobs.get(key).map(|bytes| bytes.clone().into()))
    }
}

impl StorageInspect<BlobData> for ChainDb {
    type Error = ();

    fn get(
        &self,
        key: &<BlobData as Mappable>::Key,
    ) -> Result<Option<Cow<'_, <BlobData as Mappable>::OwnedValue>>, Self::Error> {
        let table = self.data.lock().unwrap();
        Ok(table.blobs.get(key).map(|b| Cow::Owned(b.clone())))
    }

    fn contains_key(&self, key: &<BlobData as Mappable>::Key) -> Result<bool, Self::Error> {
        Ok(self.data.lock().unwrap().blobs.contains_key(key))
    }
}

impl StorageSize<BlobData> for ChainDb {
    fn size_of_value(&self, key: &<BlobData as Mappable>::Key) -> Result<Option<usize>, Self::Error> {
        Ok(self.data.lock().unwrap().blobs.get(key).map(|blob| blob.0.len()))
    }
}

impl PredicateStorageRequirements for ChainDb {
    fn storage_error_to_string(error: Self::Error) -> String {
        format!("{:?}", error)
    }
}

#[derive(Clone)]
pub struct ChainProvider(pub ChainDb);

impl AtomicView for ChainProvider {
    type LatestView = ChainDb;
    fn latest_view(&self) -> StorageResult<Self::LatestView> {
        Ok(self.0.clone())
    }
}
