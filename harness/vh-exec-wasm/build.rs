//! Builds the WASM state transition function from the tree under test, exactly the way
//! `fuel-core-upgradable-executor/build.rs` does, but re-running whenever any source that
//! goes into the WASM binary changes. (The repository's build script only re-runs when the
//! *library* part of `fuel-core-wasm-executor` or one of its dependencies changes; edits to
//! the binary-only modules `main.rs`, `ext.rs`, `storage.rs`, `relayer.rs`, `tx_source.rs`
//! would otherwise leave a stale embedded blob in an existing target directory.)
use std::{env, path::PathBuf, process::Command};

fn main() {
    let repo = PathBuf::from(env::var("VERIF_REPO").unwrap_or_else(|_| "/repo".to_string()));
    println!("cargo:rerun-if-env-changed=VERIF_REPO");
    println!("cargo:rerun-if-changed=build.rs");
    for d in [
        "crates/services/upgradable-executor/wasm-executor",
        "crates/services/executor",
        "crates/storage",
        "crates/types",
        "Cargo.lock",
        "Cargo.toml",
    ] {
        println!("cargo:rerun-if-changed={}", repo.join(d).display());
    }
    let out_dir = PathBuf::from(env::var_os("OUT_DIR").expect("OUT_DIR"));
    // target/<profile>/vh-exec-wasm-blob-cache (own target dir: the outer cargo holds the lock of its own)
    let mut cache_dir = out_dir.clone();
    cache_dir.pop();
    cache_dir.pop();
    cache_dir.pop();
    cache_dir.push("vh-exec-wasm-blob-cache");
    let cargo = env::var("CARGO").unwrap_or_else(|_| "cargo".to_string());
    let wasm_executor = repo.join("crates/services/upgradable-executor/wasm-executor");
    let mut cmd = Command::new(cargo);
    cmd.env("CARGO_PROFILE_RELEASE_LTO", "true")
        .env("CARGO_PROFILE_RELEASE_PANIC", "abort")
        .env("CARGO_PROFILE_RELEASE_CODEGEN_UNITS", "1")
        .env("CARGO_PROFILE_RELEASE_OPT_LEVEL", "3")
        .env("CARGO_PROFILE_RELEASE_STRIP", "symbols")
        .env("CARGO_PROFILE_RELEASE_DEBUG", "false")
        .env_remove("CARGO_TARGET_DIR")
        .current_dir(repo.join("crates/services"))
        .args([
            "install",
            "--target=wasm32-unknown-unknown",
            "--no-default-features",
            "--locked",
            "--offline",
            &format!("--target-dir={}", cache_dir.display()),
            &format!("--root={}", out_dir.display()),
            "--path",
            &wasm_executor.display().to_string(),
        ]);
    let out = cmd.output().expect("running cargo install for the wasm executor");
    if !out.status.success() {
        panic!("building the WASM executor failed:\n{}\n{}", String::from_utf8_lossy(&out.stdout), String::from_utf8_lossy(&out.stderr));
    }
}
